(* RoundTripBinW.v — writer side of the binary round trip: running the Writer model on the canonical
   call sequence of a value appends exactly [enc] of that value to the buffer on top of the stack,
   and Finish emits the version marker, the local symbol table and the buffered bytes. *)
From Coq Require Import String List NArith ZArith Bool Lia ZifyBool ZifyN ZifyNat.
From IonV Require Import Base.Wire Base.Utf8 Bin.Bits Bin.BitsP Data.Ion Num.Float
  Bin.BinWriter Bin.BinWriterP Bin.SpecBin Bin.RoundTripBin Bin.RoundTripBinS.
Import ListNotations.
Open Scope N_scope.
Ltac Zify.zify_post_hook ::= Z.div_mod_to_equations.
Arguments append_varuint : simpl never.
(* ---- states of a healthy growing-table writer ------------------------------------------------------------ *)
Definition mkw (out : sink) (ctx : list N) (fld : option tok) (ann : list tok) (bufs : list bufseq)
  (L : list text) (wl : bool) : wstate :=
  {| w_out := out; w_ctx := ctx; w_err := false; w_field := fld; w_annots := ann; w_bufs := bufs;
     w_lst := None; w_lstb := L; w_wrote_lst := wl |}.

Definition ctx_top (ctx : list N) : N := match ctx with [] => 0 | c :: _ => c end.
Definition is_some {A} (o : option A) : bool := match o with Some _ => true | None => false end.

(* what a buffer holds: its code, the bytes of its chunks, and its accumulated length *)
Definition absq (q : bufseq) (c : option N) (b : list N) : Prop :=
  bs_code q = c /\ concat (bs_chunks q) = b /\ bs_len q = N.of_nat (length b).
Definition ndesc (n : node) (nb : list N) : Prop :=
  concat (nd_chunks n) = nb /\ nd_len n = N.of_nat (length nb).

Lemma ndesc_atom b : ndesc (atom b) b.
Proof. unfold ndesc, atom. cbn. rewrite app_nil_r. auto. Qed.

Lemma absq_append q c b n nb : absq q c b -> ndesc n nb -> absq (seq_append q n) c (b ++ nb).
Proof.
  intros (A & B & C) (D & E). unfold absq, seq_append. cbn.
  rewrite concat_app, B, D, C, E, app_length, Nat2N.inj_add. auto.
Qed.

Lemma ndesc_node_of_seq q code b : absq q (Some code) b -> ndesc (node_of_seq q) (enc_tagged code b).
Proof.
  intros (A & B & C). unfold ndesc, node_of_seq. rewrite A. cbn [nd_chunks nd_len concat].
  rewrite B, C. split; [reflexivity|]. rewrite container_len_tag, enc_tagged_length. reflexivity.
Qed.

Lemma absq_new c : absq (new_seq c) c [].
Proof. repeat split. Qed.

Fixpoint appends (q : bufseq) (ns : list node) : bufseq :=
  match ns with [] => q | n :: r => appends (seq_append q n) r end.
Lemma absq_appends ns : forall nbs q c b, absq q c b -> Forall2 ndesc ns nbs -> absq (appends q ns) c (b ++ concat nbs).
Proof.
  induction ns as [|n ns IH]; intros nbs q c b Hq H; inversion H; subst; cbn [appends concat].
  - rewrite app_nil_r. exact Hq.
  - rewrite app_assoc. apply IH; [apply absq_append; assumption|assumption].
Qed.
Lemma appends_code ns : forall q, bs_code (appends q ns) = bs_code q.
Proof. induction ns as [|n ns IH]; intros q; cbn [appends]; [reflexivity|]. rewrite IH. reflexivity. Qed.

(* ---- symbol resolution in builder mode ---------------------------------------------------------------------- *)
Lemma sid_intern L t : match find_by_name L false t with Some i => i | None => 9 + N.of_nat (length L) + 1 end
                       = sid (intern L t) t.
Proof.
  unfold sid, intern. destruct (find_by_name L false t) as [i|] eqn:E; [rewrite E; reflexivity|].
  rewrite find_by_name_unfold in *. destruct (index_of t system_symbols 1); [discriminate|].
  rewrite index_of_new by exact E. lia.
Qed.

Lemma resolve_mkw out ctx fld ann bufs L wl t :
  resolve_from_table (mkw out ctx fld ann bufs L wl) t =
  (mkw out ctx fld ann bufs (intern L t) wl, sid (intern L t) t, true).
Proof.
  rewrite <- sid_intern. unfold resolve_from_table, intern. cbn [w_lst w_lstb mkw].
  destruct (find_by_name L false t); reflexivity.
Qed.

Lemma fold_intern_extends ts : forall L, extends L (fold_left intern ts L).
Proof.
  induction ts as [|t ts IH]; intros L; cbn [fold_left]; [apply extends_refl|].
  eapply extends_trans; [apply intern_extends|apply IH].
Qed.
Lemma fold_intern_known ts : forall L t, In t ts -> known (fold_left intern ts L) t.
Proof.
  induction ts as [|t0 ts IH]; intros L t Hin; [destruct Hin|]. cbn [fold_left]. destruct Hin as [->|Hin].
  - eapply known_mono; [apply fold_intern_extends|apply intern_known].
  - apply IH. exact Hin.
Qed.
Lemma fold_intern_forall (P : text -> Prop) ts : forall L, Forall P L -> Forall P ts -> Forall P (fold_left intern ts L).
Proof.
  induction ts as [|t ts IH]; intros L HL Hts; cbn [fold_left]; [exact HL|]. inversion Hts; subst.
  apply IH; [|assumption]. unfold intern. destruct (find_by_name L false t); [exact HL|].
  apply Forall_app. split; [exact HL|constructor; [assumption|constructor]].
Qed.

(* the ids of a list of annotations, resolved one after the other *)
Fixpoint ids_thread (L : list text) (ts : list text) : list N :=
  match ts with [] => [] | t :: r => sid (intern L t) t :: ids_thread (intern L t) r end.

Lemma ids_thread_final ts : forall L F, extends (fold_left intern ts L) F -> ids_thread L ts = map (sid F) ts.
Proof.
  induction ts as [|t ts IH]; intros L F HE; cbn [ids_thread map fold_left] in *; [reflexivity|].
  f_equal; [|apply IH; exact HE].
  symmetry. apply sid_mono; [|apply intern_known].
  eapply extends_trans; [apply fold_intern_extends|exact HE].
Qed.

Lemma annot_ids_mkw a : forall out ctx fld ann bufs L wl, Forall wf_sym a ->
  annot_ids (mkw out ctx fld ann bufs L wl) (map tok_of a) =
  (mkw out ctx fld ann bufs (fold_left intern (map symtext a) L) wl, Some (ids_thread L (map symtext a))).
Proof.
  induction a as [|y a IH]; intros out ctx fld ann bufs L wl Hw; [reflexivity|].
  inversion Hw as [|? ? (t & -> & _) Hw']; subst. cbn [map tok_of symtext annot_ids fold_left ids_thread].
  unfold id_of_tok_annot. cbn [tk_text tok_text]. rewrite resolve_mkw. rewrite IH by exact Hw'. reflexivity.
Qed.
(* ---- beginValue / endValue ------------------------------------------------------------------------------------ *)
Definition fld_texts (fld : option text) : list text := match fld with Some t => [t] | None => [] end.
Definition fld_bytes (F : list text) (fld : option text) : list N :=
  match fld with Some t => append_varuint [] (sid F t) | None => [] end.
Definition wrap (F : list text) (a : list symv) (body : list N) : list N :=
  match a with [] => body | _ => enc_tagged 224 (enc_annots F a ++ body) end.
(* the buffer stack after beginValue: the annotation wrapper [e] is pushed iff there are annotations *)
Definition sbufs (a : list symv) (e q1 : bufseq) (r : list bufseq) : list bufseq :=
  match a with [] => q1 :: r | _ => e :: q1 :: r end.
Definition sbufs_app (a : list symv) (e q1 : bufseq) (r : list bufseq) (ns : list node) : list bufseq :=
  match a with [] => appends q1 ns :: r | _ => appends e ns :: q1 :: r end.
Definition fin (a : list symv) (e q1 : bufseq) (ns : list node) : bufseq :=
  match a with [] => appends q1 ns | _ => seq_append q1 (node_of_seq (appends e ns)) end.
Definition abuf (ids : list N) : list N :=
  fold_left (fun b id => append_varuint b id) ids (append_varuint [] (fold_left (fun a id => a + varuint_len id) ids 0)).

Lemma in_struct_mkw out ctx fld ann bufs L wl : in_struct (mkw out ctx fld ann bufs L wl) = (ctx_top ctx =? ctxStruct).
Proof. reflexivity. Qed.

Lemma begin_value_mkw run out ctx fld a q r L wl : Forall wf_sym a -> (ctx_top ctx =? ctxStruct) = is_some fld ->
  let L2 := fold_left intern (fld_texts fld ++ map symtext a) L in
  exists q1 e,
    begin_value run (mkw out ctx (option_map tok_text fld) (map tok_of a) (q :: r) L wl)
      = Ok (mkw out ctx None [] (sbufs a e q1 r) L2 wl, true) /\
    bs_code q1 = bs_code q /\ bs_code e = Some 224 /\
    forall F c b, extends L2 F -> absq q c b ->
      absq q1 c (b ++ fld_bytes F fld) /\ absq e (Some 224) (enc_annots F a).
Proof.
  intros Hw Hs L2.
  set (L1 := fold_left intern (fld_texts fld) L).
  assert (EL2 : L2 = fold_left intern (map symtext a) L1) by (unfold L2, L1; apply fold_left_app).
  set (q1 := match fld with Some t => seq_append q (atom (append_varuint [] (sid (intern L t) t))) | None => q end).
  set (e := seq_append (new_seq (Some 224)) (atom (abuf (ids_thread L1 (map symtext a))))).
  exists q1, e. split; [|split; [|split]].
  - unfold begin_value.
    change (clear (mkw out ctx (option_map tok_text fld) (map tok_of a) (q :: r) L wl)) with (mkw out ctx None [] (q :: r) L wl).
    cbn [w_field w_annots mkw w_lst bind negb].
    rewrite in_struct_mkw, Hs.
    assert (Hf : (if is_some fld
            then match option_map tok_text fld with
                 | Some nm => match id_of_tok_field (mkw out ctx None [] (q :: r) L wl) nm with
                              | Some (w', id) => Ok (write w' (append_varuint [] id))
                              | None => Ok (mkw out ctx None [] (q :: r) L wl, false)
                              end
                 | None => Ok (mkw out ctx None [] (q :: r) L wl, false)
                 end
            else Ok (mkw out ctx None [] (q :: r) L wl, true)) = Ok (mkw out ctx None [] (q1 :: r) L1 wl, true)).
    { destruct fld as [t|]; cbn [is_some option_map]; [|reflexivity].
      unfold id_of_tok_field. cbn [tk_text tok_text]. rewrite resolve_mkw. reflexivity. }
    rewrite Hf.
    cbn [bind negb]. destruct a as [|y a']; [cbn [map]; rewrite EL2; reflexivity|].
    cbn [map]. change (tok_of y :: map tok_of a') with (map tok_of (y :: a')).
    rewrite annot_ids_mkw by exact Hw. rewrite <- EL2. reflexivity.
  - unfold q1. destruct fld; reflexivity.
  - reflexivity.
  - intros F c b HE Hq. split.
    + unfold q1, fld_bytes. destruct fld as [t|]; [|rewrite app_nil_r; exact Hq].
      apply absq_append; [exact Hq|].
      replace (sid (intern L t) t) with (sid F t); [apply ndesc_atom|].
      apply sid_mono; [|apply intern_known].
      eapply extends_trans; [|exact HE]. unfold L2. cbn [fld_texts app fold_left]. apply fold_intern_extends.
    + unfold e. rewrite (ids_thread_final _ L1 F) by (rewrite <- EL2; exact HE). rewrite map_map.
      change (enc_annots F a) with ([] ++ abuf (map (fun y => sid F (symtext y)) a)).
      apply absq_append; [apply absq_new|apply ndesc_atom].
Qed.

Lemma emit_sbufs out ctx a e q1 r L wl n :
  emit (mkw out ctx None [] (sbufs a e q1 r) L wl) n = (mkw out ctx None [] (sbufs_app a e q1 r [n]) L wl, true).
Proof. destruct a; reflexivity. Qed.

Lemma end_value_sbufs out ctx a e q1 r L wl ns : bs_code q1 <> Some 224 -> bs_code e = Some 224 ->
  end_value (mkw out ctx None [] (sbufs_app a e q1 r ns) L wl) = (mkw out ctx None [] (fin a e q1 ns :: r) L wl, true).
Proof.
  intros H1 H2. unfold end_value, sbufs_app, fin. destruct a as [|y a']; cbn [w_bufs mkw].
  - rewrite appends_code. destruct (bs_code q1) as [c|]; [|reflexivity].
    destruct (c =? 224) eqn:E; [|reflexivity]. apply N.eqb_eq in E. congruence.
  - rewrite appends_code, H2. reflexivity.
Qed.

Lemma fin_code a e q1 ns : bs_code (fin a e q1 ns) = bs_code q1.
Proof. unfold fin. destruct a; [apply appends_code|reflexivity]. Qed.

Lemma fin_absq F a e q1 ns c b1 nbs : absq q1 c b1 -> absq e (Some 224) (enc_annots F a) -> Forall2 ndesc ns nbs ->
  absq (fin a e q1 ns) c (b1 ++ wrap F a (concat nbs)).
Proof.
  intros Hq He Hn. unfold fin, wrap. destruct a as [|y a'].
  - apply absq_appends; assumption.
  - apply absq_append; [exact Hq|]. apply ndesc_node_of_seq. apply absq_appends; assumption.
Qed.

Lemma appends_snoc ns : forall q n, appends q (ns ++ [n]) = seq_append (appends q ns) n.
Proof. induction ns as [|m ns IH]; intros q n; cbn [appends app]; [reflexivity|apply IH]. Qed.

(* ---- writeValue ------------------------------------------------------------------------------------------------------ *)
Lemma write_chunks_sbufs out ctx a e q1 r L wl chunks : forall ns,
  fold_left (fun (st : ret) c => let '(w0, ok0) := st in if ok0 then write w0 c else st) chunks
    (mkw out ctx None [] (sbufs_app a e q1 r ns) L wl, true)
  = (mkw out ctx None [] (sbufs_app a e q1 r (ns ++ map atom chunks)) L wl, true).
Proof.
  induction chunks as [|ch chunks IH]; intros ns; cbn [fold_left map].
  - rewrite app_nil_r. reflexivity.
  - replace (write (mkw out ctx None [] (sbufs_app a e q1 r ns) L wl) ch)
      with (mkw out ctx None [] (sbufs_app a e q1 r (ns ++ [atom ch])) L wl, true).
    + rewrite IH, <- app_assoc. reflexivity.
    + unfold sbufs_app. destruct a; rewrite appends_snoc; reflexivity.
Qed.

Lemma Forall2_atoms chunks : Forall2 ndesc (map atom chunks) chunks.
Proof. induction chunks; constructor; [apply ndesc_atom|assumption]. Qed.

Lemma write_value_chunks_mkw run out ctx fld a q r L wl chunks : Forall wf_sym a ->
  (ctx_top ctx =? ctxStruct) = is_some fld -> bs_code q <> Some 224 ->
  let L2 := fold_left intern (fld_texts fld ++ map symtext a) L in
  exists q',
    write_value_chunks run (mkw out ctx (option_map tok_text fld) (map tok_of a) (q :: r) L wl) chunks
      = Ok (mkw out ctx None [] (q' :: r) L2 wl, true) /\
    bs_code q' = bs_code q /\
    forall F c b, extends L2 F -> absq q c b -> absq q' c (b ++ fld_bytes F fld ++ wrap F a (concat chunks)).
Proof.
  intros Hw Hs Hq L2.
  destruct (begin_value_mkw run out ctx fld a q r L wl Hw Hs) as (q1 & e & Hbv & Hc1 & Hce & Hd).
  exists (fin a e q1 (map atom chunks)). split; [|split].
  - unfold write_value_chunks. cbn [w_err mkw]. rewrite Hbv. cbn [bind negb].
    change (sbufs a e q1 r) with (sbufs_app a e q1 r []). rewrite write_chunks_sbufs. cbn [app negb].
    rewrite end_value_sbufs by congruence. reflexivity.
  - rewrite fin_code. exact Hc1.
  - intros F c b HE Hqa. destruct (Hd F c b HE Hqa) as [H1 H2]. rewrite app_assoc.
    apply fin_absq; [exact H1|exact H2|apply Forall2_atoms].
Qed.

Lemma write_value_mkw run out ctx fld a q r L wl val : Forall wf_sym a ->
  (ctx_top ctx =? ctxStruct) = is_some fld -> bs_code q <> Some 224 ->
  let L2 := fold_left intern (fld_texts fld ++ map symtext a) L in
  exists q',
    write_value run (mkw out ctx (option_map tok_text fld) (map tok_of a) (q :: r) L wl) val
      = Ok (mkw out ctx None [] (q' :: r) L2 wl, true) /\
    bs_code q' = bs_code q /\
    forall F c b, extends L2 F -> absq q c b -> absq q' c (b ++ fld_bytes F fld ++ wrap F a val).
Proof.
  intros Hw Hs Hq L2.
  destruct (begin_value_mkw run out ctx fld a q r L wl Hw Hs) as (q1 & e & Hbv & Hc1 & Hce & Hd).
  exists (fin a e q1 [atom val]). split; [|split].
  - unfold write_value. cbn [w_err mkw]. rewrite Hbv. cbn [bind negb].
    unfold write. rewrite emit_sbufs. cbn [negb]. rewrite end_value_sbufs by congruence. reflexivity.
  - rewrite fin_code. exact Hc1.
  - intros F c b HE Hqa. destruct (Hd F c b HE Hqa) as [H1 H2]. rewrite app_assoc.
    replace (wrap F a val) with (wrap F a (concat [val])) by (cbn [concat]; rewrite app_nil_r; reflexivity).
    apply fin_absq; [exact H1|exact H2|]. constructor; [apply ndesc_atom|constructor].
Qed.

(* ---- containers --------------------------------------------------------------------------------------------------------- *)
Lemma begin_container_mkw run out ctx fld a q r L wl t code : Forall wf_sym a ->
  (ctx_top ctx =? ctxStruct) = is_some fld ->
  let L2 := fold_left intern (fld_texts fld ++ map symtext a) L in
  exists q1 e,
    begin_container run (mkw out ctx (option_map tok_text fld) (map tok_of a) (q :: r) L wl) t code
      = Ok (mkw out (t :: ctx) None [] (new_seq (Some code) :: sbufs a e q1 r) L2 wl, true) /\
    bs_code q1 = bs_code q /\ bs_code e = Some 224 /\
    forall F c b, extends L2 F -> absq q c b ->
      absq q1 c (b ++ fld_bytes F fld) /\ absq e (Some 224) (enc_annots F a).
Proof.
  intros Hw Hs L2.
  destruct (begin_value_mkw run out ctx fld a q r L wl Hw Hs) as (q1 & e & Hbv & Hc1 & Hce & Hd).
  exists q1, e. split; [|auto]. unfold begin_container. cbn [w_err mkw]. rewrite Hbv. reflexivity.
Qed.

Lemma end_container_mkw out ctx a e q1 r L wl t qc : t <> 0 -> bs_code q1 <> Some 224 -> bs_code e = Some 224 ->
  end_container (mkw out (t :: ctx) None [] (qc :: sbufs a e q1 r) L wl) t
    = Ok (mkw out ctx None [] (fin a e q1 [node_of_seq qc] :: r) L wl, true).
Proof.
  intros Ht H1 H2. unfold end_container. cbn [w_err mkw]. unfold ctx_peek. cbn [w_ctx mkw].
  rewrite N.eqb_refl. cbn [negb w_bufs mkw].
  change (set_bufs (mkw out (t :: ctx) None [] (qc :: sbufs a e q1 r) L wl) (sbufs a e q1 r))
    with (mkw out (t :: ctx) None [] (sbufs a e q1 r) L wl).
  rewrite emit_sbufs. cbn [negb].
  change (w_ctx (clear (mkw out (t :: ctx) None [] (sbufs_app a e q1 r [node_of_seq qc]) L wl))) with (t :: ctx).
  cbv iota.
  change (set_ctx (clear (mkw out (t :: ctx) None [] (sbufs_app a e q1 r [node_of_seq qc]) L wl)) ctx)
    with (mkw out ctx None [] (sbufs_app a e q1 r [node_of_seq qc]) L wl).
  rewrite end_value_sbufs by assumption. reflexivity.
Qed.
(* ---- driving call sequences ------------------------------------------------------------------------------------------ *)
Lemma drive_app cs1 : forall w cs2, drive_results w (cs1 ++ cs2) =
  do '(w1, o1) <- drive_results w cs1; do '(w2, o2) <- drive_results w1 cs2; Ok (w2, o1 ++ o2).
Proof.
  induction cs1 as [|c cs1 IH]; intros w cs2; cbn [drive_results app bind].
  - destruct (drive_results w cs2) as [[w2 o2]| | |]; reflexivity.
  - destruct (wstep w c) as [[w' ok]| | |]; cbn [bind]; try reflexivity. rewrite IH.
    destruct (drive_results w' cs1) as [[w1 o1]| | |]; cbn [bind]; try reflexivity.
    destruct (drive_results w1 cs2) as [[w2 o2]| | |]; reflexivity.
Qed.
Lemma drive_one w c w' ok : wstep w c = Ok (w', ok) -> drive_results w [c] = Ok (w', [ok]).
Proof. intros H. cbn [drive_results]. rewrite H. reflexivity. Qed.
Lemma drive_cons w c cs w1 ok w2 oks : wstep w c = Ok (w1, ok) -> drive_results w1 cs = Ok (w2, oks) ->
  drive_results w (c :: cs) = Ok (w2, ok :: oks).
Proof. intros H1 H2. cbn [drive_results]. rewrite H1. cbn [bind]. rewrite H2. reflexivity. Qed.

(* ---- one value --------------------------------------------------------------------------------------------------------- *)
Definition run_spec (v : value) : Prop := forall out ctx fld a q r L wl,
  Forall wf_sym a -> (a <> [] -> not_ann v) -> (ctx_top ctx =? ctxStruct) = is_some fld -> bs_code q <> Some 224 ->
  let L' := fold_left intern (texts (fld_texts fld ++ map symtext a) v) L in
  exists q' oks,
    drive_results (mkw out ctx (option_map tok_text fld) (map tok_of a) (q :: r) L wl) (calls_body v)
      = Ok (mkw out ctx None [] (q' :: r) L' wl, oks) /\
    Forall (eq true) oks /\ bs_code q' = bs_code q /\
    forall F c b, extends L' F -> absq q c b -> absq q' c (b ++ fld_bytes F fld ++ wrap F a (enc F v)).

Lemma children_run l : Forall (fun x => wf_value x -> run_spec x) l -> Forall wf_value l ->
  forall out ctx q r L wl, (ctx_top ctx =? ctxStruct) = false -> bs_code q <> Some 224 ->
  let L' := fold_left intern (flat_map (texts []) l) L in
  exists q' oks,
    drive_results (mkw out ctx None [] (q :: r) L wl) (flat_map calls_body l)
      = Ok (mkw out ctx None [] (q' :: r) L' wl, oks) /\
    Forall (eq true) oks /\ bs_code q' = bs_code q /\
    forall F c b, extends L' F -> absq q c b -> absq q' c (b ++ flat_map (enc F) l).
Proof.
  induction l as [|x l IH]; intros HI Hw out ctx q r L wl Hs Hq; cbn [flat_map fold_left].
  - exists q, []. split; [reflexivity|]. split; [constructor|]. split; [reflexivity|].
    intros F c b _ H. rewrite app_nil_r. exact H.
  - inversion HI as [|? ? Hx HI']; subst. inversion Hw as [|? ? Hwx Hw']; subst.
    destruct (Hx Hwx out ctx None [] q r L wl ltac:(constructor) ltac:(congruence) Hs Hq) as (q1 & o1 & E1 & A1 & C1 & D1).
    cbn [fld_texts map app option_map] in E1, D1.
    destruct (IH HI' Hw' out ctx q1 r (fold_left intern (texts [] x) L) wl Hs ltac:(congruence)) as (q2 & o2 & E2 & A2 & C2 & D2).
    exists q2, (o1 ++ o2). rewrite fold_left_app. split; [|split; [|split]].
    + rewrite drive_app, E1. cbn [bind]. rewrite E2. reflexivity.
    + apply Forall_app. split; assumption.
    + congruence.
    + intros F c b HE Hb. rewrite app_assoc. apply D2; [exact HE|].
      specialize (D1 F c b). cbn [fld_bytes wrap app] in D1. apply D1; [|exact Hb].
      eapply extends_trans; [apply fold_intern_extends|exact HE].
Qed.

Lemma fields_run fs : Forall (fun p => wf_value (snd p) -> run_spec (snd p)) fs ->
  Forall (fun p => wf_sym (fst p) /\ wf_value (snd p)) fs ->
  forall out ctx q r L wl, (ctx_top ctx =? ctxStruct) = true -> bs_code q <> Some 224 ->
  let L' := fold_left intern (flat_map (fun '(n, x) => texts [symtext n] x) fs) L in
  exists q' oks,
    drive_results (mkw out ctx None [] (q :: r) L wl) (flat_map (fun '(n, x) => CFieldName (tok_of n) :: calls_body x) fs)
      = Ok (mkw out ctx None [] (q' :: r) L' wl, oks) /\
    Forall (eq true) oks /\ bs_code q' = bs_code q /\
    forall F c b, extends L' F -> absq q c b ->
      absq q' c (b ++ flat_map (fun '(n, x) => append_varuint [] (sid F (symtext n)) ++ enc F x) fs).
Proof.
  induction fs as [|[n x] fs IH]; intros HI Hw out ctx q r L wl Hs Hq; cbn [flat_map fold_left].
  - exists q, []. split; [reflexivity|]. split; [constructor|]. split; [reflexivity|].
    intros F c b _ H. rewrite app_nil_r. exact H.
  - inversion HI as [|? ? Hx HI']; subst. inversion Hw as [|? ? [(t & Hn & _) Hwx] Hw']; subst. cbn [fst snd] in *. subst n.
    destruct (Hx Hwx out ctx (Some t) [] q r L wl ltac:(constructor) ltac:(congruence) Hs Hq) as (q1 & o1 & E1 & A1 & C1 & D1).
    cbn [fld_texts map app option_map] in E1, D1.
    destruct (IH HI' Hw' out ctx q1 r (fold_left intern (texts [t] x) L) wl Hs ltac:(congruence)) as (q2 & o2 & E2 & A2 & C2 & D2).
    exists q2, (true :: o1 ++ o2). cbn [symtext]. rewrite fold_left_app. split; [|split; [|split]].
    + cbn [app tok_of]. apply (drive_cons _ _ _ (mkw out ctx (Some (tok_text t)) [] (q :: r) L wl) true).
      * unfold wstep. cbn [step w_err mkw]. rewrite in_struct_mkw, Hs. reflexivity.
      * rewrite drive_app, E1. cbn [bind]. rewrite E2. reflexivity.
    + constructor; [reflexivity|]. apply Forall_app. split; assumption.
    + congruence.
    + intros F c b HE Hb. rewrite app_assoc. apply D2; [exact HE|].
      specialize (D1 F c b). cbn [fld_bytes wrap app] in D1. apply D1; [|exact Hb].
      eapply extends_trans; [apply fold_intern_extends|exact HE].
Qed.
Lemma null_byte_ok t : 1 <= t <= 13 -> binary_null t = Ok (null_byte t).
Proof.
  intros H. destruct (binary_null_ok t ltac:(lia)) as (b & E). unfold null_byte. rewrite E. reflexivity.
Qed.

(* a scalar written by one writeValue / writeValueChunks call *)
Ltac scalar_wv q' Hwv Hc Hd :=
  exists q', [true]; split; [apply drive_one; unfold wstep; cbn [step w_err mkw]; try exact Hwv
                            |split; [repeat constructor|split; [exact Hc|]]].

Lemma container_run (run := run_calls 2) out ctx fld a q r L wl t code cbeg cend
  (kids : list wcall) (ktexts : list text) (kenc : list text -> list N) :
  Forall wf_sym a -> (ctx_top ctx =? ctxStruct) = is_some fld -> bs_code q <> Some 224 ->
  t <> 0 -> code <> 224 ->
  (forall w, step run w cbeg = begin_container run w t code) ->
  (forall w, step run w cend = end_container w t) ->
  (forall out ctx qc R L wl, bs_code qc = Some code ->
     exists q' oks, drive_results (mkw out (t :: ctx) None [] (qc :: R) L wl) kids
                    = Ok (mkw out (t :: ctx) None [] (q' :: R) (fold_left intern ktexts L) wl, oks) /\
       Forall (eq true) oks /\ bs_code q' = bs_code qc /\
       forall F c b, extends (fold_left intern ktexts L) F -> absq qc c b -> absq q' c (b ++ kenc F)) ->
  let L' := fold_left intern ((fld_texts fld ++ map symtext a) ++ ktexts) L in
  exists q' oks,
    drive_results (mkw out ctx (option_map tok_text fld) (map tok_of a) (q :: r) L wl) (cbeg :: kids ++ [cend])
      = Ok (mkw out ctx None [] (q' :: r) L' wl, oks) /\
    Forall (eq true) oks /\ bs_code q' = bs_code q /\
    forall F c b, extends L' F -> absq q c b ->
      absq q' c (b ++ fld_bytes F fld ++ wrap F a (enc_tagged code (kenc F))).
Proof.
  intros Ha Hs Hq Ht Hcode Hbeg Hend Hkids L'.
  destruct (begin_container_mkw run out ctx fld a q r L wl t code Ha Hs) as (q1 & e & Hbc & Hc1 & Hce & Hd).
  set (L2 := fold_left intern (fld_texts fld ++ map symtext a) L) in *.
  destruct (Hkids out ctx (new_seq (Some code)) (sbufs a e q1 r) L2 wl eq_refl) as (qc & ok & Hk & Hok & Hcc & Hdk).
  assert (EL : L' = fold_left intern ktexts L2) by (unfold L', L2; apply fold_left_app).
  exists (fin a e q1 [node_of_seq qc]), (true :: ok ++ [true]). split; [|split; [|split]].
  - eapply drive_cons; [unfold wstep; rewrite Hbeg; exact Hbc|].
    rewrite drive_app, Hk. cbn [bind]. erewrite drive_one.
    + rewrite EL. reflexivity.
    + unfold wstep. rewrite Hend. apply end_container_mkw; [exact Ht|congruence|exact Hce].
  - constructor; [reflexivity|]. apply Forall_app. split; [exact Hok|repeat constructor].
  - rewrite fin_code. exact Hc1.
  - intros F c b HE Hb.
    assert (HE2 : extends L2 F).
    { eapply extends_trans; [|exact HE]. rewrite EL. apply fold_intern_extends. }
    destruct (Hd F c b HE2 Hb) as [H1 H2]. rewrite app_assoc.
    replace (enc_tagged code (kenc F)) with (concat [enc_tagged code (kenc F)]) by (cbn [concat]; apply app_nil_r).
    apply fin_absq; [exact H1|exact H2|]. constructor; [|constructor].
    apply ndesc_node_of_seq. rewrite EL in HE. specialize (Hdk F (Some code) [] HE (absq_new _)).
    cbn [app] in Hdk. destruct Hdk as (A & B & C). split; [congruence|auto].
Qed.

Lemma value_run : forall v, wf_value v -> run_spec v.
Proof.
  induction v as [v Hsc|l IH|l IH|fs IH|a' x IH] using value_ind'; intros Hw;
    intros out ctx fld a q r L wl Ha Hna Hs Hq L'.
  - (* scalars *)
    destruct v; try destruct Hsc; inversion Hw as [? Ht| | |? Hfl|? Hd| |? Hy|? Hu| | | | | | ]; subst;
      unfold L'; cbn [texts calls_body].
    + (* null *)
      destruct (write_value_mkw (run_calls 2) out ctx fld a q r L wl [null_byte t] Ha Hs Hq) as (q' & Hwv & Hc & Hd).
      scalar_wv q' Hwv Hc Hd; [|exact Hd].
      replace (14 <=? t) with false by lia. rewrite null_byte_ok by exact Ht. exact Hwv.
    + destruct (write_value_mkw (run_calls 2) out ctx fld a q r L wl [if b then 17 else 16] Ha Hs Hq) as (q' & Hwv & Hc & Hd).
      scalar_wv q' Hwv Hc Hd. exact Hd.
    + (* int *)
      destruct (z =? 0)%Z eqn:Ez.
      * destruct (write_value_chunks_mkw (run_calls 2) out ctx fld a q r L wl [[32]] Ha Hs Hq) as (q' & Hwv & Hc & Hd).
        scalar_wv q' Hwv Hc Hd; [rewrite Ez; exact Hwv|]. cbn [enc]. rewrite Ez. exact Hd.
      * match goal with |- context [CBigInt (Some z)] =>
          set (code := if (z <? 0)%Z then 48 else 32); set (bs := big_bytes (Z.to_N (Z.abs z)));
          set (bl := N.of_nat (length bs));
          set (chunks := if bl <? 64 then [append_tag [] code bl ++ bs] else [append_tag [] code bl; bs]) end.
        destruct (write_value_chunks_mkw (run_calls 2) out ctx fld a q r L wl chunks Ha Hs Hq) as (q' & Hwv & Hc & Hd).
        scalar_wv q' Hwv Hc Hd; [rewrite Ez; exact Hwv|]. cbn [enc]. rewrite Ez.
        replace (concat chunks) with (enc_tagged code bs) in Hd; [exact Hd|].
        unfold chunks, enc_tagged. fold bl. destruct (bl <? 64); cbn [concat]; rewrite ?app_nil_r, <- ?app_assoc; reflexivity.
    + (* float *)
      cbn [enc]. unfold enc_float.
      destruct (f64_pos_zero bits) eqn:E0; [|destruct (f64_is_nan bits) eqn:E1; [|destruct (uses_f32 bits) eqn:E2]];
        match goal with |- context [wrap _ a ?val] =>
          destruct (write_value_mkw (run_calls 2) out ctx fld a q r L wl val Ha Hs Hq) as (q' & Hwv & Hc & Hd) end;
        (scalar_wv q' Hwv Hc Hd; [rewrite ?E0, ?E1, ?E2; exact Hwv|exact Hd]).
    + (* decimal *)
      destruct (write_value_mkw (run_calls 2) out ctx fld a q r L wl (enc_dec d) Ha Hs Hq) as (q' & Hwv & Hc & Hd0).
      scalar_wv q' Hwv Hc Hd0; [|exact Hd0].
      unfold enc_dec in Hwv. destruct (_ && _); exact Hwv.
    + (* timestamp *)
      destruct (write_value_mkw (run_calls 2) out ctx fld a q r L wl (enc_tagged 96 body) Ha Hs Hq) as (q' & Hwv & Hc & Hd).
      scalar_wv q' Hwv Hc Hd. exact Hd.
    + (* symbol *)
      destruct Hy as (t & -> & _). cbn [symtext tok_of fold_left].
      set (id := sid (intern L t) t).
      destruct (write_value_mkw (run_calls 2) out ctx fld a q r (intern L t) wl
                  (append_uint (append_tag [] 112 (uint_len id)) id) Ha Hs Hq) as (q' & Hwv & Hc & Hd).
      scalar_wv q' Hwv Hc Hd.
      * cbn [tk_text tok_text]. rewrite resolve_mkw. cbn [negb]. exact Hwv.
      * intros F c b HE Hb. cbn [enc symtext]. replace (sid F t) with id; [apply Hd; assumption|].
        symmetry. apply sid_mono; [|apply intern_known].
        eapply extends_trans; [apply fold_intern_extends|exact HE].
    + (* string *)
      destruct (write_value_mkw (run_calls 2) out ctx fld a q r L wl (enc_tagged 128 t) Ha Hs Hq) as (q' & Hwv & Hc & Hd).
      scalar_wv q' Hwv Hc Hd; [|exact Hd]. destruct t; exact Hwv.
    + (* clob *)
      destruct (write_value_chunks_mkw (run_calls 2) out ctx fld a q r L wl (lob_chunks 144 b) Ha Hs Hq) as (q' & Hwv & Hc & Hd).
      scalar_wv q' Hwv Hc Hd. cbn [enc].
      replace (concat (lob_chunks 144 b)) with (enc_tagged 144 b) in Hd; [exact Hd|].
      unfold lob_chunks, enc_tagged. destruct (_ <? 64); cbn [concat]; rewrite ?app_nil_r; reflexivity.
    + (* blob *)
      destruct (write_value_chunks_mkw (run_calls 2) out ctx fld a q r L wl (lob_chunks 160 b) Ha Hs Hq) as (q' & Hwv & Hc & Hd).
      scalar_wv q' Hwv Hc Hd. cbn [enc].
      replace (concat (lob_chunks 160 b)) with (enc_tagged 160 b) in Hd; [exact Hd|].
      unfold lob_chunks, enc_tagged. destruct (_ <? 64); cbn [concat]; rewrite ?app_nil_r; reflexivity.
  - (* list *)
    inversion Hw as [| | | | | | | | | |? Hwl| | | ]; subst. unfold L'. cbn [texts calls_body enc].
    apply (container_run out ctx fld a q r L wl ctxList 176 CBeginList CEndList
             (flat_map calls_body l) (flat_map (texts []) l) (fun F => flat_map (enc F) l));
      try assumption; try discriminate; try reflexivity.
    intros out0 ctx0 qc R L0 wl0 Hqc.
    apply (children_run l IH Hwl out0 (ctxList :: ctx0) qc R L0 wl0 eq_refl). congruence.
  - (* sexp *)
    inversion Hw as [| | | | | | | | | | |? Hwl| | ]; subst. unfold L'. cbn [texts calls_body enc].
    apply (container_run out ctx fld a q r L wl ctxSexp 192 CBeginSexp CEndSexp
             (flat_map calls_body l) (flat_map (texts []) l) (fun F => flat_map (enc F) l));
      try assumption; try discriminate; try reflexivity.
    intros out0 ctx0 qc R L0 wl0 Hqc.
    apply (children_run l IH Hwl out0 (ctxSexp :: ctx0) qc R L0 wl0 eq_refl). congruence.
  - (* struct *)
    inversion Hw as [| | | | | | | | | | | |? Hwf| ]; subst. unfold L'. cbn [texts calls_body enc].
    apply (container_run out ctx fld a q r L wl ctxStruct 208 CBeginStruct CEndStruct
             (flat_map (fun '(n, x) => CFieldName (tok_of n) :: calls_body x) fs)
             (flat_map (fun '(n, x) => texts [symtext n] x) fs)
             (fun F => flat_map (fun '(n, x) => append_varuint [] (sid F (symtext n)) ++ enc F x) fs));
      try assumption; try discriminate; try reflexivity.
    intros out0 ctx0 qc R L0 wl0 Hqc.
    apply (fields_run fs IH Hwf out0 (ctxStruct :: ctx0) qc R L0 wl0 eq_refl). congruence.
  - (* annotations *)
    inversion Hw as [| | | | | | | | | | | | |? ? Ha' Hwa Hnx Hx]; subst.
    destruct a as [|y0 a0]; [|exfalso; apply (Hna ltac:(discriminate))].
    destruct (IH Hx out ctx fld a' q r L wl Hwa (fun _ => Hnx) Hs Hq) as (q' & oks & E & Hok & Hc & Hd).
    exists q', (true :: oks). unfold L'. cbn [texts map calls_body]. rewrite app_nil_r. split; [|split; [|split]].
    + eapply drive_cons; [|exact E]. reflexivity.
    + constructor; [reflexivity|exact Hok].
    + exact Hc.
    + intros F c b HE Hb. specialize (Hd F c b HE Hb). cbn [wrap enc]. unfold wrap in Hd.
      destruct a'; [congruence|exact Hd].
Qed.
