(* BitEvalAnnP.v — ReadAnnotations on the writer's annotation wrappers. *)
From Coq Require Import String List NArith ZArith Bool Lia ZifyBool ZifyN ZifyNat.
From IonV Require Import Base.Wire Base.Utf8 Bin.Bits Bin.BitsP Data.Ion Num.Float Bin.BitStream
  Bin.BitStreamP Bin.BitStreamNextP Bin.BinWriter Bin.RoundTripBin Bin.RoundTripBinS Bin.BitEvalP.
Import ListNotations.
Open Scope N_scope.
Ltac Zify.zify_post_hook ::= Z.div_mod_to_equations.

Ltac bsimpl :=
  cbn [b_in b_ioerr b_pos b_state b_stack b_code b_null b_len b_alloc b_avail b_fuel
       upd_in upd_state upd_stack upd_cur upd_alloc b_clear done_value fst snd] in *.

(* ---- annotation wrappers ----------------------------------------------------------------------------------------- *)
Lemma skipn_hd {A} (l : list A) n c r : skipn n l = c :: r -> nth_error l n = Some c /\ skipn (S n) l = r.
Proof.
  revert l. induction n as [|n IH]; intros l H.
  - cbn in H. subst. split; reflexivity.
  - destruct l as [|x l]; [discriminate|]. cbn [skipn] in H. destruct (IH l H) as [H1 H2]. split; assumption.
Qed.

Lemma validate_len_loop_list f : forall max val len inp v l rest,
  read_varuint_loop f max val len inp = Ok (v, l, rest) ->
  len < l /\
  forall F b counter rem, skipn (N.to_nat counter) (b_in b) = inp -> (f <= F)%nat ->
    counter + (l - len) <= 4096 -> l - len <= rem -> rem < two64 ->
    validate_len_loop F b counter val rem = Ok (v, rem - (l - len)).
Proof.
  induction f as [|f IH]; intros max val len inp v l rest; cbn [read_varuint_loop]; [discriminate|].
  destruct (max <=? len); [discriminate|]. destruct inp as [|c r]; [discriminate|].
  destruct (max_u64_shr7 <? val); [discriminate|].
  destruct (128 <=? c) eqn:Ec.
  - intros H. inversion H; subst. split; [lia|]. intros F b counter rem Hs HF Hc Hr Hr2.
    destruct F as [|F]; [lia|]. cbn [validate_len_loop]. replace (4096 <=? counter) with false by lia.
    destruct (skipn_hd _ _ _ _ Hs) as [Hn _]. unfold b_peek. rewrite Hn, Ec.
    rewrite wrap_sub by lia. repeat f_equal. lia.
  - intros H. destruct (IH _ _ _ _ _ _ _ H) as [Hlt K]. split; [lia|].
    intros F b counter rem Hs HF Hc Hr Hr2.
    destruct F as [|F]; [lia|]. cbn [validate_len_loop]. replace (4096 <=? counter) with false by lia.
    destruct (skipn_hd _ _ _ _ Hs) as [Hn Hs']. unfold b_peek. rewrite Hn, Ec.
    rewrite wrap_sub by lia. rewrite (K F b (counter + 1) (rem - 1)); [do 2 f_equal; lia| |lia|lia|lia|lia].
    replace (N.to_nat (counter + 1)) with (S (N.to_nat counter)) by lia. exact Hs'.
Qed.

(* the shapes of an encoded value that is not itself an annotation wrapper *)
Lemma enc_shape L x : wf_value x -> not_ann x ->
  (exists k, enc L x = [16 * k + 15] /\ k <= 13 /\ k <> 3) \/
  (exists l, l <= 1 /\ enc L x = [16 * 1 + l]) \/
  (exists t body, 2 <= t <= 13 /\ enc L x = enc_tagged (16 * t) body /\ (t = 13 -> length body <> 1%nat)).
Proof.
  intros Hw Hn. destruct x; try destruct Hn; inversion Hw as [? Ht| | |? Hfl|? Hd| |? Hy|? Hu| | |? Hl|? Hl|? Hfs| ]; subst;
    cbn [enc].
  - left. destruct (null_type_roundtrip t Ht) as (tag & E & A & B & C). exists (tag / 16). rewrite E.
    split; [f_equal; lia|]. split; [lia|]. intros E3. rewrite E3 in C. vm_compute in C. discriminate C.
  - right; left. exists (if b then 1 else 0). destruct b; split; try lia; reflexivity.
  - right; right. destruct (z =? 0)%Z.
    + exists 2, []. split; [lia|]. split; [reflexivity|discriminate].
    + destruct (z <? 0)%Z; [exists 3|exists 2]; eexists; (split; [lia|]); (split; [reflexivity|discriminate]).
  - right; right. exists 4, (float_body bits). split; [lia|]. split; [apply enc_float_tagged|discriminate].
  - right; right. exists 5, (dec_body d). split; [lia|]. split; [apply enc_dec_tagged; exact Hd|discriminate].
  - right; right. exists 6, body. split; [lia|]. split; [reflexivity|discriminate].
  - right; right. eexists 7, _. split; [lia|]. split; [apply enc_symbol_tagged|discriminate].
  - right; right. exists 8, t. split; [lia|]. split; [reflexivity|discriminate].
  - right; right. exists 9, b. split; [lia|]. split; [reflexivity|discriminate].
  - right; right. exists 10, b. split; [lia|]. split; [reflexivity|discriminate].
  - right; right. eexists 11, _. split; [lia|]. split; [reflexivity|discriminate].
  - right; right. eexists 12, _. split; [lia|]. split; [reflexivity|discriminate].
  - right; right. eexists 13, _. split; [lia|]. split; [reflexivity|]. intros _.
    destruct l as [|[n v] fs]; [discriminate|]. cbn [flat_map]. inversion Hfs as [|? ? [_ Hv] _]; subst. cbn [snd] in Hv.
    rewrite !app_length. pose proof (length_pos_nonempty _ (append_varuint_nonempty (sid L (symtext n)))).
    pose proof (length_pos_nonempty _ (enc_nonempty L v Hv)). lia.
Qed.

Lemma validate_enc b L x rest : wf_value x -> not_ann x -> b_in b = enc L x ++ rest ->
  (length (b_in b) + 2 <= b_fuel b)%nat -> N.of_nat (length (enc L x)) < two63 ->
  b_validate_annotated b (N.of_nat (length (enc L x))) = Ok tt.
Proof.
  intros Hw Hn Ein Hf Hlen. unfold b_validate_annotated, b_peek.
  destruct (enc_shape L x Hw Hn) as [(k & E & Hk & Hk3)|[(l & Hl & E)|(t & body & Ht & E & H13)]]; rewrite E in *.
  - rewrite Ein. cbn [app nth_error N.to_nat]. rewrite parse_tag_eq by lia. reflexivity.
  - rewrite Ein. cbn [app nth_error N.to_nat length]. rewrite parse_tag_eq by lia.
    replace (l =? 15) with false by lia. change (bitcode_of_high 1 =? bcNull) with false.
    change (bitcode_of_high 1 =? bcAnnotation) with false. change (bitcode_of_high 1 =? bcFalse) with true. cbv iota.
    assert (C : l = 0 \/ l = 1) by lia. destruct C; subst l; reflexivity.
  - destruct (boh_facts t) as (F1 & F2 & F3 & F4 & F5); [lia|].
    assert (Hnull : (bitcode_of_high t =? bcNull) = false).
    { assert (C : t = 2 \/ t = 3 \/ t = 4 \/ t = 5 \/ t = 6 \/ t = 7 \/ t = 8 \/ t = 9 \/ t = 10 \/ t = 11 \/
                  t = 12 \/ t = 13) by lia.
      repeat (destruct C as [C|C]; [subst; reflexivity|]). subst; reflexivity. }
    assert (Hann : (bitcode_of_high t =? bcAnnotation) = false).
    { destruct (bitcode_of_high t =? bcAnnotation) eqn:Ea; [|reflexivity]. specialize (F4 eq_refl). lia. }
    unfold enc_tagged in *. set (n := N.of_nat (length body)) in *.
    destruct (n <? 14) eqn:En.
    + rewrite tag_small in * by lia. rewrite Ein. cbn [app nth_error N.to_nat]. rewrite parse_tag_eq by lia.
      replace (n =? 15) with false by lia. rewrite Hnull, Hann, F2. cbn [andb].
      cbn [length] in *.
      rewrite wrap_sub by (unfold two63, two64 in *; lia).
      replace ((n =? 14) || (bitcode_of_high t =? bcStruct) && (n =? 1)) with false.
      2:{ destruct (bitcode_of_high t =? bcStruct) eqn:Es; [|lia]. specialize (H13 (F3 eq_refl)). lia. }
      match goal with |- context [n =? ?X] => replace (n =? X) with true by lia end. reflexivity.
    + rewrite tag_big in * by lia. rewrite Ein. cbn [app nth_error N.to_nat]. rewrite parse_tag_eq by lia.
      change (14 =? 15) with false. rewrite Hnull, Hann, F2. cbn [andb]. change (14 =? 14) with true. cbn [orb].
      rewrite ?app_length in Hlen. cbn [length] in *. rewrite ?app_length.
      rewrite wrap_sub by (unfold two63, two64 in *; lia).
      assert (Hn64 : n < two64) by (unfold two63, two64 in *; lia).
      pose proof (varuint_roundtrip n 10 (body ++ rest) Hn64 (varuint_len_le10 n Hn64)) as Rt. unfold read_varuint in Rt.
      destruct (validate_len_loop_list _ _ _ _ _ _ _ _ Rt) as [_ K].
      pose proof (varuint_len_ok [] n) as VL. cbn [length] in VL.
      rewrite (K (b_fuel b) b 1 (N.of_nat (S (length (append_varuint [] n) + length body)) - 1)).
      * replace (n =? N.of_nat (S (length (append_varuint [] n) + length body)) - 1 - (varuint_len n - 0)) with true by lia.
        reflexivity.
      * rewrite Ein. cbn [app N.to_nat Pos.to_nat Pos.iter_op Nat.add skipn]. rewrite <- app_assoc. reflexivity.
      * rewrite Ein in Hf. cbn [app length] in Hf. rewrite !app_length in Hf. lia.
      * pose proof (varuint_len_le10 n Hn64). lia.
      * lia.
      * unfold two63, two64 in *. lia.
Qed.

Section Annot.
Variable tot : N.
Hypothesis Htot : tot < two63.

Lemma annot_loop_enc ok ids : Forall (fun id => id < two64 /\ ok id = true) ids ->
  forall fuel b rest acc, avail_ok b -> b_pos b < two64 ->
  b_in b = flat_map (append_varuint []) ids ++ rest -> (length ids < fuel)%nat ->
  N.of_nat (length (flat_map (append_varuint []) ids)) < two64 ->
  exists b', annot_loop fuel b ok (N.of_nat (length (flat_map (append_varuint []) ids))) acc
               = (b', Ok (rev_append acc [] ++ ids)) /\
             adv (N.of_nat (length (flat_map (append_varuint []) ids))) b b'.
Proof.
  intros Hids. induction Hids as [|id ids [Hid Hok] _ IH]; intros fuel b rest acc A P Ein Hf Hl;
    (destruct fuel as [|f]; [cbn [length] in Hf; lia|]); cbn [annot_loop flat_map length N.of_nat].
  - cbn [N.eqb app]. rewrite app_nil_r. eexists. split; [reflexivity|apply adv_refl; exact P].
  - cbn [flat_map] in *. rewrite app_length in *. pose proof (varuint_len_ok [] id) as VL. cbn [length] in VL.
    pose proof (length_pos_nonempty _ (append_varuint_nonempty id)) as Hp.
    replace (N.of_nat (length (append_varuint [] id) + length (flat_map (append_varuint []) ids)) =? 0) with false by lia.
    rewrite <- app_assoc in Ein.
    destruct (b_read_varuint_enc b (N.of_nat (length (append_varuint [] id) + length (flat_map (append_varuint []) ids)))
                id _ A Ein Hid) as (b1 & E1 & Ad & I1); [lia|].
    rewrite E1, Hok. rewrite wrap_sub by lia.
    replace (N.of_nat (length (append_varuint [] id) + length (flat_map (append_varuint []) ids)) - varuint_len id)
      with (N.of_nat (length (flat_map (append_varuint []) ids))) by lia.
    assert (A1 : avail_ok b1) by (eapply wle_avail; eapply adv_wle; eauto).
    destruct (IH f b1 rest (id :: acc) A1 (adv_pos_lt _ _ _ Ad) I1) as (b2 & E2 & Ad2); [cbn [length] in Hf; lia|lia|].
    exists b2. split.
    + rewrite E2. f_equal. f_equal. cbn [rev_append]. rewrite !rev_append_rev, !app_nil_r. cbn [rev].
      rewrite <- app_assoc. reflexivity.
    + eapply adv_eq; [eapply adv_trans; eauto|lia].
Qed.

Lemma read_annotations_enc b L a x rest stk ok : wf_value x -> not_ann x -> a <> [] ->
  Forall (fun id => id < two64 /\ ok id = true) (annot_ids_of L a) ->
  BS b (enc_annots L a ++ enc L x ++ rest) bssOnValue stk tot ->
  b_len b = N.of_nat (length (enc_annots L a ++ enc L x)) -> b_code b = bcAnnotation ->
  exists b', b_read_annotations b ok = (b', Ok (annot_ids_of L a)) /\ BS b' (enc L x ++ rest) bssBeforeValue stk tot.
Proof.
  intros Hw Hn Ha Hids Hb El Ec. pose proof Hb as [I Ein St Es Nl Nw]. pose proof (bcore_avail _ (proj1 I)) as A.
  destruct (b_read_annotations_spec b ok I St Ec) as [(_ & _ & Post) _].
  rewrite enc_annots_eq in *. set (ab := annot_bytes L a) in *. set (al := N.of_nat (length ab)) in *.
  rewrite <- !app_assoc in Ein. rewrite !app_length in El.
  assert (Hav : b_avail b = N.of_nat (length (append_varuint [] al)) + al + N.of_nat (length (enc L x)) + N.of_nat (length rest)).
  { unfold avail_ok in A. rewrite A, Ein, !app_length. subst al. lia. }
  assert (Hal : al < two64) by (unfold two63, two64 in *; lia).
  pose proof (varuint_len_ok [] al) as VL. cbn [length] in VL.
  pose proof (length_pos_nonempty _ (annot_bytes_nonempty L a Ha)) as Hp. fold ab in Hp.
  pose proof (length_pos_nonempty _ (enc_nonempty L x Hw)) as Hx.
  unfold b_read_annotations in *. rewrite Ec in *. change (negb (bcAnnotation =? bcAnnotation)) with false in *. cbv iota in *.
  destruct (b_read_varuint_enc b (b_len b) al _ A Ein Hal) as (b1 & E1 & Ad1 & I1); [lia|].
  rewrite E1 in *. replace (al =? 0) with false in * by (subst al; lia).
  assert (Hl64 : b_len b < two64) by (unfold two63, two64 in *; lia).
  rewrite wrap_sub in * by lia.
  replace (b_len b - varuint_len al <? al) with false in * by lia.
  rewrite wrap_sub in * by lia.
  replace (b_len b - varuint_len al - al) with (N.of_nat (length (enc L x))) in * by lia.
  replace (N.of_nat (length (enc L x)) =? 0) with false in * by lia.
  assert (A1 : avail_ok b1) by (eapply wle_avail; eapply adv_wle; eauto).
  assert (Fu : (length (b_in b1) + 2 <= b_fuel b1)%nat).
  { pose proof (wk_wle _ _ (proj1 (proj1 I)) (adv_wle _ _ _ A Ad1)) as (_ & Fu & _). exact Fu. }
  assert (Hlen : (length (annot_ids_of L a) < b_fuel b1)%nat).
  { rewrite I1, !app_length in Fu. subst ab. unfold annot_bytes in *.
    assert (length (annot_ids_of L a) <= length (flat_map (append_varuint []) (annot_ids_of L a)))%nat; [|lia].
    clear. induction (annot_ids_of L a) as [|i l IH]; cbn [flat_map length]; [lia|]. rewrite app_length.
    pose proof (length_pos_nonempty _ (append_varuint_nonempty i)). lia. }
  destruct (annot_loop_enc ok _ Hids (b_fuel b1) b1 (enc L x ++ rest) [] A1 (adv_pos_lt _ _ _ Ad1) I1 Hlen)
    as (b2 & E2 & Ad2); [exact Hal|].
  change (flat_map (append_varuint []) (annot_ids_of L a)) with ab in E2, Ad2. fold al in E2, Ad2. rewrite E2 in *. cbn [rev_append app] in *.
  assert (I2 : b_in b2 = enc L x ++ rest).
  { rewrite (adv_in _ _ _ Ad2), I1. subst al. rewrite Nat2N.id. apply skipn_app_exact. }
  assert (Fu2 : (length (b_in b2) + 2 <= b_fuel b2)%nat).
  { pose proof (wk_wle _ _ (proj1 (proj1 I)) (wle_trans _ _ _ A (adv_wle _ _ _ A Ad1) (adv_wle _ _ _ A1 Ad2))) as (_ & Fu2 & _).
    exact Fu2. }
  rewrite (validate_enc b2 L x rest Hw Hn I2 Fu2) in * by (unfold two63 in *; lia).
  cbn [fst snd] in Post. destruct (Post _ eq_refl) as (((Ib & _) & _) & _).
  eexists. split; [reflexivity|].
  assert (Ad : adv (varuint_len al + al) b b2) by (eapply adv_trans; eauto).
  pose proof (adv_pos _ _ _ Ad) as Q2. pose proof (adv_avail _ _ _ Ad) as Q3.
  pose proof (adv_stack _ _ _ Ad) as Q4.
  constructor; bsimpl; auto; try congruence.
  rewrite Q2, Q3, wrap_small by (unfold two63, two64 in *; lia). lia.
Qed.
End Annot.
