(* BitStreamP.v — lemmas about the bitstream model (Bin/BitStream.v): the cursor
   invariant (position below the enclosing end offsets, current value inside its
   container), its preservation by every operation, absence of Panic/OutOfFuel,
   and the "advance by k bytes" relation used by the skipping theorems. *)
From Coq Require Import String List NArith ZArith Bool Lia ZifyBool ZifyN ZifyNat.
From IonV Require Import Base.Wire Base.Utf8 Bin.Bits Data.Ion Num.Float Bin.BitStream.
Import ListNotations.
Open Scope N_scope.
Ltac Zify.zify_post_hook ::= Z.div_mod_to_equations.

Ltac bsimpl :=
  cbn [b_in b_ioerr b_pos b_state b_stack b_code b_null b_len b_alloc b_avail b_fuel
       upd_in upd_state upd_stack upd_cur upd_alloc b_clear done_value fst snd] in *.

(* ---- the weak invariant: holds in every reachable state, whatever happened ------------------- *)
Definition avail_ok (b : bstate) : Prop := b_avail b = N.of_nat (length (b_in b)).
Definition wk (b : bstate) : Prop :=
  avail_ok b /\ (length (b_in b) + 2 <= b_fuel b)%nat /\
  b_alloc b + 2 <= N.of_nat (b_fuel b) + read_chunk_size.
(* b' is b after some reads: less input, allocation bounded by what was available *)
Definition wle (b b' : bstate) : Prop :=
  b_fuel b' = b_fuel b /\ avail_ok b' /\ (length (b_in b') <= length (b_in b))%nat /\
  b_alloc b' <= N.max (b_alloc b) (b_avail b + read_chunk_size) /\ b_ioerr b' = b_ioerr b.

Lemma wle_refl b : avail_ok b -> wle b b.
Proof. unfold wle. intros H. repeat split; auto; lia. Qed.
Lemma wle_trans b b1 b2 : avail_ok b -> wle b b1 -> wle b1 b2 -> wle b b2.
Proof.
  unfold wle, avail_ok. intros A (F1 & A1 & L1 & M1 & I1) (F2 & A2 & L2 & M2 & I2).
  split; [congruence|]. split; [exact A2|]. split; [lia|]. split; [lia|congruence].
Qed.
Lemma wle_ioerr b b' : wle b b' -> b_ioerr b' = b_ioerr b.
Proof. intros (_ & _ & _ & _ & H). exact H. Qed.
Lemma wk_wle b b' : wk b -> wle b b' -> wk b'.
Proof.
  unfold wk, wle, avail_ok. intros (A & F & M) (F1 & A1 & L1 & M1 & _).
  split; [exact A1|]. rewrite F1. split; [lia|]. lia.
Qed.

Lemma skipn_add {A} n : forall m (l : list A), skipn m (skipn n l) = skipn (n + m) l.
Proof.
  induction n as [|n IH]; intros m l; [reflexivity|].
  destruct l as [|x r]; [rewrite !skipn_nil; reflexivity|]. cbn [Nat.add skipn]. apply IH.
Qed.

(* ---- advancing by exactly k bytes -------------------------------------------------------------- *)
Record adv (k : N) (b b' : bstate) : Prop := {
  adv_in : b_in b' = skipn (N.to_nat k) (b_in b);
  adv_pos : b_pos b' = wrap64 (b_pos b + k);
  adv_avail : b_avail b' = b_avail b - k;
  adv_le : k <= b_avail b;
  adv_ioerr : b_ioerr b' = b_ioerr b;
  adv_state : b_state b' = b_state b;
  adv_stack : b_stack b' = b_stack b;
  adv_code : b_code b' = b_code b;
  adv_null : b_null b' = b_null b;
  adv_len : b_len b' = b_len b;
  adv_fuel : b_fuel b' = b_fuel b;
  adv_alloc : b_alloc b' <= N.max (b_alloc b) (b_avail b + read_chunk_size)
}.

Lemma adv_refl b : b_pos b < two64 -> adv 0 b b.
Proof.
  intros P. constructor; try reflexivity; try lia.
  unfold wrap64, two64 in *. lia.
Qed.
Lemma adv_trans k1 k2 b b1 b2 : adv k1 b b1 -> adv k2 b1 b2 -> adv (k1 + k2) b b2.
Proof.
  intros [] []. constructor; try congruence; try lia.
  - rewrite adv_in1, adv_in0, skipn_add. f_equal. lia.
  - rewrite adv_pos1, adv_pos0. unfold wrap64, two64. lia.
Qed.
Lemma adv_wle k b b' : avail_ok b -> adv k b b' -> wle b b'.
Proof.
  unfold wle, avail_ok. intros A []. split; [assumption|].
  rewrite adv_in0, skipn_length. split; [lia|]. split; [lia|]. split; [lia|assumption].
Qed.
(* two advances by the same amount end in the same place *)
Lemma adv_same k b b1 b2 : adv k b b1 -> adv k b b2 ->
  b_in b1 = b_in b2 /\ b_pos b1 = b_pos b2 /\ b_avail b1 = b_avail b2 /\ b_state b1 = b_state b2 /\
  b_stack b1 = b_stack b2 /\ b_code b1 = b_code b2 /\ b_null b1 = b_null b2 /\ b_len b1 = b_len b2.
Proof. intros [] []. repeat split; congruence. Qed.

(* ---- primitives -------------------------------------------------------------------------------------- *)
Lemma split_at_spec n : forall l, split_at n l = (firstn n l, skipn n l).
Proof.
  induction n as [|n IH]; intros l; cbn [split_at firstn skipn]; [reflexivity|].
  destruct l as [|x r]; [reflexivity|]. rewrite IH. reflexivity.
Qed.

Lemma b_read_wle b : avail_ok b -> wle b (fst (b_read b)).
Proof.
  unfold b_read, wle, avail_ok. intros A. destruct (b_in b) as [|c r] eqn:E.
  - destruct (b_ioerr b) eqn:Ei; bsimpl; rewrite ?E; cbn [length]; repeat split; try lia; assumption.
  - bsimpl. rewrite ?E in *. cbn [length] in *. repeat split; try lia; reflexivity.
Qed.
Lemma b_read_some b b' c : avail_ok b -> b_read b = (b', Ok (Some c)) -> adv 1 b b'.
Proof.
  unfold b_read, avail_ok. intros A. destruct (b_in b) as [|c0 r] eqn:E.
  - destruct (b_ioerr b); discriminate.
  - intros H. inversion H; subst. constructor; bsimpl; rewrite ?E in *; cbn [length] in *;
      try reflexivity; lia.
Qed.
Lemma b_read_none b b' : b_read b = (b', Ok None) ->
  b_in b = [] /\ b' = upd_in b [] (wrap64 (b_pos b + 1)) 0.
Proof.
  unfold b_read. destruct (b_in b); [|discriminate]. destruct (b_ioerr b); [discriminate|].
  intros H. inversion H. auto.
Qed.
Lemma b_read_nopanic b : snd (b_read b) <> Panic /\ snd (b_read b) <> OutOfFuel.
Proof. unfold b_read. destruct (b_in b); [destruct (b_ioerr b)|]; cbn [snd]; split; discriminate. Qed.

Lemma b_read1_wle b : avail_ok b -> wle b (fst (b_read1 b)).
Proof.
  intros A. pose proof (b_read_wle b A). unfold b_read1.
  destruct (b_read b) as [b' [[c|]| | |]]; exact H.
Qed.
Lemma b_read1_ok b b' c : avail_ok b -> b_read1 b = (b', Ok c) -> adv 1 b b'.
Proof.
  intros A. unfold b_read1. destruct (b_read b) as [b1 [[c1|]| | |]] eqn:E; try discriminate.
  intros H. inversion H; subst. eapply b_read_some; eauto.
Qed.
Lemma b_read1_nopanic b : snd (b_read1 b) <> Panic /\ snd (b_read1 b) <> OutOfFuel.
Proof.
  pose proof (b_read_nopanic b). unfold b_read1.
  destruct (b_read b) as [b1 [[c1|]| | |]]; cbn [snd] in *; split; try discriminate; tauto.
Qed.

Lemma b_readN_wle b n : avail_ok b -> wle b (fst (b_readN b n)).
Proof.
  unfold b_readN, wle, avail_ok. intros A. destruct (n =? 0) eqn:E0; [bsimpl; repeat split; try lia; reflexivity|].
  destruct (n <=? b_avail b) eqn:E1; bsimpl.
  - rewrite split_at_spec. bsimpl. rewrite skipn_length. repeat split; try lia; reflexivity.
  - cbn [length]. repeat split; try lia; reflexivity.
Qed.
Lemma b_readN_ok b n b' bs : avail_ok b -> b_pos b < two64 -> b_readN b n = (b', Ok bs) ->
  adv n b b' /\ N.of_nat (length bs) = n.
Proof.
  unfold b_readN, avail_ok. intros A P. destruct (n =? 0) eqn:E0.
  - intros H. inversion H; subst. assert (n = 0) by lia. subst. split; [apply adv_refl; exact P|reflexivity].
  - destruct (n <=? b_avail b) eqn:E1; bsimpl; [|discriminate].
    rewrite split_at_spec. intros H. inversion H; subst. split.
    + constructor; bsimpl; try reflexivity; lia.
    + rewrite firstn_length. lia.
Qed.
Lemma b_readN_nopanic b n : snd (b_readN b n) <> Panic /\ snd (b_readN b n) <> OutOfFuel.
Proof.
  unfold b_readN. destruct (n =? 0); [cbn; split; discriminate|].
  destruct (n <=? b_avail b); [rewrite split_at_spec|]; cbn [snd]; split; discriminate.
Qed.

Lemma b_skip_wle b n : avail_ok b -> wle b (fst (b_skip b n)).
Proof.
  unfold b_skip, wle, avail_ok. intros A. destruct (two63 <=? n); [bsimpl; repeat split; try lia; reflexivity|].
  destruct (n <=? b_avail b) eqn:E1; bsimpl.
  - rewrite skipn_length. repeat split; try lia; reflexivity.
  - cbn [length]. repeat split; try lia; reflexivity.
Qed.
Lemma b_skip_ok b n b' u : avail_ok b -> b_skip b n = (b', Ok u) -> adv n b b' /\ n < two63.
Proof.
  unfold b_skip, avail_ok. intros A. destruct (two63 <=? n) eqn:E0; [discriminate|].
  destruct (n <=? b_avail b) eqn:E1; [|discriminate].
  intros H. inversion H; subst. split; [|lia]. constructor; bsimpl; try reflexivity; lia.
Qed.
Lemma b_skip_nopanic b n : snd (b_skip b n) <> Panic /\ snd (b_skip b n) <> OutOfFuel.
Proof.
  unfold b_skip. destruct (two63 <=? n); [cbn; split; discriminate|].
  destruct (n <=? b_avail b); cbn [snd]; split; discriminate.
Qed.

Lemma adv_eq k k' b b' : adv k b b' -> k = k' -> adv k' b b'.
Proof. intros H E. subst. exact H. Qed.

(* ---- VarUInt / VarInt loops -------------------------------------------------------------------------- *)
Definition lspec {A} (b : bstate) (x : bres A) (post : bstate -> A -> Prop) : Prop :=
  wle b (fst x) /\ snd x <> Panic /\ (forall v, snd x = Ok v -> post (fst x) v).

Lemma varuint_loop_spec fuel : forall b max val len, avail_ok b ->
  lspec b (b_varuint_loop fuel b max val len)
        (fun b' '(v, l) => adv (l - len) b b' /\ len < l /\ l <= max) /\
  (max - len < N.of_nat fuel -> snd (b_varuint_loop fuel b max val len) <> OutOfFuel).
Proof.
  induction fuel as [|f IH]; intros b max val len A; cbn [b_varuint_loop].
  - split; [|lia]. split; [apply wle_refl; exact A|]. split; cbn [snd]; [discriminate|]. intros v H; discriminate.
  - destruct (max <=? len) eqn:E0.
    { split; [|cbn; discriminate]. split; [apply wle_refl; exact A|]. split; cbn [snd]; [discriminate|]. intros v H; discriminate. }
    pose proof (b_read1_wle b A) as W. pose proof (b_read1_nopanic b) as [NP NF].
    destruct (b_read1 b) as [b1 [c| | |]] eqn:E; cbn [fst snd] in *; try tauto.
    + pose proof (b_read1_ok _ _ _ A E) as A1.
      destruct (max_u64_shr7 <? val).
      { split; [|cbn; discriminate]. split; [exact W|]. split; cbn [snd]; [discriminate|]. intros v H; discriminate. }
      destruct (128 <=? c).
      { split; [|cbn; discriminate]. split; [exact W|]. split; cbn [snd]; [discriminate|].
        intros [v l] H. inversion H; subst. split; [|lia]. eapply adv_eq; [exact A1|lia]. }
      destruct W as (W1 & W2 & W3).
      destruct (IH b1 max (wrap64 (val * 128) + c mod 128) (len + 1) W2) as [(Wl & Np & Post) Of].
      split.
      * split; [eapply wle_trans; [exact A|split; [exact W1|split; [exact W2|exact W3]]|exact Wl]|].
        split; [exact Np|]. intros [v l] H. specialize (Post (v, l) H). cbn beta iota in Post.
        destruct Post as (P1 & P2 & P3). split; [|lia].
        eapply adv_eq; [eapply adv_trans; [exact A1|exact P1]|lia].
      * intros Hf. apply Of. lia.
    + split; [|cbn; discriminate]. split; [exact W|]. split; cbn [snd]; [discriminate|]. intros v H; discriminate.
Qed.

Lemma b_read_varuint_spec b max : avail_ok b ->
  lspec b (b_read_varuint b max) (fun b' '(v, l) => adv l b b' /\ 0 < l /\ l <= max /\ l <= 10) /\
  snd (b_read_varuint b max) <> OutOfFuel.
Proof.
  intros A. unfold b_read_varuint.
  destruct (varuint_loop_spec 11 b (N.min max 10) 0 0 A) as [(W & Np & Post) Of].
  split; [|apply Of; lia]. split; [exact W|]. split; [exact Np|].
  intros [v l] H. specialize (Post (v, l) H). cbn beta iota in Post. destruct Post as (P1 & P2 & P3).
  split; [eapply adv_eq; [exact P1|lia]|lia].
Qed.

Lemma skip_varuint_loop_spec fuel : forall b max len, avail_ok b ->
  lspec b (b_skip_varuint_loop fuel b max len)
        (fun b' l => adv (l - len) b b' /\ len < l /\ l <= max) /\
  (max - len < N.of_nat fuel -> snd (b_skip_varuint_loop fuel b max len) <> OutOfFuel).
Proof.
  induction fuel as [|f IH]; intros b max len A; cbn [b_skip_varuint_loop].
  - split; [|lia]. split; [apply wle_refl; exact A|]. split; cbn [snd]; [discriminate|]. intros v H; discriminate.
  - destruct (max <=? len) eqn:E0.
    { split; [|cbn; discriminate]. split; [apply wle_refl; exact A|]. split; cbn [snd]; [discriminate|]. intros v H; discriminate. }
    pose proof (b_read1_wle b A) as W. pose proof (b_read1_nopanic b) as [NP NF].
    destruct (b_read1 b) as [b1 [c| | |]] eqn:E; cbn [fst snd] in *; try tauto.
    + pose proof (b_read1_ok _ _ _ A E) as A1.
      destruct (128 <=? c).
      { split; [|cbn; discriminate]. split; [exact W|]. split; cbn [snd]; [discriminate|].
        intros l H. inversion H; subst. split; [|lia]. eapply adv_eq; [exact A1|lia]. }
      destruct W as (W1 & W2 & W3).
      destruct (IH b1 max (len + 1) W2) as [(Wl & Np & Post) Of].
      split.
      * split; [eapply wle_trans; [exact A|split; [exact W1|split; [exact W2|exact W3]]|exact Wl]|].
        split; [exact Np|]. intros l H. specialize (Post l H). cbn beta in Post.
        destruct Post as (P1 & P2 & P3). split; [|lia].
        eapply adv_eq; [eapply adv_trans; [exact A1|exact P1]|lia].
      * intros Hf. apply Of. lia.
    + split; [|cbn; discriminate]. split; [exact W|]. split; cbn [snd]; [discriminate|]. intros v H; discriminate.
Qed.

Lemma varint_loop_spec fuel : forall b max val len neg, avail_ok b ->
  lspec b (b_varint_loop fuel b max val len neg)
        (fun b' '(v, s, l) => adv (l - len) b b' /\ len < l /\ l <= max) /\
  (max - len < N.of_nat fuel -> snd (b_varint_loop fuel b max val len neg) <> OutOfFuel).
Proof.
  induction fuel as [|f IH]; intros b max val len neg A; cbn [b_varint_loop].
  - split; [|lia]. split; [apply wle_refl; exact A|]. split; cbn [snd]; [discriminate|]. intros v H; discriminate.
  - destruct (max <=? len) eqn:E0.
    { split; [|cbn; discriminate]. split; [apply wle_refl; exact A|]. split; cbn [snd]; [discriminate|]. intros v H; discriminate. }
    pose proof (b_read1_wle b A) as W. pose proof (b_read1_nopanic b) as [NP NF].
    destruct (b_read1 b) as [b1 [c| | |]] eqn:E; cbn [fst snd] in *; try tauto.
    + pose proof (b_read1_ok _ _ _ A E) as A1.
      destruct (max_i64_shr7 <? val).
      { split; [|cbn; discriminate]. split; [exact W|]. split; cbn [snd]; [discriminate|]. intros v H; discriminate. }
      destruct (128 <=? c).
      { split; [|cbn; discriminate]. split; [exact W|]. split; cbn [snd]; [discriminate|].
        intros [[v sg] l] H. inversion H; subst. split; [|lia]. eapply adv_eq; [exact A1|lia]. }
      destruct W as (W1 & W2 & W3).
      destruct (IH b1 max (wrap64 (val * 128) + c mod 128) (len + 1) neg W2) as [(Wl & Np & Post) Of].
      split.
      * split; [eapply wle_trans; [exact A|split; [exact W1|split; [exact W2|exact W3]]|exact Wl]|].
        split; [exact Np|]. intros [[v sg] l] H. specialize (Post (v, sg, l) H). cbn beta iota in Post.
        destruct Post as (P1 & P2 & P3). split; [|lia].
        eapply adv_eq; [eapply adv_trans; [exact A1|exact P1]|lia].
      * intros Hf. apply Of. lia.
    + split; [|cbn; discriminate]. split; [exact W|]. split; cbn [snd]; [discriminate|]. intros v H; discriminate.
Qed.

Lemma b_read_varint_spec b max : avail_ok b ->
  lspec b (b_read_varint b max) (fun b' '(v, s, l) => adv l b b' /\ 0 < l /\ l <= max) /\
  snd (b_read_varint b max) <> OutOfFuel.
Proof.
  intros A. unfold b_read_varint. destruct (max =? 0) eqn:E0.
  { split; [|cbn; discriminate]. split; [apply wle_refl; exact A|]. split; cbn [snd]; [discriminate|]. intros v H; discriminate. }
  pose proof (b_read1_wle b A) as W. pose proof (b_read1_nopanic b) as [NP NF].
  destruct (b_read1 b) as [b1 [c| | |]] eqn:E; cbn [fst snd] in *; try tauto.
  - pose proof (b_read1_ok _ _ _ A E) as A1.
    destruct (128 <=? c).
    { split; [|cbn; discriminate]. split; [exact W|]. split; cbn [snd]; [discriminate|].
      intros [[v sg] l] H. inversion H; subst. split; [exact A1|lia]. }
    destruct W as (W1 & W2 & W3).
    destruct (varint_loop_spec 11 b1 (N.min max 10) (c mod 64) 1 (64 <=? c mod 128) W2) as [(Wl & Np & Post) Of].
    split; [|apply Of; lia].
    split; [eapply wle_trans; [exact A|split; [exact W1|split; [exact W2|exact W3]]|exact Wl]|].
    split; [exact Np|]. intros [[v sg] l] H. specialize (Post (v, sg, l) H). cbn beta iota in Post.
    destruct Post as (P1 & P2 & P3). split; [|lia].
    eapply adv_eq; [eapply adv_trans; [exact A1|exact P1]|lia].
  - split; [|cbn; discriminate]. split; [exact W|]. split; cbn [snd]; [discriminate|]. intros v H; discriminate.
Qed.

(* ---- the cursor invariant ------------------------------------------------------------------------------ *)
Fixpoint stk_ok (lo : N) (st : list (N * N)) : Prop :=
  match st with
  | [] => True
  | (_, e) :: rest => lo <= e /\ e < two64 /\ stk_ok e rest
  end.
(* k more bytes stay inside the innermost container *)
Definition room (b : bstate) (k : N) : Prop :=
  match b_stack b with [] => True | (_, e) :: _ => b_pos b + k <= e end.
Definition rem_of (b : bstate) : N :=
  match b_stack b with [] => 18446744073709551615 | (_, e) :: _ => e - b_pos b end.
Definition bcore (b : bstate) : Prop :=
  wk b /\ b_state b <= 3 /\ b_pos b < two64 /\ stk_ok (b_pos b) (b_stack b).
Definition binv (b : bstate) : Prop :=
  bcore b /\
  (b_state b = bssOnValue -> room b (b_len b) /\ (b_code b <> bcBVM -> b_pos b + b_len b < two64)) /\
  (b_state b <> bssOnValue -> b_len b = 0).
Record moved (k : N) (b b' : bstate) : Prop := {
  mv_in : b_in b' = skipn (N.to_nat k) (b_in b);
  mv_pos : b_pos b' = wrap64 (b_pos b + k);
  mv_avail : b_avail b' = b_avail b - k;
  mv_fuel : b_fuel b' = b_fuel b;
  mv_ioerr : b_ioerr b' = b_ioerr b
}.
Definition opost (b b' : bstate) : Prop := binv b' /\ exists k, moved k b b' /\ room b k.
Definition quiet (b : bstate) : Prop := b_state b = bssBeforeValue \/ b_state b = bssBeforeFieldID.
Definition ospec {A} (b : bstate) (x : bres A) (post : bstate -> A -> Prop) : Prop :=
  lspec b x post /\ snd x <> OutOfFuel.

Lemma bcore_avail b : bcore b -> avail_ok b.
Proof. intros ((A & _) & _). exact A. Qed.

Lemma rem_ok b : bcore b -> b_remaining b = Ok (rem_of b) /\ rem_of b < two64.
Proof.
  intros (_ & _ & P & S). unfold b_remaining, rem_of. destruct (b_stack b) as [|[c e] rest].
  - split; [reflexivity|]. unfold two64. lia.
  - cbn [stk_ok] in S. destruct S as (S1 & S2 & _).
    replace (e <? b_pos b) with false by lia. split; [reflexivity|lia].
Qed.
Lemma room_rem b k : bcore b -> k <= rem_of b -> room b k.
Proof.
  intros (_ & _ & P & S). unfold rem_of, room. destruct (b_stack b) as [|[c e] rest]; [trivial|].
  cbn [stk_ok] in S. lia.
Qed.

Lemma stk_ok_mono lo lo' st : stk_ok lo st ->
  match st with [] => True | (_, e) :: _ => lo' <= e end -> stk_ok lo' st.
Proof. destruct st as [|[c e] rest]; cbn [stk_ok]; [trivial|]. intros (A & B & C) H. auto. Qed.

Lemma settle b k b1 : bcore b -> adv k b b1 -> room b k ->
  bcore b1 /\ moved k b b1 /\ (b_stack b <> [] -> b_pos b1 = b_pos b + k /\ rem_of b1 = rem_of b - k) /\
  (b_stack b = [] -> rem_of b1 = rem_of b).
Proof.
  intros (W & St & P & S) Ad R. pose proof Ad as [].
  assert (M : moved k b b1) by (constructor; assumption).
  assert (P1 : b_pos b1 < two64) by (rewrite adv_pos0; unfold wrap64, two64; lia).
  unfold room in R. unfold rem_of. rewrite adv_stack0.
  destruct (b_stack b) as [|[c e] rest] eqn:Es.
  - split; [|split; [exact M|split; [congruence|reflexivity]]].
    split; [eapply wk_wle; [exact W|eapply adv_wle; [apply W|exact Ad]]|].
    split; [lia|]. split; [exact P1|]. unfold bcore; rewrite adv_stack0. exact I.
  - cbn [stk_ok] in S. destruct S as (S1 & S2 & S3).
    assert (Pe : b_pos b1 = b_pos b + k) by (rewrite adv_pos0; unfold wrap64, two64 in *; lia).
    split; [|split; [exact M|split; [intros _; split; [exact Pe|lia]|discriminate]]].
    split; [eapply wk_wle; [exact W|eapply adv_wle; [apply W|exact Ad]]|].
    split; [lia|]. split; [exact P1|]. rewrite adv_stack0. cbn [stk_ok]. split; [lia|]. auto.
Qed.

Lemma moved_refl b : b_pos b < two64 -> moved 0 b b.
Proof. intros P. constructor; try reflexivity; [unfold wrap64, two64 in *|]; lia. Qed.
Lemma moved_trans k1 k2 b b1 b2 : moved k1 b b1 -> moved k2 b1 b2 -> moved (k1 + k2) b b2.
Proof.
  intros [] []. constructor; try congruence; try lia.
  - rewrite mv_in1, mv_in0, skipn_add. f_equal. lia.
  - rewrite mv_pos1, mv_pos0. unfold wrap64, two64. lia.
Qed.
Lemma room_0 b : bcore b -> room b 0.
Proof. intros C. apply room_rem; [exact C|lia]. Qed.

(* finishing a value: the state after it, everything about the current value cleared *)
Lemma binv_done b st : bcore b -> st = bssBeforeValue \/ st = bssBeforeFieldID ->
  binv (b_clear (upd_state b st)) /\ quiet (b_clear (upd_state b st)).
Proof.
  intros (W & S & P & K) Hs. split; [|exact Hs]. split; [|split].
  - split; [exact W|]. split; [bsimpl; unfold bssBeforeValue, bssBeforeFieldID in Hs; lia|]. split; assumption.
  - bsimpl. intros E. unfold bssBeforeValue, bssBeforeFieldID, bssOnValue in *. lia.
  - reflexivity.
Qed.
Lemma sav_quiet b : state_after_value b = bssBeforeValue \/ state_after_value b = bssBeforeFieldID.
Proof. unfold state_after_value. destruct (_ =? _); auto. Qed.

Ltac fin_err W := split; [exact W|split; cbn [snd]; [discriminate|intros ? HH; discriminate HH]].
Ltac wle_up W := revert W; unfold wle, avail_ok; bsimpl; intro W; exact W.

Lemma ospec_ok {A} b b' (v : A) (post : bstate -> A -> Prop) : wle b b' -> post b' v -> ospec b (b', Ok v) post.
Proof.
  intros W P. split; [|cbn; discriminate]. split; [exact W|]. split; cbn [snd fst]; [discriminate|].
  intros v0 H. inversion H; subst. exact P.
Qed.
Lemma ospec_err {A} b b' (post : bstate -> A -> Prop) : wle b b' -> ospec b (b', Err) post.
Proof. intros W. split; [|cbn; discriminate]. fin_err W. Qed.

Lemma finish b k b1 st : bcore b -> adv k b b1 -> room b k ->
  st = bssBeforeValue \/ st = bssBeforeFieldID ->
  wle b (b_clear (upd_state b1 st)) /\
  opost b (b_clear (upd_state b1 st)) /\ quiet (b_clear (upd_state b1 st)) /\
  b_stack (b_clear (upd_state b1 st)) = b_stack b /\
  b_avail (b_clear (upd_state b1 st)) = b_avail b - k /\ k <= b_avail b.
Proof.
  intros C Ad R Hs. destruct (settle _ _ _ C Ad R) as (C1 & M & _).
  destruct (binv_done b1 st C1 Hs) as [I Q].
  pose proof (adv_wle _ _ _ (bcore_avail _ C) Ad) as W.
  split; [wle_up W|]. split; [|split; [exact Q|]].
  - split; [exact I|]. exists k. split; [|exact R]. destruct M. constructor; bsimpl; assumption.
  - destruct Ad. bsimpl. auto.
Qed.

(* ---- SkipValue ----------------------------------------------------------------------------------------------- *)
Lemma b_skip_value_spec b : binv b ->
  ospec b (b_skip_value b)
        (fun b' _ => opost b b' /\ quiet b' /\ b_stack b' = b_stack b /\ b_avail b' <= b_avail b).
Proof.
  intros I. pose proof I as (C & F & L0). pose proof (bcore_avail _ C) as A.
  pose proof C as (_ & St & P & _).
  unfold b_skip_value.
  destruct ((b_state b =? bssBeforeFieldID) || (b_state b =? bssBeforeValue)) eqn:E1.
  { apply ospec_ok; [apply wle_refl; exact A|]. split; [|split; [|split; [reflexivity|lia]]].
    - split; [exact I|]. exists 0. split; [apply moved_refl; exact P|apply room_0; exact C].
    - unfold quiet. unfold bssBeforeFieldID, bssBeforeValue in *. lia. }
  destruct (b_state b =? bssOnFieldID) eqn:E2.
  { destruct (rem_ok b C) as [Er Rl]. rewrite Er.
    destruct (skip_varuint_loop_spec 11 b (N.min (rem_of b) 10) 0 A) as [(W & Np & Post) Of].
    destruct (b_skip_varuint_loop 11 b (N.min (rem_of b) 10) 0) as [b1 [l| | |]] eqn:E; cbn [fst snd] in *.
    - destruct (Post l eq_refl) as (Ad & L1 & L2).
      assert (R : room b (l - 0)) by (apply room_rem; [exact C|lia]).
      destruct (finish b (l - 0) b1 bssBeforeValue C Ad R (or_introl eq_refl)) as (W1 & O1 & Q1 & S1 & A1 & _).
      apply ospec_ok; [exact W1|]. split; [exact O1|]. split; [exact Q1|]. split; [exact S1|lia].
    - apply ospec_err; exact W.
    - exfalso; apply Np; reflexivity.
    - exfalso; apply Of; [lia|reflexivity]. }
  destruct (b_state b =? bssOnValue) eqn:E3.
  { assert (Ev : b_state b = bssOnValue) by (unfold bssOnValue in *; lia).
    destruct (F Ev) as [R _].
    destruct (0 <? b_len b) eqn:E4.
    - pose proof (b_skip_wle b (b_len b) A) as W. pose proof (b_skip_nopanic b (b_len b)) as [Np Nf].
      destruct (b_skip b (b_len b)) as [b1 [u| | |]] eqn:E; cbn [fst snd] in *.
      + destruct (b_skip_ok _ _ _ _ A E) as [Ad _].
        destruct (finish b (b_len b) b1 (state_after_value b1) C Ad R (sav_quiet b1)) as (W1 & O1 & Q1 & S1 & A1 & _).
        apply ospec_ok; [exact W1|]. split; [exact O1|]. split; [exact Q1|]. split; [exact S1|lia].
      + apply ospec_err; exact W.
      + exfalso; apply Np; reflexivity.
      + exfalso; apply Nf; reflexivity.
    - pose proof (adv_refl b P) as Ad.
      destruct (finish b 0 b (state_after_value b) C Ad (room_0 b C) (sav_quiet b)) as (W1 & O1 & Q1 & S1 & A1 & _).
      apply ospec_ok; [exact W1|]. split; [exact O1|]. split; [exact Q1|]. split; [exact S1|lia]. }
  exfalso. unfold bssBeforeFieldID, bssBeforeValue, bssOnFieldID, bssOnValue in *. lia.
Qed.

(* ---- StepIn / StepOut ------------------------------------------------------------------------------------------ *)
Definition is_container_code (c : N) : Prop := c = bcStruct \/ c = bcList \/ c = bcSexp.

Lemma b_step_in_spec b : binv b -> b_state b = bssOnValue -> is_container_code (b_code b) ->
  ospec b (b_step_in b)
        (fun b' _ => opost b b' /\ quiet b' /\
                     b_stack b' = (b_code b, b_pos b + b_len b) :: b_stack b /\ b_avail b' = b_avail b /\
                     b_pos b' = b_pos b /\ b_in b' = b_in b).
Proof.
  intros I Ev Hc. pose proof I as (C & F & L0). pose proof (bcore_avail _ C) as A.
  pose proof C as (Wk & St & P & Sk). destruct (F Ev) as [R Nw].
  assert (Nb : b_code b <> bcBVM) by (unfold is_container_code, bcBVM, bcStruct, bcList, bcSexp in *; lia).
  specialize (Nw Nb).
  assert (Ew : wrap64 (b_pos b + b_len b) = b_pos b + b_len b) by (unfold wrap64, two64 in *; lia).
  assert (K : forall st, st = bssBeforeValue \/ st = bssBeforeFieldID ->
    ospec b (b_clear (upd_stack (upd_state b st) ((b_code b, wrap64 (b_pos b + b_len b)) :: b_stack b)), Ok tt)
        (fun b' _ => opost b b' /\ quiet b' /\
                     b_stack b' = (b_code b, b_pos b + b_len b) :: b_stack b /\ b_avail b' = b_avail b /\
                     b_pos b' = b_pos b /\ b_in b' = b_in b)).
  { intros st Hs. rewrite Ew. apply ospec_ok.
    - pose proof (wle_refl b A) as W. wle_up W.
    - split; [|split; [exact Hs|bsimpl; auto]]. split.
      + split; [|split].
        * split; [exact Wk|]. split; [bsimpl; unfold bssBeforeValue, bssBeforeFieldID in Hs; lia|].
          split; [exact P|]. bsimpl. cbn [stk_ok]. split; [lia|]. split; [exact Nw|].
          apply (stk_ok_mono (b_pos b)); [exact Sk|]. unfold room in R.
          destruct (b_stack b) as [|[c e] rest]; [trivial|exact R].
        * bsimpl. intros E. unfold bssBeforeValue, bssBeforeFieldID, bssOnValue in *. lia.
        * reflexivity.
      + exists 0. split; [|apply room_0; exact C]. pose proof (moved_refl b P) as []. constructor; bsimpl; assumption. }
  unfold b_step_in. destruct (b_code b =? bcStruct) eqn:E1; [apply K; auto|].
  destruct ((b_code b =? bcList) || (b_code b =? bcSexp)) eqn:E2; [apply K; auto|].
  exfalso. unfold is_container_code, bcStruct, bcList, bcSexp in *. lia.
Qed.

Lemma b_step_out_spec b c e rest : binv b -> b_stack b = (c, e) :: rest ->
  ospec b (b_step_out b)
        (fun b' _ => opost b b' /\ quiet b' /\ b_stack b' = rest /\ b_avail b' <= b_avail b /\ b_pos b' = e).
Proof.
  intros I Es. pose proof I as (C & F & L0). pose proof (bcore_avail _ C) as A.
  pose proof C as (Wk & St & P & Sk). rewrite Es in Sk. cbn [stk_ok] in Sk. destruct Sk as (S1 & S2 & S3).
  unfold b_step_out. rewrite Es. bsimpl. replace (e <? b_pos b) with false by lia.
  assert (K : forall b1, adv (e - b_pos b) (upd_stack b rest) b1 ->
     ospec b (b_clear (upd_state b1 (state_after_value b1)), Ok tt)
        (fun b' _ => opost b b' /\ quiet b' /\ b_stack b' = rest /\ b_avail b' <= b_avail b /\ b_pos b' = e)).
  { intros b1 Ad. pose proof Ad as []. bsimpl.
    assert (Pe : b_pos b1 = e) by (rewrite adv_pos0; unfold wrap64, two64 in *; lia).
    assert (C1 : bcore b1).
    { split; [eapply wk_wle; [exact Wk|]|].
      - pose proof (adv_wle _ (upd_stack b rest) _ A Ad) as W. wle_up W.
      - split; [lia|]. split; [lia|]. rewrite Pe, adv_stack0. exact S3. }
    destruct (binv_done b1 _ C1 (sav_quiet b1)) as [I1 Q1].
    apply ospec_ok.
    - pose proof (adv_wle _ (upd_stack b rest) _ A Ad) as W. wle_up W.
    - split; [|split; [exact Q1|bsimpl; split; [assumption|split; [lia|exact Pe]]]].
      split; [exact I1|]. exists (e - b_pos b). split.
      + constructor; bsimpl; assumption.
      + unfold room. rewrite Es. lia. }
  destruct (0 <? e - b_pos b) eqn:E4.
  - pose proof (b_skip_wle (upd_stack b rest) (e - b_pos b) A) as W.
    pose proof (b_skip_nopanic (upd_stack b rest) (e - b_pos b)) as [Np Nf].
    destruct (b_skip (upd_stack b rest) (e - b_pos b)) as [b1 [u| | |]] eqn:E; cbn [fst snd] in *.
    + destruct (b_skip_ok (upd_stack b rest) _ _ _ A E) as [Ad _]. destruct u. apply K. exact Ad.
    + apply ospec_err. wle_up W.
    + exfalso; apply Np; reflexivity.
    + exfalso; apply Nf; reflexivity.
  - apply K. eapply adv_eq; [apply adv_refl; exact P|lia].
Qed.

(* ---- values: ReadBVM, ReadFieldID, the scalar readers ------------------------------------------------ *)
Definition vpost (b b' : bstate) : Prop :=
  opost b b' /\ quiet b' /\ b_stack b' = b_stack b /\ b_avail b' <= b_avail b.

Lemma adv_pos_lt k b b' : adv k b b' -> b_pos b' < two64.
Proof. intros []. rewrite adv_pos0. unfold wrap64, two64. lia. Qed.
Lemma wle_avail b b' : wle b b' -> avail_ok b'.
Proof. intros (_ & A & _). exact A. Qed.

Lemma b_read_bvm_spec b : binv b -> b_code b = bcBVM -> b_stack b = [] ->
  ospec b (b_read_bvm b) (fun b' _ => vpost b b' /\ b_avail b' < b_avail b).
Proof.
  intros I Ec Es. pose proof I as (C & F & L0). pose proof (bcore_avail _ C) as A.
  unfold b_read_bvm. rewrite Ec. cbn [N.eqb Pos.eqb bcBVM negb].
  pose proof (b_read1_wle b A) as W1. pose proof (b_read1_nopanic b) as [Np1 Nf1].
  destruct (b_read1 b) as [b1 [c1| | |]] eqn:E1; cbn [fst snd] in *; try tauto; [|apply ospec_err; exact W1].
  pose proof (b_read1_ok _ _ _ A E1) as A1. pose proof (wle_avail _ _ W1) as Av1.
  pose proof (b_read1_wle b1 Av1) as W2. pose proof (b_read1_nopanic b1) as [Np2 Nf2].
  destruct (b_read1 b1) as [b2 [c2| | |]] eqn:E2; cbn [fst snd] in *; try tauto;
    [|apply ospec_err; eapply wle_trans; eauto].
  pose proof (b_read1_ok _ _ _ Av1 E2) as A2. pose proof (wle_avail _ _ W2) as Av2.
  pose proof (b_read1_wle b2 Av2) as W3. pose proof (b_read1_nopanic b2) as [Np3 Nf3].
  assert (W12 : wle b b2) by (eapply wle_trans; eauto).
  destruct (b_read1 b2) as [b3 [c3| | |]] eqn:E3; cbn [fst snd] in *; try tauto;
    [|apply ospec_err; eapply wle_trans; eauto].
  pose proof (b_read1_ok _ _ _ Av2 E3) as A3.
  assert (W13 : wle b b3) by (eapply wle_trans; eauto).
  destruct (negb (c3 =? 234)); [apply ospec_err; exact W13|].
  assert (Ad : adv 3 b b3) by (eapply adv_eq; [eapply adv_trans; [eapply adv_trans; [exact A1|exact A2]|exact A3]|reflexivity]).
  assert (R : room b 3) by (unfold room; rewrite Es; exact Logic.I).
  destruct (finish b 3 b3 bssBeforeValue C Ad R (or_introl eq_refl)) as (Wf & O1 & Q1 & S1 & Av & Le).
  apply ospec_ok; [exact Wf|]. split; [|lia]. split; [exact O1|]. split; [exact Q1|]. split; [exact S1|lia].
Qed.

Lemma b_read_field_id_spec b : binv b -> b_code b = bcFieldID -> b_state b = bssOnFieldID ->
  ospec b (b_read_field_id b) (fun b' _ => vpost b b' /\ b_avail b' < b_avail b).
Proof.
  intros I Ec Est. pose proof I as (C & F & L0). pose proof (bcore_avail _ C) as A.
  assert (Len : b_len b = 0) by (apply L0; rewrite Est; discriminate).
  unfold b_read_field_id. rewrite Ec. cbn [N.eqb Pos.eqb bcFieldID negb].
  destruct (rem_ok b C) as [Er Rl]. rewrite Er.
  destruct (b_read_varuint_spec b (rem_of b) A) as [(W & Np & Post) Of].
  destruct (b_read_varuint b (rem_of b)) as [b1 [[id l]| | |]] eqn:E; cbn [fst snd] in *; try tauto;
    [|apply ospec_err; exact W].
  destruct (Post (id, l) eq_refl) as (Ad & L1 & L2 & L3).
  assert (R : room b l) by (apply room_rem; [exact C|lia]).
  destruct (settle _ _ _ C Ad R) as (C1 & M & _). pose proof Ad as [].
  apply ospec_ok; [wle_up W|]. split; [|bsimpl; lia].
  split; [|split; [left; reflexivity|bsimpl; split; [assumption|lia]]].
  split.
  - destruct C1 as (Wk1 & St1 & P1 & Sk1). split; [|split].
    + split; [exact Wk1|]. split; [bsimpl; unfold bssBeforeValue; lia|]. split; assumption.
    + bsimpl. discriminate.
    + bsimpl. congruence.
  - exists l. split; [|exact R]. destruct M. constructor; bsimpl; assumption.
Qed.

(* readN of the current value's body, then done *)
Lemma readN_value b : binv b -> b_state b = bssOnValue -> b_code b <> bcBVM ->
  match b_readN b (b_len b) with
  | (b1, Ok bs) => wle b b1 /\ wle b (done_value b1) /\ vpost b (done_value b1) /\
                   N.of_nat (length bs) = b_len b /\ adv (b_len b) b b1
  | (b1, Err) => wle b b1
  | _ => False
  end.
Proof.
  intros I Ev Nb. pose proof I as (C & F & L0). pose proof (bcore_avail _ C) as A.
  pose proof C as (_ & _ & P & _). destruct (F Ev) as [R _].
  pose proof (b_readN_wle b (b_len b) A) as W. pose proof (b_readN_nopanic b (b_len b)) as [Np Nf].
  destruct (b_readN b (b_len b)) as [b1 [bs| | |]] eqn:E; cbn [fst snd] in *; try tauto.
  destruct (b_readN_ok _ _ _ _ A P E) as [Ad Ln].
  destruct (finish b (b_len b) b1 (state_after_value b1) C Ad R (sav_quiet b1)) as (Wf & O1 & Q1 & S1 & Av & Le).
  split; [exact W|]. split; [exact Wf|]. split; [|split; [exact Ln|exact Ad]].
  split; [exact O1|]. split; [exact Q1|]. split; [exact S1|]. unfold done_value. lia.
Qed.

Ltac code_ok H := try (exfalso; revert H; unfold bcInt, bcNegInt, bcFloat, bcDecimal, bcTimestamp, bcSymbol, bcString,
   bcClob, bcBlob, bcBVM; lia).

Lemma b_read_int_spec b : binv b -> b_state b = bssOnValue -> b_code b = bcInt \/ b_code b = bcNegInt ->
  ospec b (b_read_int b) (fun b' _ => vpost b b').
Proof.
  intros I Ev Hc. unfold b_read_int.
  destruct (negb ((b_code b =? bcInt) || (b_code b =? bcNegInt))) eqn:E0; [code_ok Hc; unfold bcInt, bcNegInt in *; lia|].
  assert (Nb : b_code b <> bcBVM) by (unfold bcBVM, bcInt, bcNegInt in *; lia).
  pose proof (readN_value b I Ev Nb) as H.
  destruct (b_readN b (b_len b)) as [b1 [bs| | |]]; try contradiction; [|apply ospec_err; exact H].
  destruct H as (W & Wf & V & _).
  match goal with |- context [let '(v, is_zero) := ?X in _] => destruct X as [v iz] end.
  destruct (iz && (b_code b =? bcNegInt)); [apply ospec_err; exact W|apply ospec_ok; assumption].
Qed.

Lemma b_read_float_spec b : binv b -> b_state b = bssOnValue -> b_code b = bcFloat ->
  ospec b (b_read_float b) (fun b' _ => vpost b b').
Proof.
  intros I Ev Hc. unfold b_read_float. rewrite Hc. cbn [N.eqb Pos.eqb bcFloat negb].
  assert (Nb : b_code b <> bcBVM) by (rewrite Hc; discriminate).
  pose proof (readN_value b I Ev Nb) as H.
  destruct (b_readN b (b_len b)) as [b1 [bs| | |]]; try contradiction; [|apply ospec_err; exact H].
  destruct H as (W & Wf & V & _).
  destruct (length bs) as [|[|[|[|[|[|[|[|[|n]]]]]]]]];
    first [apply ospec_ok; assumption|apply ospec_err; exact W].
Qed.

Lemma b_read_symbol_id_spec b : binv b -> b_state b = bssOnValue -> b_code b = bcSymbol ->
  ospec b (b_read_symbol_id b) (fun b' _ => vpost b b').
Proof.
  intros I Ev Hc. unfold b_read_symbol_id. rewrite Hc. cbn [N.eqb Pos.eqb bcSymbol negb].
  assert (Nb : b_code b <> bcBVM) by (rewrite Hc; discriminate).
  destruct (8 <? b_len b); [apply ospec_err; apply wle_refl; apply bcore_avail; apply I|].
  pose proof (readN_value b I Ev Nb) as H.
  destruct (b_readN b (b_len b)) as [b1 [bs| | |]]; try contradiction; [|apply ospec_err; exact H].
  destruct H as (W & Wf & V & _). apply ospec_ok; assumption.
Qed.

Lemma b_read_string_spec b : binv b -> b_state b = bssOnValue -> b_code b = bcString ->
  ospec b (b_read_string b) (fun b' _ => vpost b b').
Proof.
  intros I Ev Hc. unfold b_read_string. rewrite Hc. cbn [N.eqb Pos.eqb bcString negb].
  assert (Nb : b_code b <> bcBVM) by (rewrite Hc; discriminate).
  pose proof (readN_value b I Ev Nb) as H.
  destruct (b_readN b (b_len b)) as [b1 [bs| | |]]; try contradiction; [|apply ospec_err; exact H].
  destruct H as (W & Wf & V & _). destruct (utf8_valid bs); [apply ospec_ok; assumption|apply ospec_err; exact Wf].
Qed.

Lemma b_read_bytes_spec b : binv b -> b_state b = bssOnValue -> b_code b = bcClob \/ b_code b = bcBlob ->
  ospec b (b_read_bytes b) (fun b' _ => vpost b b').
Proof.
  intros I Ev Hc. unfold b_read_bytes.
  destruct (negb ((b_code b =? bcClob) || (b_code b =? bcBlob))) eqn:E0; [exfalso; unfold bcClob, bcBlob in *; lia|].
  assert (Nb : b_code b <> bcBVM) by (unfold bcBVM, bcClob, bcBlob in *; lia).
  pose proof (readN_value b I Ev Nb) as H.
  destruct (b_readN b (b_len b)) as [b1 [bs| | |]]; try contradiction; [|apply ospec_err; exact H].
  destruct H as (W & Wf & V & _). apply ospec_ok; assumption.
Qed.

Lemma b_read_timestamp_spec b ts : (forall bs, ts bs <> Panic /\ ts bs <> OutOfFuel) ->
  binv b -> b_state b = bssOnValue -> b_code b = bcTimestamp ->
  ospec b (b_read_timestamp b ts) (fun b' _ => vpost b b').
Proof.
  intros Hts I Ev Hc. unfold b_read_timestamp. rewrite Hc. cbn [N.eqb Pos.eqb bcTimestamp negb].
  assert (Nb : b_code b <> bcBVM) by (rewrite Hc; discriminate).
  pose proof (readN_value b I Ev Nb) as H.
  destruct (b_readN b (b_len b)) as [b1 [bs| | |]]; try contradiction; [|apply ospec_err; exact H].
  destruct H as (W & Wf & V & _). destruct (Hts bs) as [T1 T2].
  destruct (ts bs); try tauto; [apply ospec_ok; assumption|apply ospec_err; exact W].
Qed.

Lemma b_read_decimal_len_spec b n : avail_ok b -> b_pos b < two64 -> n < two64 ->
  lspec b (b_read_decimal_len b n) (fun b' _ => adv n b b') /\ snd (b_read_decimal_len b n) <> OutOfFuel.
Proof.
  intros A P Hn. unfold b_read_decimal_len.
  destruct (0 <? n) eqn:E0.
  - destruct (b_read_varint_spec b n A) as [(W & Np & Post) Of].
    destruct (b_read_varint b n) as [b1 [[[v sg] vl]| | |]] eqn:E; cbn [fst snd] in *; try tauto.
    2:{ split; [|cbn; discriminate]. fin_err W. }
    destruct (Post (v, sg, vl) eq_refl) as (Ad & L1 & L2).
    destruct ((2147483647 <? v)%Z || (v <? -2147483648)%Z).
    { split; [|cbn; discriminate]. fin_err W. }
    assert (En : wrap64 (n + two64 - vl) = n - vl) by (unfold wrap64, two64 in *; lia). rewrite En.
    pose proof (wle_avail _ _ W) as Av1. pose proof (adv_pos_lt _ _ _ Ad) as P1.
    destruct (0 <? n - vl) eqn:E1.
    + pose proof (b_readN_wle b1 (n - vl) Av1) as W2. pose proof (b_readN_nopanic b1 (n - vl)) as [Np2 Nf2].
      destruct (b_readN b1 (n - vl)) as [b2 [bs| | |]] eqn:E2; cbn [fst snd] in *; try tauto.
      2:{ split; [|cbn; discriminate]. assert (W12 : wle b b2) by (eapply wle_trans; eauto). fin_err W12. }
      destruct (b_readN_ok _ _ _ _ Av1 P1 E2) as [Ad2 Ln].
      assert (W12 : wle b b2) by (eapply wle_trans; eauto).
      destruct bs as [|b0 bs]; [cbn [length] in Ln; lia|]. cbn [read_signmag].
      split; [|cbn; discriminate]. split; [exact W12|]. split; cbn [snd fst]; [discriminate|].
      intros d _. eapply adv_eq; [eapply adv_trans; [exact Ad|exact Ad2]|lia].
    + split; [|cbn; discriminate]. split; [exact W|]. split; cbn [snd fst]; [discriminate|].
      intros d _. eapply adv_eq; [exact Ad|lia].
  - replace n with 0 by lia. cbn [N.ltb N.compare].
    split; [|cbn; discriminate]. split; [apply wle_refl; exact A|]. split; cbn [snd fst]; [discriminate|].
    intros d _. apply adv_refl. exact P.
Qed.

Lemma b_read_decimal_spec b : binv b -> b_state b = bssOnValue -> b_code b = bcDecimal ->
  ospec b (b_read_decimal b) (fun b' _ => vpost b b').
Proof.
  intros I Ev Hc. pose proof I as (C & F & L0). pose proof (bcore_avail _ C) as A.
  pose proof C as (_ & _ & P & _). destruct (F Ev) as [R Nw].
  assert (Nb : b_code b <> bcBVM) by (rewrite Hc; discriminate). specialize (Nw Nb).
  unfold b_read_decimal. rewrite Hc. cbn [N.eqb Pos.eqb bcDecimal negb].
  assert (Hn : b_len b < two64) by lia.
  destruct (b_read_decimal_len_spec b (b_len b) A P Hn) as [(W & Np & Post) Of].
  destruct (b_read_decimal_len b (b_len b)) as [b1 [d| | |]] eqn:E; cbn [fst snd] in *; try tauto;
    [|apply ospec_err; exact W].
  pose proof (Post d eq_refl) as Ad.
  destruct (finish b (b_len b) b1 (state_after_value b1) C Ad R (sav_quiet b1)) as (Wf & O1 & Q1 & S1 & Av & Le).
  apply ospec_ok; [exact Wf|]. split; [exact O1|]. split; [exact Q1|]. split; [exact S1|]. unfold done_value. lia.
Qed.
