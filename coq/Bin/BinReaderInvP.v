(* BinReaderInvP.v — the reader/bitstream coupling invariant of the binary reader
   model and its preservation by StepIn, StepOut, the raw item reader, the local
   symbol table reader and Next; no Panic, no OutOfFuel, memory bounded. *)
From Coq Require Import String List NArith ZArith Bool Lia ZifyBool ZifyN ZifyNat.
From IonV Require Import Base.Wire Base.Utf8 Bin.Bits Data.Ion Num.Float Bin.BitStream Bin.BinReader
  Bin.BitStreamP Bin.BitStreamNextP.
Import ListNotations.
Open Scope N_scope.
Ltac Zify.zify_post_hook ::= Z.div_mod_to_equations.

Ltac rsimpl :=
  cbn [r_bits r_ctx r_eof r_err r_lst r_field r_annots r_type r_value
       rs_bits rs_ctx rs_eof rs_err rs_lst rs_field rs_annots rs_val r_clear fst snd] in *.

Definition val_ok (t : N) (v : rvalue) : Prop :=
  match v with
  | RNil => True
  | RBool _ => t = TBool
  | RInt _ => t = TInt
  | RFloat _ => t = TFloat
  | RDecimal _ => t = TDecimal
  | RTimestamp _ => t = TTimestamp
  | RSymbol _ => t = TSymbol
  | RString _ => t = TString
  | RBytes _ => t = TClob \/ t = TBlob
  | RContainer => t = TList \/ t = TSexp \/ t = TStruct
  end.
Definition code_of_type (t : N) : N :=
  if t =? TList then bcList else if t =? TSexp then bcSexp else bcStruct.

Record good (r : rstate) : Prop := {
  g_binv : binv (r_bits r);
  g_depth : length (r_ctx r) = length (b_stack (r_bits r));
  g_ctx : Forall (fun c => c <> 0) (r_ctx r);
  g_lst : r_lst r <> None \/ exists rest io, r_bits r = b_init (224 :: rest) io;
  g_val : val_ok (r_type r) (r_value r);
  g_cont : r_value r = RContainer ->
           b_state (r_bits r) = bssOnValue /\ b_code (r_bits r) = code_of_type (r_type r)
}.
(* the invariant of every reachable state *)
Definition RInv (r : rstate) : Prop := wk (r_bits r) /\ (r_err r = true \/ good r).
Definition G (r : rstate) : Prop := good r /\ r_err r = false.

Definition fspec {A} (r : rstate) (y : rres A) (post : rstate -> A -> Prop) : Prop :=
  wle (r_bits r) (r_bits (fst y)) /\
  match snd y with Ok v => post (fst y) v | Err => True | Panic => False | OutOfFuel => False end.

Lemma good_wk r : good r -> wk (r_bits r).
Proof. intros [((W & _) & _) _ _ _ _ _]. exact W. Qed.
Lemma G_RInv r : G r -> RInv r.
Proof. intros [Hg _]. split; [apply good_wk; exact Hg|right; exact Hg]. Qed.
Lemma RInv_avail r : RInv r -> avail_ok (r_bits r).
Proof. intros ((A & _) & _). exact A. Qed.

Lemma fspec_step {A} r r1 (y : rres A) post : avail_ok (r_bits r) ->
  wle (r_bits r) (r_bits r1) -> fspec r1 y post -> fspec r y post.
Proof. intros A0 W [W1 P]. split; [eapply wle_trans; eauto|exact P]. Qed.

Lemma wle_len b b' : wle b b' -> (length (b_in b') <= length (b_in b))%nat.
Proof. intros (_ & _ & L & _). exact L. Qed.

Lemma peek_nz r : Forall (fun c => c <> 0) (r_ctx r) -> r_ctx r <> [] -> (r_ctx_peek r =? 0) = false.
Proof.
  unfold r_ctx_peek. intros F Hn. destruct (r_ctx r) as [|c rest]; [contradiction|].
  inversion F; subst. lia.
Qed.
Lemma peek_z r : Forall (fun c => c <> 0) (r_ctx r) -> (r_ctx_peek r =? 0) = true -> r_ctx r = [].
Proof.
  unfold r_ctx_peek. intros F E. destruct (r_ctx r) as [|c rest]; [reflexivity|].
  inversion F; subst. lia.
Qed.

Lemma good_clear r : good r -> good (r_clear r).
Proof.
  intros []. constructor; rsimpl; auto; [exact I|intros H; discriminate].
Qed.

Lemma val_cont t v : val_ok t v -> t = TList \/ t = TSexp \/ t = TStruct -> v = RNil \/ v = RContainer.
Proof.
  destruct v; cbn [val_ok]; auto; intros H1 H2; exfalso;
    unfold TList, TSexp, TStruct, TBool, TInt, TFloat, TDecimal, TTimestamp, TSymbol, TString, TClob, TBlob in *; lia.
Qed.
Lemma val_int v : val_ok TInt v -> v = RNil \/ exists i, v = RInt i.
Proof.
  destruct v; cbn [val_ok]; eauto; intros H1; exfalso;
    unfold TList, TSexp, TStruct, TBool, TInt, TFloat, TDecimal, TTimestamp, TSymbol, TString, TClob, TBlob in *; lia.
Qed.
Lemma val_sym v : val_ok TSymbol v -> v = RNil \/ exists t, v = RSymbol t.
Proof.
  destruct v; cbn [val_ok]; eauto; intros H1; exfalso;
    unfold TList, TSexp, TStruct, TBool, TInt, TFloat, TDecimal, TTimestamp, TSymbol, TString, TClob, TBlob in *; lia.
Qed.

(* ---- StepIn / StepOut ---------------------------------------------------------------------------------- *)
Lemma r_step_in_spec r : G r ->
  fspec r (r_step_in r)
        (fun r' ok => G r' /\ b_avail (r_bits r') = b_avail (r_bits r) /\
                      (ok = false -> r' = r) /\
                      (ok = true -> r_ctx r' <> [] /\ tl (r_ctx r') = r_ctx r /\ r_eof r' = r_eof r)).
Proof.
  intros [Hg He]. pose proof (RInv_avail r (G_RInv r (conj Hg He))) as A.
  assert (Same : fspec r (r, Ok false)
        (fun r' ok => G r' /\ b_avail (r_bits r') = b_avail (r_bits r) /\
                      (ok = false -> r' = r) /\
                      (ok = true -> r_ctx r' <> [] /\ tl (r_ctx r') = r_ctx r /\ r_eof r' = r_eof r))).
  { split; [apply wle_refl; exact A|]. cbn [snd fst]. split; [split; assumption|]. split; [reflexivity|].
    split; [reflexivity|discriminate]. }
  unfold r_step_in. rewrite He.
  destruct (negb ((r_type r =? TList) || (r_type r =? TSexp) || (r_type r =? TStruct))) eqn:Et; [exact Same|].
  assert (Ht : r_type r = TList \/ r_type r = TSexp \/ r_type r = TStruct) by lia.
  pose proof Hg as [Hb Hd Hc Hl Hv Hk].
  destruct (val_cont _ _ Hv Ht) as [Ev|Ev]; rewrite Ev; [exact Same|].
  destruct (Hk Ev) as [Es Ec]. rsimpl.
  assert (Icc : is_container_code (b_code (r_bits r))).
  { rewrite Ec. unfold code_of_type, is_container_code. destruct (r_type r =? TList); [auto|].
    destruct (r_type r =? TSexp); auto. }
  destruct (b_step_in_spec (r_bits r) Hb Es Icc) as [(W & Np & Post) Of].
  destruct (b_step_in (r_bits r)) as [b' [u| | |]] eqn:E; cbn [fst snd] in *; try tauto.
  2:{ split; [rsimpl; exact W|exact Logic.I]. }
  destruct (Post u eq_refl) as ((Ib & _) & Q & Sk & Av & _).
  split; [rsimpl; exact W|]. cbn [snd fst]. rsimpl.
  split; [|split; [exact Av|split; [discriminate|intros _; split; [discriminate|split; reflexivity]]]].
  split; [|exact He]. constructor; rsimpl.
  - exact Ib.
  - rewrite Sk. cbn [length]. congruence.
  - constructor; [|exact Hc]. destruct (r_type r =? TList); [discriminate|]. destruct (r_type r =? TSexp); discriminate.
  - destruct Hl as [Hl|(rest & io & Hl)]; [left; exact Hl|]. exfalso. rewrite Hl in Es. discriminate.
  - exact Logic.I.
  - discriminate.
Qed.

Lemma r_step_out_spec r : RInv r -> (r_err r = false -> r_ctx r <> []) ->
  fspec r (r_step_out r)
        (fun r' ok => (ok = true -> G r' /\ r_ctx r' = tl (r_ctx r) /\ r_value r' = RNil /\ r_eof r' = false /\ r_err r = false) /\
                      (ok = false -> r_err r' = true)).
Proof.
  intros Ri Nc. pose proof (RInv_avail r Ri) as A. destruct Ri as [Wk Hg].
  unfold r_step_out. destruct (r_err r) eqn:He.
  { split; [apply wle_refl; exact A|]. cbn [snd fst]. split; [discriminate|intros _; exact He]. }
  destruct Hg as [Hg|Hg]; [discriminate|]. specialize (Nc eq_refl).
  pose proof Hg as [Hb Hd Hc Hl Hv Hk]. rewrite (peek_nz r Hc Nc).
  destruct (b_stack (r_bits r)) as [|[c e] rest] eqn:Es.
  { exfalso. destruct (r_ctx r); [contradiction|discriminate]. }
  destruct (b_step_out_spec (r_bits r) c e rest Hb Es) as [(W & Np & Post) Of].
  destruct (b_step_out (r_bits r)) as [b' [u| | |]] eqn:E; cbn [fst snd] in *; try tauto.
  2:{ split; [rsimpl; exact W|]. cbn [snd fst]. rsimpl. split; [discriminate|reflexivity]. }
  destruct (Post u eq_refl) as ((Ib & _) & Q & Sk & Av & _).
  split; [rsimpl; exact W|]. cbn [snd fst]. rsimpl. split; [|discriminate]. intros _.
  split; [|split; [reflexivity|split; [reflexivity|split; reflexivity]]]. split; [|exact He]. constructor; rsimpl.
  - exact Ib.
  - rewrite Sk. destruct (r_ctx r); [contradiction|]. cbn [length tl] in *. lia.
  - destruct (r_ctx r); [contradiction|]. inversion Hc; subst. assumption.
  - destruct Hl as [Hl|(rest0 & io & Hl)]; [left; exact Hl|]. exfalso. rewrite Hl in Es. discriminate.
  - exact Logic.I.
  - discriminate.
Qed.

Lemma len_lt b b1 : avail_ok b -> avail_ok b1 -> b_avail b1 < b_avail b ->
  (length (b_in b1) < length (b_in b))%nat.
Proof. unfold avail_ok. lia. Qed.

(* ---- readLocalSymbolTable, given a well-behaved Next --------------------------------------------------- *)
Section Lst.
Variable ts : list N -> res unit.
Hypothesis Hts : forall bs, ts bs <> Panic /\ ts bs <> OutOfFuel.
Variable api_next : rstate -> rstate * res bool.

Definition api_post (r : rstate) (y : rstate * res bool) : Prop :=
  wle (r_bits r) (r_bits (fst y)) /\
  match snd y with
  | Ok true => G (fst y) /\ r_ctx (fst y) = r_ctx r /\ b_avail (r_bits (fst y)) < b_avail (r_bits r)
  | Ok false => RInv (fst y) /\ (r_err (fst y) = false -> r_ctx (fst y) = r_ctx r)
  | _ => False
  end.
Hypothesis Hapi : forall r, RInv r -> r_ctx r <> [] -> api_post r (api_next r).

Definition lpost (r : rstate) {A} (r' : rstate) (_ : A) : Prop := RInv r' /\ (r_err r' = false -> r_ctx r' = r_ctx r).
Definition gpost (r : rstate) {A} (r' : rstate) (_ : A) : Prop := G r' /\ r_ctx r' = r_ctx r.

Ltac err_here A := split; [apply wle_refl; exact A|exact Logic.I].

Lemma read_symbols_loop_spec fuel : forall r acc, RInv r -> r_ctx r <> [] ->
  (length (b_in (r_bits r)) < fuel)%nat ->
  fspec r (read_symbols_loop api_next fuel r acc) (lpost r).
Proof.
  induction fuel as [|f IH]; intros r acc Ri Nc Hf; [lia|]. cbn [read_symbols_loop].
  pose proof (RInv_avail r Ri) as A. destruct (Hapi r Ri Nc) as (W & P).
  destruct (api_next r) as [r1 [[|]| | |]]; cbn [fst snd] in *; try contradiction.
  - destruct P as (G1 & Ec & Av). pose proof (G_RInv r1 G1) as Ri1.
    apply (fspec_step r r1); [exact A|exact W|].
    assert (H1 : fspec r1 (read_symbols_loop api_next f r1
       (acc ++ [if r_type r1 =? TString then match r_value r1 with RString t => t | _ => [] end else []])) (lpost r1)).
    { apply IH; [exact Ri1|congruence|]. pose proof (len_lt _ _ A (RInv_avail _ Ri1) Av). lia. }
    destruct H1 as [W1 P1]. split; [exact W1|].
    destruct (snd (read_symbols_loop api_next f r1 _)); try exact P1. destruct P1 as [Q1 Q2]. split; [exact Q1|intros Hq; rewrite (Q2 Hq); exact Ec].
  - split; [exact W|]. cbn [snd fst]. exact P.
Qed.

Lemma read_symbols_spec fuel r : G r -> r_ctx r <> [] -> (length (b_in (r_bits r)) < fuel)%nat ->
  fspec r (read_symbols api_next fuel r) (gpost r).
Proof.
  intros Gr Nc Hf. pose proof (RInv_avail r (G_RInv r Gr)) as A. unfold read_symbols.
  destruct (negb (r_type r =? TList) || r_is_null r); [split; [apply wle_refl; exact A|split; [exact Gr|reflexivity]]|].
  destruct (r_step_in_spec r Gr) as [W1 P1].
  destruct (r_step_in r) as [r1 [[|]| | |]]; cbn [fst snd] in *; try contradiction;
    [|split; [exact W1|exact Logic.I]|split; [exact W1|exact Logic.I]].
  destruct P1 as (G1 & Av1 & _ & Ht). destruct (Ht eq_refl) as (Nc1 & Tl1 & _).
  pose proof (G_RInv r1 G1) as Ri1. pose proof (RInv_avail r1 Ri1) as A1.
  apply (fspec_step r r1); [exact A|exact W1|].
  assert (Hf1 : (length (b_in (r_bits r1)) < fuel)%nat) by (pose proof (wle_len _ _ W1); lia).
  destruct (read_symbols_loop_spec fuel r1 [] Ri1 Nc1 Hf1) as [W2 P2].
  destruct (read_symbols_loop api_next fuel r1 []) as [r2 [syms| | |]]; cbn [fst snd] in *; try contradiction;
    [|split; [exact W2|exact Logic.I]].
  destruct P2 as [Ri2 Ec2]. apply (fspec_step r1 r2); [exact A1|exact W2|].
  assert (Nc2 : r_err r2 = false -> r_ctx r2 <> []) by (intros Hq; rewrite (Ec2 Hq); exact Nc1).
  destruct (r_step_out_spec r2 Ri2 Nc2) as [W3 P3].
  destruct (r_step_out r2) as [r3 [[|]| | |]]; cbn [fst snd] in *; try contradiction;
    try (split; [exact W3|exact Logic.I]).
  split; [exact W3|]. cbn [snd fst]. destruct P3 as [P3 _]. destruct (P3 eq_refl) as (G3 & Ec3 & _ & _ & He2).
  split; [exact G3|]. rewrite Ec3, (Ec2 He2). exact Tl1.
Qed.

Lemma val_int_type r : good r -> (r_type r =? TInt) = true ->
  r_value r = RNil \/ exists i, r_value r = RInt i.
Proof. intros [_ _ _ _ Hv _] E. apply N.eqb_eq in E. rewrite E in Hv. apply val_int. exact Hv. Qed.

Lemma read_import_loop_spec fuel : forall r d, RInv r -> r_ctx r <> [] ->
  (length (b_in (r_bits r)) < fuel)%nat ->
  fspec r (read_import_loop api_next fuel r d) (lpost r).
Proof.
  induction fuel as [|f IH]; intros r d Ri Nc Hf; [lia|]. cbn [read_import_loop].
  pose proof (RInv_avail r Ri) as A. destruct (Hapi r Ri Nc) as (W & P).
  destruct (api_next r) as [r1 [[|]| | |]]; cbn [fst snd] in *; try contradiction.
  2:{ split; [exact W|]. cbn [snd fst]. exact P. }
  destruct P as (G1 & Ec & Av). pose proof (G_RInv r1 G1) as Ri1. pose proof (RInv_avail _ Ri1) as A1.
  apply (fspec_step r r1); [exact A|exact W|].
  assert (K : forall d', fspec r1 (read_import_loop api_next f r1 d') (lpost r)).
  { intros d'. assert (H1 : fspec r1 (read_import_loop api_next f r1 d') (lpost r1)).
    { apply IH; [exact Ri1|congruence|]. pose proof (len_lt _ _ A A1 Av). lia. }
    destruct H1 as [W1 P1]. split; [exact W1|].
    destruct (snd (read_import_loop api_next f r1 d')); try exact P1. destruct P1 as [Q1 Q2]. split; [exact Q1|intros Hq; rewrite (Q2 Hq); exact Ec]. }
  destruct G1 as [Hg1 He1]. rewrite He1.
  destruct (field_text r1) as [fnm|]; [|err_here A1].
  destruct (list_eqb fnm (s "name")).
  { destruct (r_type r1 =? TString); [destruct (r_value r1)|]; apply K. }
  destruct (list_eqb fnm (s "version")).
  { destruct (r_type r1 =? TInt) eqn:Eti; [|apply K].
    destruct (val_int_type r1 Hg1 Eti) as [Ev|[i Ev]]; rewrite Ev; [apply K|].
    destruct (negb _); [err_here A1|]. destruct (_ || _)%bool; [err_here A1|apply K]. }
  destruct (list_eqb fnm (s "max_id")); [|apply K].
  destruct (r_type r1 =? TInt) eqn:Eti; [|apply K].
  destruct (r_is_null r1) eqn:Enl; [err_here A1|].
  destruct (val_int_type r1 Hg1 Eti) as [Ev|[i Ev]]; rewrite Ev.
  - exfalso. unfold r_is_null in Enl. rewrite Ev in Enl. apply N.eqb_eq in Eti. rewrite Eti in Enl. discriminate.
  - destruct (negb _); [err_here A1|apply K].
Qed.

(* StepIn; a loop; StepOut: the shape shared by readSymbols / readImport / readImports / the table itself *)
Lemma bracket {TA TB} fuel r (loop : rstate -> rres TA) (k : rstate -> TA -> rres TB) :
  G r -> (length (b_in (r_bits r)) < fuel)%nat ->
  (forall r1, RInv r1 -> r_ctx r1 <> [] -> (length (b_in (r_bits r1)) < fuel)%nat -> fspec r1 (loop r1) (lpost r1)) ->
  (forall r3 a, G r3 -> r_value r3 = RNil -> r_eof r3 = false ->
                fspec r3 (k r3 a) (fun r' _ => r' = r3)) ->
  fspec r (match r_step_in r with
           | (r, Ok true) =>
             match loop r with
             | (r, Ok a) =>
               match r_step_out r with
               | (r, Ok true) => k r a
               | (r, Ok false) => (r, Err)
               | (r, x) => (r, match x with Panic => Panic | OutOfFuel => OutOfFuel | _ => Err end)
               end
             | (r, x) => (r, match x with Ok _ => Err | Err => Err | Panic => Panic | OutOfFuel => OutOfFuel end)
             end
           | (r, Ok false) => (r, Err)
           | (r, x) => (r, match x with Panic => Panic | OutOfFuel => OutOfFuel | _ => Err end)
           end)
        (fun r' _ => G r' /\ r_ctx r' = r_ctx r /\ r_value r' = RNil /\ r_eof r' = false).
Proof.
  intros Gr Hf Hloop Hk. pose proof (RInv_avail r (G_RInv r Gr)) as A.
  destruct (r_step_in_spec r Gr) as [W1 P1].
  destruct (r_step_in r) as [r1 [[|]| | |]]; cbn [fst snd] in *; try contradiction;
    [|split; [exact W1|exact Logic.I]|split; [exact W1|exact Logic.I]].
  destruct P1 as (G1 & Av1 & _ & Ht). destruct (Ht eq_refl) as (Nc1 & Tl1 & _).
  pose proof (G_RInv r1 G1) as Ri1. pose proof (RInv_avail r1 Ri1) as A1.
  apply (fspec_step r r1); [exact A|exact W1|].
  assert (Hf1 : (length (b_in (r_bits r1)) < fuel)%nat) by (pose proof (wle_len _ _ W1); lia).
  destruct (Hloop r1 Ri1 Nc1 Hf1) as [W2 P2].
  destruct (loop r1) as [r2 [a| | |]]; cbn [fst snd] in *; try contradiction;
    [|split; [exact W2|exact Logic.I]].
  destruct P2 as [Ri2 Ec2]. apply (fspec_step r1 r2); [exact A1|exact W2|].
  assert (Nc2 : r_err r2 = false -> r_ctx r2 <> []) by (intros Hq; rewrite (Ec2 Hq); exact Nc1).
  destruct (r_step_out_spec r2 Ri2 Nc2) as [W3 P3].
  destruct (r_step_out r2) as [r3 [[|]| | |]]; cbn [fst snd] in *; try contradiction;
    try (split; [exact W3|exact Logic.I]).
  destruct P3 as [P3 _]. destruct (P3 eq_refl) as (G3 & Ec3 & Ev3 & Ee3 & He2). specialize (Ec2 He2).
  apply (fspec_step r2 r3); [apply RInv_avail; exact Ri2|exact W3|].
  destruct (Hk r3 a G3 Ev3 Ee3) as [W4 P4]. split; [exact W4|].
  destruct (snd (k r3 a)); try exact P4. rewrite P4. split; [exact G3|]. split; [congruence|]. split; assumption.
Qed.

Lemma read_import_spec fuel r : G r -> r_ctx r <> [] -> (length (b_in (r_bits r)) < fuel)%nat ->
  fspec r (read_import api_next fuel r) (gpost r).
Proof.
  intros Gr Nc Hf. pose proof (RInv_avail r (G_RInv r Gr)) as A. unfold read_import.
  destruct (negb (r_type r =? TStruct) || r_is_null r);
    [split; [apply wle_refl; exact A|split; [exact Gr|reflexivity]]|].
  match goal with |- fspec r ?X _ =>
    assert (H : fspec r X (fun r' _ => G r' /\ r_ctx r' = r_ctx r /\ r_value r' = RNil /\ r_eof r' = false)) end.
  { apply (bracket fuel r (fun r => read_import_loop api_next fuel r {| id_name := []; id_version := (-1)%Z; id_maxid := (-1)%Z |})
                   (fun r d => if list_eqb (id_name d) [] || list_eqb (id_name d) (s "$ion"%string) then (r, Ok None)
                               else if (id_maxid d <? 0)%Z then (r, Err)
                               else (r, Ok (Some {| im_syms := []; im_maxid := Z.to_N (id_maxid d) |})))); auto.
    - intros r1 Ri1 Nc1 Hf1. apply read_import_loop_spec; assumption.
    - intros r3 d G3 _ _. pose proof (RInv_avail r3 (G_RInv r3 G3)) as A3.
      destruct (_ || _)%bool; [split; [apply wle_refl; exact A3|reflexivity]|].
      destruct (_ <? _)%Z; split; try (apply wle_refl; exact A3); [exact Logic.I|reflexivity]. }
  destruct H as [W P]. split; [exact W|]. destruct (snd _); try exact P. destruct P as (P1 & P2 & _). split; assumption.
Qed.

Lemma read_imports_loop_spec fuel : forall r acc, RInv r -> r_ctx r <> [] ->
  (length (b_in (r_bits r)) < fuel)%nat ->
  fspec r (read_imports_loop api_next fuel r acc) (lpost r).
Proof.
  induction fuel as [|f IH]; intros r acc Ri Nc Hf; [lia|]. cbn [read_imports_loop].
  pose proof (RInv_avail r Ri) as A. destruct (Hapi r Ri Nc) as (W & P).
  destruct (api_next r) as [r1 [[|]| | |]]; cbn [fst snd] in *; try contradiction.
  2:{ split; [exact W|]. cbn [snd fst]. exact P. }
  destruct P as (G1 & Ec & Av). pose proof (G_RInv r1 G1) as Ri1. pose proof (RInv_avail _ Ri1) as A1.
  apply (fspec_step r r1); [exact A|exact W|].
  pose proof (len_lt _ _ A A1 Av) as Hl1.
  assert (Nc1 : r_ctx r1 <> []) by congruence.
  assert (Hf1 : (length (b_in (r_bits r1)) < S f)%nat) by lia.
  destruct (read_import_spec (S f) r1 G1 Nc1 Hf1) as [W2 P2].
  destruct (read_import api_next (S f) r1) as [r2 [oi| | |]]; cbn [fst snd] in *; try contradiction;
    [|split; [exact W2|exact Logic.I]].
  destruct P2 as [G2 Ec2]. pose proof (G_RInv r2 G2) as Ri2.
  apply (fspec_step r1 r2); [exact A1|exact W2|].
  assert (K : forall acc', fspec r2 (read_imports_loop api_next f r2 acc') (lpost r)).
  { intros acc'. assert (H1 : fspec r2 (read_imports_loop api_next f r2 acc') (lpost r2)).
    { apply IH; [exact Ri2|congruence|]. pose proof (wle_len _ _ W2). lia. }
    destruct H1 as [W3 P3]. split; [exact W3|].
    destruct (snd (read_imports_loop api_next f r2 acc')); try exact P3. destruct P3 as [Q1 Q2]. split; [exact Q1|intros Hq; rewrite (Q2 Hq); congruence]. }
  destruct oi; apply K.
Qed.

Lemma val_sym_type r : good r -> (r_type r =? TSymbol) = true ->
  r_value r = RNil \/ exists t, r_value r = RSymbol t.
Proof. intros [_ _ _ _ Hv _] E. apply N.eqb_eq in E. rewrite E in Hv. apply val_sym. exact Hv. Qed.

Lemma read_imports_spec fuel r : G r -> r_ctx r <> [] -> (length (b_in (r_bits r)) < fuel)%nat ->
  fspec r (read_imports api_next fuel r) (gpost r).
Proof.
  intros Gr Nc Hf. pose proof (RInv_avail r (G_RInv r Gr)) as A. pose proof Gr as [Hg He]. unfold read_imports.
  assert (Same : forall (l : list imp), fspec r (r, Ok l) (gpost r)).
  { intros l. split; [apply wle_refl; exact A|split; [exact Gr|reflexivity]]. }
  assert (Rest : fspec r (if negb (r_type r =? TList) || r_is_null r then (r, Ok []) else
    match r_step_in r with
    | (r, Ok true) =>
      match read_imports_loop api_next fuel r [] with
      | (r, Ok imps) =>
        match r_step_out r with
        | (r, Ok true) => (r, Ok imps)
        | (r, Ok false) => (r, Err)
        | (r, x) => (r, match x with Panic => Panic | OutOfFuel => OutOfFuel | _ => Err end)
        end
      | (r, x) => (r, x)
      end
    | (r, Ok false) => (r, Err)
    | (r, x) => (r, match x with Panic => Panic | OutOfFuel => OutOfFuel | _ => Err end)
    end) (gpost r)).
  { destruct (negb (r_type r =? TList) || r_is_null r); [apply Same|].
    assert (H : fspec r (match r_step_in r with
      | (r, Ok true) =>
        match read_imports_loop api_next fuel r [] with
        | (r, Ok a) =>
          match r_step_out r with
          | (r, Ok true) => (fun r a => (r, Ok a)) r a
          | (r, Ok false) => (r, Err)
          | (r, x) => (r, match x with Panic => Panic | OutOfFuel => OutOfFuel | _ => Err end)
          end
        | (r, x) => (r, match x with Ok _ => Err | Err => Err | Panic => Panic | OutOfFuel => OutOfFuel end)
        end
      | (r, Ok false) => (r, Err)
      | (r, x) => (r, match x with Panic => Panic | OutOfFuel => OutOfFuel | _ => Err end)
      end) (fun r' (_ : list imp) => G r' /\ r_ctx r' = r_ctx r /\ r_value r' = RNil /\ r_eof r' = false)).
    { apply (bracket fuel r (fun r => read_imports_loop api_next fuel r [])); auto.
      - intros r1 Ri1 Nc1 Hf1. apply read_imports_loop_spec; assumption.
      - intros r3 a G3 _ _. split; [apply wle_refl; apply RInv_avail; apply G_RInv; exact G3|reflexivity]. }
    cbv beta in H.
    destruct (r_step_in r) as [r1 [[|]| | |]]; try exact (conj (proj1 H) (proj2 H));
      try (destruct H as [W P]; split; [exact W|exact P]).
    destruct (read_imports_loop api_next fuel r1 []) as [r2 [a| | |]].
    - destruct (r_step_out r2) as [r3 [[|]| | |]]; destruct H as [W P]; split; try exact W; try exact P.
      cbn [snd fst] in *. destruct P as (P1 & P2 & _). split; assumption.
    - exact H.
    - exact H.
    - exact H. }
  destruct (r_type r =? TSymbol) eqn:Ety; [|exact Rest].
  rewrite He. destruct (val_sym_type r Hg Ety) as [Ev|[t Ev]]; rewrite Ev; [exact Rest|].
  destruct ((tk_sid t =? 3)%Z || _)%bool; [|exact Rest].
  destruct (r_lst r) as [[|t0]|]; apply Same.
Qed.

Lemma read_lst_loop_spec fuel : forall r imps syms fi fs, RInv r -> r_ctx r <> [] ->
  (length (b_in (r_bits r)) < fuel)%nat ->
  fspec r (read_lst_loop api_next fuel r imps syms fi fs) (lpost r).
Proof.
  induction fuel as [|f IH]; intros r imps syms fi fs Ri Nc Hf; [lia|]. cbn [read_lst_loop].
  pose proof (RInv_avail r Ri) as A. destruct (Hapi r Ri Nc) as (W & P).
  destruct (api_next r) as [r1 [[|]| | |]]; cbn [fst snd] in *; try contradiction.
  2:{ split; [exact W|]. cbn [snd fst]. exact P. }
  destruct P as (G1 & Ec & Av). pose proof (G_RInv r1 G1) as Ri1. pose proof (RInv_avail _ Ri1) as A1.
  apply (fspec_step r r1); [exact A|exact W|].
  pose proof (len_lt _ _ A A1 Av) as Hl1.
  assert (Nc1 : r_ctx r1 <> []) by congruence.
  assert (Hf1 : (length (b_in (r_bits r1)) < S f)%nat) by lia.
  assert (K : forall r2 imps' syms' fi' fs', G r2 -> r_ctx r2 = r_ctx r1 -> wle (r_bits r1) (r_bits r2) ->
            fspec r2 (read_lst_loop api_next f r2 imps' syms' fi' fs') (lpost r)).
  { intros r2 imps' syms' fi' fs' G2 Ec2 W2.
    assert (H1 : fspec r2 (read_lst_loop api_next f r2 imps' syms' fi' fs') (lpost r2)).
    { apply IH; [apply G_RInv; exact G2|congruence|]. pose proof (wle_len _ _ W2). lia. }
    destruct H1 as [W3 P3]. split; [exact W3|].
    destruct (snd (read_lst_loop api_next f r2 imps' syms' fi' fs')); try exact P3.
    destruct P3 as [Q1 Q2]. split; [exact Q1|intros Hq; rewrite (Q2 Hq); congruence]. }
  pose proof G1 as [Hg1 He1]. rewrite He1.
  destruct (field_text r1) as [fnm|]; [|err_here A1].
  destruct (list_eqb fnm (s "symbols")).
  { destruct fs; [err_here A1|].
    destruct (read_symbols_spec (S f) r1 G1 Nc1 Hf1) as [W2 P2].
    destruct (read_symbols api_next (S f) r1) as [r2 [sy| | |]]; cbn [fst snd] in *; try contradiction;
      [|split; [exact W2|exact Logic.I]].
    destruct P2 as [G2 Ec2]. apply (fspec_step r1 r2); [exact A1|exact W2|]. apply K; assumption. }
  destruct (list_eqb fnm (s "imports")).
  { destruct fi; [err_here A1|].
    destruct (read_imports_spec (S f) r1 G1 Nc1 Hf1) as [W2 P2].
    destruct (read_imports api_next (S f) r1) as [r2 [im| | |]]; cbn [fst snd] in *; try contradiction;
      [|split; [exact W2|exact Logic.I]].
    destruct P2 as [G2 Ec2]. apply (fspec_step r1 r2); [exact A1|exact W2|]. apply K; assumption. }
  apply K; [exact G1|reflexivity|apply wle_refl; exact A1].
Qed.

Lemma read_local_symbol_table_spec fuel r : G r -> (length (b_in (r_bits r)) < fuel)%nat ->
  fspec r (read_local_symbol_table api_next fuel r)
        (fun r' _ => G r' /\ r_ctx r' = r_ctx r /\ r_value r' = RNil /\ r_eof r' = false).
Proof.
  intros Gr Hf. unfold read_local_symbol_table.
  set (k := fun (r : rstate) (a : list imp * list text) =>
        (r, Ok (LTab {| lt_imps := process_imports (fst a)
                          match fst a with i :: _ => list_eqb (hd [] (im_syms i)) (s "$ion"%string) && (im_maxid i =? 9) | [] => false end;
                        lt_locals := snd a |}))).
  match goal with |- fspec r ?X ?P =>
    assert (E : X = match r_step_in r with
           | (r, Ok true) =>
             match read_lst_loop api_next fuel r [] [] false false with
             | (r, Ok a) =>
               match r_step_out r with
               | (r, Ok true) => k r a
               | (r, Ok false) => (r, Err)
               | (r, x) => (r, match x with Panic => Panic | OutOfFuel => OutOfFuel | _ => Err end)
               end
             | (r, x) => (r, match x with Ok _ => Err | Err => Err | Panic => Panic | OutOfFuel => OutOfFuel end)
             end
           | (r, Ok false) => (r, Err)
           | (r, x) => (r, match x with Panic => Panic | OutOfFuel => OutOfFuel | _ => Err end)
           end) end.
  { destruct (r_step_in r) as [r1 [[|]| | |]]; try reflexivity.
    destruct (read_lst_loop api_next fuel r1 [] [] false false) as [r2 [[imps syms]| | |]]; reflexivity. }
  rewrite E.
  apply (bracket fuel r (fun r => read_lst_loop api_next fuel r [] [] false false) k); auto.
  - intros r1 Ri1 Nc1 Hf1. apply read_lst_loop_spec; assumption.
  - intros r3 a G3 _ _. split; [apply wle_refl; apply RInv_avail; apply G_RInv; exact G3|reflexivity].
Qed.
End Lst.

(* ---- binaryReader.next(): one raw item ------------------------------------------------------------------ *)
Definition rawpost (r r' : rstate) (done : bool) : Prop :=
  good r' /\ r_err r' = r_err r /\ r_ctx r' = r_ctx r /\
  b_avail (r_bits r') <= b_avail (r_bits r) /\
  (done = false -> r_value r' = RNil /\ b_avail (r_bits r') < b_avail (r_bits r) /\ r_eof r' = false) /\
  (done = true -> r_eof r' = true \/ (b_avail (r_bits r') < b_avail (r_bits r) /\ r_eof r' = r_eof r)).

Lemma scalar_branch {V} r b (bx : bres V) T (mk : V -> rvalue) :
  good r -> r_lst r <> None -> b_stack b = b_stack (r_bits r) -> b_avail b < b_avail (r_bits r) ->
  wle (r_bits r) b -> avail_ok (r_bits r) ->
  ospec b bx (fun b' _ => vpost b b') -> (forall v, val_ok T (mk v)) -> (forall v, mk v <> RContainer) ->
  fspec r (match lift (rs_val (rs_bits r b) T RNil) bx with
           | (r, Ok v) => (rs_val r T (mk v), Ok true)
           | (r, x) => (r, match x with Ok _ => Err | Err => Err | Panic => Panic | OutOfFuel => OutOfFuel end)
           end) (rawpost r).
Proof.
  intros Hg Hl Sk Av W A [(W1 & Np & Post) Of] Hv Hnc. unfold lift.
  destruct bx as [b' [v| | |]]; cbn [fst snd] in *; try tauto.
  2:{ split; [rsimpl; eapply wle_trans; eauto|exact Logic.I]. }
  destruct (Post v eq_refl) as ((Ib & _) & Q & Sk' & Av').
  split; [rsimpl; eapply wle_trans; eauto|]. cbn [snd fst]. unfold rawpost. rsimpl.
  destruct Hg as [Hb Hd Hc _ _ _].
  split; [|split; [reflexivity|split; [reflexivity|split; [lia|split; [discriminate|intros _; right; split; [lia|reflexivity]]]]]].
  constructor; rsimpl; auto.
  - congruence.
  - intros E. exfalso. exact (Hnc v E).
Qed.

Lemma b_next_first rest io :
  b_code (fst (b_next (b_init (224 :: rest) io))) = bcBVM.
Proof. reflexivity. Qed.

Lemma binv_init inp io : binv (b_init inp io).
Proof.
  unfold b_init, binv, bcore, wk, avail_ok, read_chunk_size. bsimpl. cbn [stk_ok length].
  unfold bssBeforeValue, bssOnValue, two64.
  split; [|split; [intros E; discriminate E|reflexivity]].
  split; [split; [reflexivity|split; lia]|]. split; [lia|]. split; [lia|exact I].
Qed.

Lemma good_mk r' r b t v : good r -> r_bits r' = b -> r_ctx r' = r_ctx r -> r_type r' = t -> r_value r' = v ->
  binv b -> b_stack b = b_stack (r_bits r) -> r_lst r' <> None -> val_ok t v ->
  (v = RContainer -> b_state b = bssOnValue /\ b_code b = code_of_type t) -> good r'.
Proof.
  intros [Hb Hd Hc _ _ _] E1 E2 E3 E4 Ib Sk Hl Hv Hk. constructor.
  - rewrite E1. exact Ib.
  - rewrite E1, E2, Sk. exact Hd.
  - rewrite E2. exact Hc.
  - left. exact Hl.
  - rewrite E3, E4. exact Hv.
  - rewrite E1, E3, E4. exact Hk.
Qed.

Ltac arith_only := repeat match goal with
  | H : ?T |- _ => lazymatch T with
      | (_ <= _) => fail | (_ < _) => fail | (_ <= _)%nat => fail | (_ < _)%nat => fail
      | @eq N _ _ => fail | @eq nat _ _ => fail | _ => clear H end end.
Ltac clia := arith_only; lia.

Definition hid (P : Prop) : Prop := P.
Ltac hide E := match type of E with ?T => change (hid T) in E end.

Definition code_disp (c : N) : bool :=
  (c =? bcEOF) || (c =? bcBVM) || (c =? bcFieldID) || (c =? bcAnnotation) || (c =? bcNull) ||
  ((c =? bcFalse) || (c =? bcTrue)) || ((c =? bcInt) || (c =? bcNegInt)) || (c =? bcFloat) || (c =? bcDecimal) ||
  (c =? bcTimestamp) || (c =? bcSymbol) || (c =? bcString) || ((c =? bcClob) || (c =? bcBlob)) ||
  ((c =? bcList) || (c =? bcSexp)) || (c =? bcStruct).
Lemma code_cover c : 1 <= c <= 19 -> code_disp c = true.
Proof.
  intros H. assert (Hin : In c (map N.of_nat (seq 1 19))).
  { rewrite <- (N2Nat.id c). apply in_map. apply in_seq. lia. }
  clear H. revert c Hin. apply Forall_forall. repeat constructor.
Qed.

Section Raw.
Variable ts : list N -> res unit.
Hypothesis Hts : forall bs, ts bs <> Panic /\ ts bs <> OutOfFuel.
Variable api_next : rstate -> rstate * res bool.

Ltac gd Hg El Ev0 :=
  lazymatch goal with |- good ?R => eapply (good_mk R) end;
  [exact Hg|reflexivity|reflexivity|reflexivity|reflexivity
  |rsimpl; eassumption
  |rsimpl; first [assumption|etransitivity; eassumption]
  |rsimpl; try discriminate; try (rewrite El; discriminate); try assumption
  |rsimpl; try exact Logic.I; try assumption; try (cbn [val_ok]; auto)
  |rsimpl; try (rewrite Ev0); try (intros Q; discriminate Q)].

Lemma r_next_raw_spec fuel r : G r -> r_value r = RNil -> r_eof r = false ->
  (length (b_in (r_bits r)) < fuel)%nat ->
  (r_ctx r = [] -> forall r', RInv r' -> r_ctx r' <> [] -> api_post r' (api_next r')) ->
  fspec r (r_next_raw ts api_next fuel r) (rawpost r).
Proof.
  intros Gr Ev0 Ee0 Hf Hapi. pose proof Gr as [Hg He]. pose proof (RInv_avail r (G_RInv r Gr)) as A.
  pose proof Hg as [Hb Hd Hc Hl Hv Hk].
  unfold r_next_raw. destruct (b_next_spec (r_bits r) Hb) as [(W & Np & Post) Of].
  pose proof (b_next_first) as Hfirst.
  destruct (b_next (r_bits r)) as [b [u| | |]] eqn:En; cbn [fst snd] in *; try tauto.
  2:{ split; [rsimpl; exact W|exact Logic.I]. }
  destruct (Post u eq_refl) as (Ob & Sk & Av & Hrange & Hfid & Hbvm & Hval). destruct Ob as (Ib & _).
  assert (Hlb : r_lst r <> None \/ b_code b = bcBVM).
  { destruct Hl as [Hl|(rest & io & Hl)]; [left; exact Hl|right]. rewrite Hl in En. specialize (Hfirst rest io).
    rewrite En in Hfirst. exact Hfirst. }
  clear En Hfirst.
  assert (Hln : b_code b <> bcBVM -> r_lst r <> None) by (destruct Hlb; [auto|contradiction]).
  cbv zeta.
  (* EOF *)
  destruct (b_code b =? bcEOF) eqn:E1.
  { apply N.eqb_eq in E1. assert (Hn : r_lst r <> None) by (apply Hln; rewrite E1; discriminate).
    split; [rsimpl; exact W|]. cbn [snd fst]. unfold rawpost. rsimpl.
    split; [gd Hg El Ev0|].
    split; [reflexivity|split; [reflexivity|split; [exact Av|split; [discriminate|intros _; left; reflexivity]]]]. }
  (* BVM *)
  destruct (b_code b =? bcBVM) eqn:E2.
  { apply N.eqb_eq in E2. destruct (b_read_bvm_spec b Ib E2 (Hbvm E2)) as [(W1 & Np1 & Post1) Of1].
    unfold lift. destruct (b_read_bvm b) as [b2 [[major minor]| | |]]; cbn [fst snd] in *; try tauto.
    2:{ split; [rsimpl; eapply wle_trans; eauto|exact Logic.I]. }
    destruct (Post1 (major, minor) eq_refl) as (((Ib2 & _) & Q2 & Sk2 & Av2) & Avs).
    destruct ((major =? 1) && (minor =? 0)); [|split; [rsimpl; eapply wle_trans; eauto|exact Logic.I]].
    split; [rsimpl; eapply wle_trans; eauto|]. cbn [snd fst]. unfold rawpost. rsimpl.
    split; [gd Hg El Ev0|].
    split; [reflexivity|split; [reflexivity|split; [clia|split; [intros _; split; [exact Ev0|split; [clia|exact Ee0]]|discriminate]]]]. }
  assert (Hn : r_lst r <> None) by (apply Hln; apply N.eqb_neq; exact E2).
  destruct (r_lst r) as [l|] eqn:El; [clear Hn|contradiction].
  (* FieldID *)
  destruct (b_code b =? bcFieldID) eqn:E3.
  { apply N.eqb_eq in E3. destruct (b_read_field_id_spec b Ib E3 (Hfid E3)) as [(W1 & Np1 & Post1) Of1].
    unfold lift. destruct (b_read_field_id b) as [b2 [id| | |]]; cbn [fst snd] in *; try tauto.
    2:{ split; [rsimpl; eapply wle_trans; eauto|exact Logic.I]. }
    destruct (Post1 id eq_refl) as (((Ib2 & _) & Q2 & Sk2 & Av2) & Avs).
    unfold cur_lst. rsimpl. rewrite El.
    destruct (tok_by_sid l id); [|split; [rsimpl; eapply wle_trans; eauto|exact Logic.I]].
    split; [rsimpl; eapply wle_trans; eauto|]. cbn [snd fst]. unfold rawpost. rsimpl.
    split; [gd Hg El Ev0|].
    split; [reflexivity|split; [reflexivity|split; [clia|split; [intros _; split; [exact Ev0|split; [clia|exact Ee0]]|discriminate]]]]. }
  assert (Hval' : b_state b = bssOnValue /\ b_avail b < b_avail (r_bits r)).
  { apply Hval; apply N.eqb_neq; assumption. }
  destruct Hval' as [Evb Avb]. hide E1. hide E2. hide E3.
  (* Annotation *)
  destruct (b_code b =? bcAnnotation) eqn:E4; [|hide E4].
  { apply N.eqb_eq in E4. unfold cur_lst. rsimpl. rewrite El.
    destruct (b_read_annotations_spec b (sid_ok l) Ib Evb E4) as [(W1 & Np1 & Post1) Of1].
    unfold lift. destruct (b_read_annotations b (sid_ok l)) as [b2 [ids| | |]]; cbn [fst snd] in *; try tauto.
    2:{ split; [rsimpl; eapply wle_trans; eauto|exact Logic.I]. }
    destruct (Post1 ids eq_refl) as (((Ib2 & _) & Q2 & Sk2 & Av2) & Avs).
    split; [rsimpl; eapply wle_trans; eauto|]. cbn [snd fst]. unfold rawpost. rsimpl.
    split; [gd Hg El Ev0|].
    split; [reflexivity|split; [reflexivity|split; [clia|split; [intros _; split; [exact Ev0|split; [clia|exact Ee0]]|discriminate]]]]. }
  assert (Hln' : r_lst (rs_bits r b) <> None) by (rsimpl; rewrite El; discriminate).
  assert (Kt : forall t v, val_ok t v -> (v = RContainer -> b_code b = code_of_type t) ->
               fspec r (rs_val (rs_bits r b) t v, Ok true) (rawpost r)).
  { intros t v Hvt Hct. split; [rsimpl; exact W|]. cbn [snd fst]. unfold rawpost. rsimpl.
    split; [gd Hg El Ev0; intros Ec; split; [exact Evb|exact (Hct Ec)]|].
    split; [reflexivity|split; [reflexivity|split; [clia|split; [discriminate|intros _; right; split; [exact Avb|reflexivity]]]]]. }
  assert (Hg' : good r) by exact Hg.
  assert (Hlr : r_lst r <> None) by (rewrite El; discriminate).
  (* Null / NOP *)
  destruct (b_code b =? bcNull) eqn:E5; [|hide E5].
  { destruct (negb (b_null b)); [|apply Kt; [exact Logic.I|discriminate]].
    destruct (b_skip_value_spec b Ib) as [(W1 & Np1 & Post1) Of1].
    unfold lift. destruct (b_skip_value b) as [b2 [u2| | |]]; cbn [fst snd] in *; try tauto.
    2:{ split; [rsimpl; eapply wle_trans; eauto|exact Logic.I]. }
    destruct (Post1 u2 eq_refl) as ((Ib2 & _) & Q2 & Sk2 & Av2).
    split; [rsimpl; eapply wle_trans; eauto|]. cbn [snd fst]. unfold rawpost. rsimpl.
    split; [gd Hg El Ev0|].
    split; [reflexivity|split; [reflexivity|split; [clia|split; [intros _; split; [exact Ev0|split; [clia|exact Ee0]]|discriminate]]]]. }
  (* Bool *)
  destruct ((b_code b =? bcFalse) || (b_code b =? bcTrue)) eqn:E6; [|hide E6].
  { apply Kt; [destruct (b_null b); [exact Logic.I|reflexivity]|destruct (b_null b); discriminate]. }
  (* Int *)
  destruct ((b_code b =? bcInt) || (b_code b =? bcNegInt)) eqn:E7; [|hide E7].
  { destruct (b_null b); [apply Kt; [exact Logic.I|discriminate]|].
    apply (scalar_branch r b (b_read_int b) TInt RInt); auto; try discriminate; try (intros v0; reflexivity).
    apply b_read_int_spec; [exact Ib|exact Evb|clear - E7; unfold hid in *; lia]. }
  destruct (b_code b =? bcFloat) eqn:E8; [|hide E8].
  { destruct (b_null b); [apply Kt; [exact Logic.I|discriminate]|].
    apply (scalar_branch r b (b_read_float b) TFloat RFloat); auto; try discriminate; try (intros v0; reflexivity).
    apply b_read_float_spec; [exact Ib|exact Evb|clear - E8; unfold hid in *; lia]. }
  destruct (b_code b =? bcDecimal) eqn:E9; [|hide E9].
  { destruct (b_null b); [apply Kt; [exact Logic.I|discriminate]|].
    apply (scalar_branch r b (b_read_decimal b) TDecimal RDecimal); auto; try discriminate; try (intros v0; reflexivity).
    apply b_read_decimal_spec; [exact Ib|exact Evb|clear - E9; unfold hid in *; lia]. }
  destruct (b_code b =? bcTimestamp) eqn:E10; [|hide E10].
  { destruct (b_null b); [apply Kt; [exact Logic.I|discriminate]|].
    apply (scalar_branch r b (b_read_timestamp b ts) TTimestamp RTimestamp); auto; try discriminate; try (intros v0; reflexivity).
    apply b_read_timestamp_spec; [exact Hts|exact Ib|exact Evb|clear - E10; unfold hid in *; lia]. }
  (* Symbol *)
  destruct (b_code b =? bcSymbol) eqn:E11; [|hide E11].
  { destruct (b_null b); [apply Kt; [exact Logic.I|discriminate]|].
    assert (Ecs : b_code b = bcSymbol) by (clear - E11; unfold hid in *; lia).
    destruct (b_read_symbol_id_spec b Ib Evb Ecs) as [(W1 & Np1 & Post1) Of1].
    unfold lift. destruct (b_read_symbol_id b) as [b2 [id| | |]]; cbn [fst snd] in *; try tauto.
    2:{ split; [rsimpl; eapply wle_trans; eauto|exact Logic.I]. }
    destruct (Post1 id eq_refl) as ((Ib2 & _) & Q2 & Sk2 & Av2).
    unfold cur_lst. rsimpl. rewrite El.
    destruct (tok_by_sid l id) as [t|]; [|split; [rsimpl; eapply wle_trans; eauto|exact Logic.I]].
    split; [rsimpl; eapply wle_trans; eauto|]. cbn [snd fst]. unfold rawpost. rsimpl.
    split; [gd Hg El Ev0|].
    split; [reflexivity|split; [reflexivity|split; [clia|split; [discriminate|intros _; right; split; [clia|reflexivity]]]]]. }
  destruct (b_code b =? bcString) eqn:E12; [|hide E12].
  { destruct (b_null b); [apply Kt; [exact Logic.I|discriminate]|].
    apply (scalar_branch r b (b_read_string b) TString RString); auto; try discriminate; try (intros v0; reflexivity).
    apply b_read_string_spec; [exact Ib|exact Evb|clear - E12; unfold hid in *; lia]. }
  destruct ((b_code b =? bcClob) || (b_code b =? bcBlob)) eqn:E13; [|hide E13].
  { destruct (b_null b); [apply Kt; [exact Logic.I|discriminate]|].
    apply (scalar_branch r b (b_read_bytes b) (if b_code b =? bcClob then TClob else TBlob) RBytes); auto; try discriminate.
    - apply b_read_bytes_spec; [exact Ib|exact Evb|clear - E13; unfold hid in *; lia].
    - intros v. cbn [val_ok]. destruct (b_code b =? bcClob); auto. }
  (* List / Sexp *)
  destruct ((b_code b =? bcList) || (b_code b =? bcSexp)) eqn:E14; [|hide E14].
  { apply Kt.
    - destruct (b_null b); [exact Logic.I|]. cbn [val_ok]. unfold ty_of_code.
      destruct (b_code b =? bcList); [auto|]. destruct (b_code b =? bcSexp); auto.
    - intros _. unfold ty_of_code, code_of_type.
      destruct (b_code b =? bcList) eqn:Ea; [apply N.eqb_eq in Ea; rewrite Ea; reflexivity|].
      destruct (b_code b =? bcSexp) eqn:Eb; [apply N.eqb_eq in Eb; rewrite Eb; reflexivity|]. discriminate. }
  (* Struct *)
  destruct (b_code b =? bcStruct) eqn:E15; [|hide E15].
  { assert (Ecs : b_code b = bcStruct) by (clear - E15; unfold hid in *; lia).
    assert (Ktv : fspec r (rs_val (rs_bits r b) TStruct (if b_null b then RNil else RContainer), Ok true) (rawpost r)).
    { apply Kt; [destruct (b_null b); [exact Logic.I|cbn [val_ok]; auto]|intros _; exact Ecs]. }
    match goal with |- context [if ?c then _ else _] => destruct c eqn:Elst end; [|exact Ktv].
    apply andb_prop in Elst. destruct Elst as [Epk _].
    assert (Ectx : r_ctx r = []) by (apply (peek_z (rs_val (rs_bits r b) TStruct (if b_null b then RNil else RContainer))); rsimpl; assumption).
    destruct (r_is_null (rs_val (rs_bits r b) TStruct (if b_null b then RNil else RContainer))) eqn:Enl.
    { split; [rsimpl; exact W|]. cbn [snd fst]. unfold rawpost. rsimpl.
      split; [gd Hg El Ev0|].
      split; [reflexivity|split; [reflexivity|split; [clia|split; [intros _; split; [reflexivity|split; [clia|exact Ee0]]|discriminate]]]]. }
    assert (Enb : b_null b = false).
    { destruct (b_null b); [|reflexivity]. unfold r_is_null in Enl. rsimpl. discriminate. }
    rewrite Enb in *.
    set (r2 := rs_val (rs_bits r b) TStruct RContainer) in *.
    assert (G2 : G r2).
    { split; [|exact He]. subst r2. gd Hg El Ev0. intros _. split; [exact Evb|exact Ecs]. }
    assert (Hf2 : (length (b_in (r_bits r2)) < fuel)%nat) by (subst r2; rsimpl; pose proof (wle_len _ _ W); clia).
    destruct (read_local_symbol_table_spec api_next (Hapi Ectx) fuel r2 G2 Hf2) as [W2 P2].
    destruct (read_local_symbol_table api_next fuel r2) as [r3 [st| | |]]; cbn [fst snd] in *; try contradiction.
    2:{ split; [eapply wle_trans; [exact A|exact W|exact W2]|exact Logic.I]. }
    destruct P2 as ((Hg3 & He3) & Ec3 & Ev3 & Ee3).
    split; [rsimpl; eapply wle_trans; [exact A|exact W|exact W2]|]. cbn [snd fst]. unfold rawpost. rsimpl.
    pose proof (wle_len _ _ W2) as L3. pose proof (wle_avail _ _ W2) as A3. pose proof (wle_avail _ _ W) as Ab.
    assert (Av3 : b_avail (r_bits r3) <= b_avail b) by (unfold avail_ok in *; subst r2; rsimpl; clia).
    destruct Hg3 as [Hb3 Hd3 Hc3 Hl3 Hv3 Hk3].
    split; [constructor; rsimpl; auto; left; discriminate|].
    split; [rewrite He3, He; reflexivity|split; [exact Ec3|split; [clia|split; [intros _; split; [exact Ev3|split; [clia|exact Ee3]]|discriminate]]]]. }
  exfalso. unfold hid in *. pose proof (code_cover _ Hrange) as Hcc. unfold code_disp in Hcc.
  rewrite E1, E2, E3, E4, E5, E6, E7, E8, E9, E10, E11, E12, E13, E14, E15 in Hcc. discriminate Hcc.
Qed.
End Raw.

Lemma b_step_in_res b : snd (b_step_in b) = Ok tt \/ snd (b_step_in b) = Panic.
Proof.
  unfold b_step_in. destruct (b_code b =? bcStruct); [left; reflexivity|].
  destruct ((b_code b =? bcList) || (b_code b =? bcSexp)); [left|right]; reflexivity.
Qed.

(* ---- Next --------------------------------------------------------------------------------------------------- *)
Section Next.
Variable ts : list N -> res unit.
Hypothesis Hts : forall bs, ts bs <> Panic /\ ts bs <> OutOfFuel.

Definition api_ok (api : rstate -> rstate * res bool) : Prop :=
  forall r', RInv r' -> r_ctx r' <> [] -> api_post r' (api r').

Lemma r_next_loop_spec api k : forall fuel r, G r -> r_value r = RNil -> r_eof r = false ->
  (length (b_in (r_bits r)) < k)%nat -> (length (b_in (r_bits r)) < fuel)%nat ->
  (r_ctx r = [] -> api_ok api) ->
  api_post r (r_next_loop ts api k fuel r).
Proof.
  induction k as [|k IH]; intros fuel r Gr Ev Ee Hk Hf Hapi; [lia|]. cbn [r_next_loop].
  pose proof (RInv_avail r (G_RInv r Gr)) as A. pose proof Gr as [Hg He].
  destruct (r_next_raw_spec ts Hts api fuel r Gr Ev Ee Hf Hapi) as [W P].
  destruct (r_next_raw ts api fuel r) as [r1 [[|]| | |]]; cbn [fst snd] in *; try contradiction.
  - destruct P as (Hg1 & He1 & Ec1 & Av1 & _ & Pt). specialize (Pt eq_refl).
    split; [exact W|]. cbn [snd fst]. destruct (r_eof r1) eqn:Ee1; cbn [negb].
    + split; [apply G_RInv; split; [exact Hg1|congruence]|intros _; exact Ec1].
    + destruct Pt as [Pt|[Pt _]]; [discriminate|]. split; [split; [exact Hg1|congruence]|]. split; assumption.
  - destruct P as (Hg1 & He1 & Ec1 & Av1 & Pf & _). destruct (Pf eq_refl) as (Ev1 & Avs & Ee1).
    assert (G1 : G r1) by (split; [exact Hg1|congruence]).
    pose proof (RInv_avail r1 (G_RInv r1 G1)) as A1. pose proof (len_lt _ _ A A1 Avs) as Hl.
    assert (Hapi1 : r_ctx r1 = [] -> api_ok api) by (intros Hq; apply Hapi; congruence).
    assert (Hk1 : (length (b_in (r_bits r1)) < k)%nat) by lia.
    assert (Hf1 : (length (b_in (r_bits r1)) < fuel)%nat) by lia.
    destruct (IH fuel r1 G1 Ev1 Ee1 Hk1 Hf1 Hapi1) as [W2 P2].
    split; [eapply wle_trans; eauto|].
    destruct (snd (r_next_loop ts api k fuel r1)) as [[|]| | |]; try exact P2.
    + destruct P2 as (Q1 & Q2 & Q3). split; [exact Q1|]. split; [congruence|lia].
    + destruct P2 as (Q1 & Q2). split; [exact Q1|]. intros Hq. rewrite (Q2 Hq). exact Ec1.
  - split; [rsimpl; exact W|]. cbn [snd fst]. split; [|rsimpl; discriminate].
    split; [rsimpl; eapply wk_wle; [apply good_wk; exact Hg|exact W]|left; reflexivity].
Qed.

Lemma r_next_with_spec api fuel r : RInv r -> (length (b_in (r_bits r)) < fuel)%nat ->
  (r_ctx r = [] -> api_ok api) -> api_post r (r_next_with ts api fuel r).
Proof.
  intros Ri Hf Hapi. pose proof (RInv_avail r Ri) as A. unfold r_next_with.
  destruct (r_eof r || r_err r) eqn:E.
  { split; [apply wle_refl; exact A|]. cbn [snd fst]. split; [exact Ri|reflexivity]. }
  apply orb_false_elim in E. destruct E as [Ee He]. destruct Ri as [Wk [Hg|Hg]]; [congruence|].
  assert (Gc : G (r_clear r)) by (split; [apply good_clear; exact Hg|exact He]).
  destruct (r_next_loop_spec api fuel fuel (r_clear r) Gc eq_refl Ee Hf Hf Hapi) as [W P].
  split; [exact W|exact P].
Qed.

(* the Next that readLocalSymbolTable calls: never at top level, so its own Next is never needed *)
Lemma r_next_inner_ok : api_ok (r_next_inner ts).
Proof.
  intros r Ri Nc. unfold r_next_inner, input_fuel. apply r_next_with_spec; [exact Ri| |contradiction].
  destruct Ri as ((_ & Fu & _) & _). lia.
Qed.

Theorem r_next_spec r : RInv r -> api_post r (r_next ts r).
Proof.
  intros Ri. unfold r_next, input_fuel. apply r_next_with_spec; [exact Ri| |intros _; exact r_next_inner_ok].
  destruct Ri as ((_ & Fu & _) & _). lia.
Qed.

(* ---- every API call ------------------------------------------------------------------------------------------ *)
Lemma api_post_RInv r y : RInv r -> api_post r y -> RInv (fst y) /\ exists v, snd y = Ok v.
Proof.
  intros Ri [W P]. destruct (snd y) as [[|]| | |]; try contradiction.
  - destruct P as (G1 & _). split; [apply G_RInv; exact G1|eauto].
  - destruct P as (R1 & _). split; [exact R1|eauto].
Qed.

Theorem r_op_safe r o : RInv r ->
  RInv (fst (r_op ts r o)) /\ snd (r_op ts r o) <> None /\ wle (r_bits r) (r_bits (fst (r_op ts r o))).
Proof.
  intros Ri. pose proof (RInv_avail r Ri) as A.
  assert (Same : forall t, RInv (fst (r, Some t)) /\ snd (r, Some t) <> (None : option (list N)) /\
                           wle (r_bits r) (r_bits (fst (r, Some t)))).
  { intros t. split; [exact Ri|split; [discriminate|apply wle_refl; exact A]]. }
  destruct o; cbn [r_op]; try apply Same;
    try (repeat match goal with |- context [if ?c then _ else _] => destruct c end;
         repeat match goal with |- context [match ?c with _ => _ end] => destruct c end; apply Same).
  - (* Next *)
    pose proof (r_next_spec r Ri) as H. destruct (api_post_RInv r _ Ri H) as [R1 [v Ev]].
    destruct H as [W _]. destruct (r_next ts r) as [r1 x]. cbn [fst snd] in *. subst x.
    split; [exact R1|split; [discriminate|exact W]].
  - (* StepIn *)
    destruct Ri as [Wk [He|Hg]].
    + unfold r_step_in. rewrite He. apply Same.
    + destruct (r_err r) eqn:He; [unfold r_step_in; rewrite He; apply Same|].
      destruct (r_step_in_spec r (conj Hg He)) as [W P].
      destruct (r_step_in r) as [r1 [ok| | |]] eqn:Eo; cbn [fst snd] in *; try contradiction.
      * destruct P as (G1 & _). split; [apply G_RInv; exact G1|split; [discriminate|exact W]].
      * exfalso. revert Eo. unfold r_step_in. rewrite He.
        destruct (negb _); [discriminate|].
        destruct (r_value r); try discriminate;
          match goal with |- context [b_step_in ?B] =>
            destruct (b_step_in_res B) as [Hr|Hr]; destruct (b_step_in B) as [bb [uu| | |]];
            cbn [snd] in Hr; try discriminate Hr; discriminate end.
  - (* StepOut *)
    destruct (r_err r) eqn:He; [unfold r_step_out; rewrite He; apply Same|].
    destruct (r_ctx r) as [|c rest] eqn:Ec.
    { unfold r_step_out, r_ctx_peek. rewrite He, Ec. apply Same. }
    assert (Nc : r_err r = false -> r_ctx r <> []) by (intros _; rewrite Ec; discriminate).
    destruct (r_step_out_spec r Ri Nc) as [W P].
    destruct (r_step_out r) as [r1 [ok| | |]] eqn:Eo; cbn [fst snd] in *; try contradiction.
    + destruct P as [P1 P2]. split; [|split; [discriminate|exact W]]. destruct ok.
      * destruct (P1 eq_refl) as (G1 & _). apply G_RInv; exact G1.
      * split; [eapply wk_wle; [apply Ri|exact W]|left; exact (P2 eq_refl)].
    + exfalso. revert Eo. unfold r_step_out. rewrite He. destruct (r_ctx_peek r =? 0); [discriminate|].
      destruct (b_step_out (r_bits r)) as [bb [uu| | |]]; discriminate.
Qed.
End Next.
