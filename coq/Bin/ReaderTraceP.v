(* ReaderTraceP.v — the binary reader model decodes what the binary writer model emits:
   the plain traversal of [enc_forest vs] returns [trace_of vs] (C01/C03, reader side). *)
From Coq Require Import String List NArith ZArith Bool Lia ZifyBool ZifyN ZifyNat.
From IonV Require Import Base.Wire Base.Utf8 Bin.Bits Bin.BitsP Data.Ion Num.Float Bin.BitStream Bin.BinReader
  Bin.BitStreamP Bin.BitStreamNextP Bin.BinWriter Bin.SpecBin Bin.RoundTripBin Bin.RoundTripBinS Bin.BitEvalP Bin.BitEvalAnnP Bin.ReaderTrace Bin.BinReaderInvP.
Import ListNotations.
Open Scope N_scope.
Ltac Zify.zify_post_hook ::= Z.div_mod_to_equations.

Ltac bsimpl :=
  cbn [b_in b_ioerr b_pos b_state b_stack b_code b_null b_len b_alloc b_avail b_fuel
       upd_in upd_state upd_stack upd_cur upd_alloc b_clear done_value fst snd] in *.
Ltac rsimpl :=
  cbn [r_bits r_ctx r_eof r_err r_lst r_field r_annots r_type r_value
       rs_bits rs_ctx rs_eof rs_err rs_lst rs_field rs_annots rs_val r_clear fst snd] in *.
Ltac disp :=
  cbn [N.eqb Pos.eqb orb andb negb bcEOF bcBVM bcFieldID bcAnnotation bcNull bcFalse bcTrue bcInt bcNegInt bcFloat
       bcDecimal bcTimestamp bcSymbol bcString bcClob bcBlob bcList bcSexp bcStruct].

(* ---- one raw item, given what the bitstream does ------------------------------------------------------------ *)
Section Raw.
Variable ts : list N -> res unit.
Variable api : rstate -> rstate * res bool.
Variable fuel : nat.

Lemma raw_eof r b' : b_next (r_bits r) = (b', Ok tt) -> b_code b' = bcEOF ->
  r_next_raw ts api fuel r = (rs_eof (rs_bits r b') true, Ok true).
Proof. intros Hn Ec. unfold r_next_raw. rewrite Hn. cbv zeta. rewrite Ec. disp. reflexivity. Qed.

Definition not_lst_pos (r : rstate) : Prop :=
  (r_ctx_peek r =? 0) && is_ion_symbol_table (r_annots r) = false.

Lemma raw_null r b' k : b_next (r_bits r) = (b', Ok tt) -> b_code b' = bitcode_of_high k -> k <= 13 -> k <> 3 ->
  b_null b' = true -> (k = 13 -> not_lst_pos r) ->
  r_next_raw ts api fuel r = (rs_val (rs_bits r b') (if k <? 3 then k + 1 else k) RNil, Ok true).
Proof.
  intros Hn Ec Hk Hk3 Hnl Hl. unfold r_next_raw. rewrite Hn. cbv zeta. rewrite Ec, Hnl.
  assert (C : k = 0 \/ k = 1 \/ k = 2 \/ k = 4 \/ k = 5 \/ k = 6 \/ k = 7 \/ k = 8 \/ k = 9 \/ k = 10 \/
              k = 11 \/ k = 12 \/ k = 13) by lia.
  repeat (destruct C as [C|C]; [subst k; reflexivity|]). subst k.
  cbn [bitcode_of_high N.eqb Pos.eqb]. disp.
  specialize (Hl eq_refl). unfold not_lst_pos, r_ctx_peek in *. rsimpl. rewrite Hl. reflexivity.
Qed.

Lemma raw_bool r b' : b_next (r_bits r) = (b', Ok tt) -> b_code b' = bcFalse \/ b_code b' = bcTrue ->
  b_null b' = false ->
  r_next_raw ts api fuel r = (rs_val (rs_bits r b') TBool (RBool (b_code b' =? bcTrue)), Ok true).
Proof.
  intros Hn Ec Hnl. unfold r_next_raw. rewrite Hn. cbv zeta. rewrite Hnl.
  destruct Ec as [Ec|Ec]; rewrite Ec; reflexivity.
Qed.

Lemma raw_int r b' b'' v : b_next (r_bits r) = (b', Ok tt) -> b_code b' = bcInt \/ b_code b' = bcNegInt ->
  b_null b' = false -> b_read_int b' = (b'', Ok v) ->
  r_next_raw ts api fuel r = (rs_val (rs_bits (rs_val (rs_bits r b') TInt RNil) b'') TInt (RInt v), Ok true).
Proof.
  intros Hn Ec Hnl Hr. unfold r_next_raw. rewrite Hn. cbv zeta. rewrite Hnl.
  destruct Ec as [Ec|Ec]; rewrite Ec; disp; unfold lift; rewrite Hr; reflexivity.
Qed.
Lemma raw_float r b' b'' v : b_next (r_bits r) = (b', Ok tt) -> b_code b' = bcFloat ->
  b_null b' = false -> b_read_float b' = (b'', Ok v) ->
  r_next_raw ts api fuel r = (rs_val (rs_bits (rs_val (rs_bits r b') TFloat RNil) b'') TFloat (RFloat v), Ok true).
Proof.
  intros Hn Ec Hnl Hr. unfold r_next_raw. rewrite Hn. cbv zeta. rewrite Hnl, Ec. disp. unfold lift. rewrite Hr. reflexivity.
Qed.
Lemma raw_decimal r b' b'' v : b_next (r_bits r) = (b', Ok tt) -> b_code b' = bcDecimal ->
  b_null b' = false -> b_read_decimal b' = (b'', Ok v) ->
  r_next_raw ts api fuel r = (rs_val (rs_bits (rs_val (rs_bits r b') TDecimal RNil) b'') TDecimal (RDecimal v), Ok true).
Proof.
  intros Hn Ec Hnl Hr. unfold r_next_raw. rewrite Hn. cbv zeta. rewrite Hnl, Ec. disp. unfold lift. rewrite Hr. reflexivity.
Qed.
Lemma raw_timestamp r b' b'' v : b_next (r_bits r) = (b', Ok tt) -> b_code b' = bcTimestamp ->
  b_null b' = false -> b_read_timestamp b' ts = (b'', Ok v) ->
  r_next_raw ts api fuel r = (rs_val (rs_bits (rs_val (rs_bits r b') TTimestamp RNil) b'') TTimestamp (RTimestamp v), Ok true).
Proof.
  intros Hn Ec Hnl Hr. unfold r_next_raw. rewrite Hn. cbv zeta. rewrite Hnl, Ec. disp. unfold lift. rewrite Hr. reflexivity.
Qed.
Lemma raw_string r b' b'' v : b_next (r_bits r) = (b', Ok tt) -> b_code b' = bcString ->
  b_null b' = false -> b_read_string b' = (b'', Ok v) ->
  r_next_raw ts api fuel r = (rs_val (rs_bits (rs_val (rs_bits r b') TString RNil) b'') TString (RString v), Ok true).
Proof.
  intros Hn Ec Hnl Hr. unfold r_next_raw. rewrite Hn. cbv zeta. rewrite Hnl, Ec. disp. unfold lift. rewrite Hr. reflexivity.
Qed.
Lemma raw_bytes r b' b'' v : b_next (r_bits r) = (b', Ok tt) -> b_code b' = bcClob \/ b_code b' = bcBlob ->
  b_null b' = false -> b_read_bytes b' = (b'', Ok v) ->
  r_next_raw ts api fuel r =
    (rs_val (rs_bits (rs_val (rs_bits r b') (if b_code b' =? bcClob then TClob else TBlob) RNil) b'')
            (if b_code b' =? bcClob then TClob else TBlob) (RBytes v), Ok true).
Proof.
  intros Hn Ec Hnl Hr. unfold r_next_raw. rewrite Hn. cbv zeta. rewrite Hnl.
  destruct Ec as [Ec|Ec]; rewrite Ec; disp; unfold lift; rewrite Hr; reflexivity.
Qed.
Lemma raw_symbol r b' b'' id tab t : b_next (r_bits r) = (b', Ok tt) -> b_code b' = bcSymbol ->
  b_null b' = false -> b_read_symbol_id b' = (b'', Ok id) -> r_lst r = Some tab -> tok_by_sid tab id = Some t ->
  r_next_raw ts api fuel r = (rs_val (rs_bits (rs_bits r b') b'') TSymbol (RSymbol t), Ok true).
Proof.
  intros Hn Ec Hnl Hr Hl Ht. unfold r_next_raw. rewrite Hn. cbv zeta. rewrite Hnl, Ec. disp. unfold lift. rewrite Hr.
  unfold cur_lst. rsimpl. rewrite Hl, Ht. reflexivity.
Qed.
Lemma raw_seq r b' : b_next (r_bits r) = (b', Ok tt) -> b_code b' = bcList \/ b_code b' = bcSexp ->
  b_null b' = false ->
  r_next_raw ts api fuel r = (rs_val (rs_bits r b') (ty_of_code (b_code b')) RContainer, Ok true).
Proof.
  intros Hn Ec Hnl. unfold r_next_raw. rewrite Hn. cbv zeta. rewrite Hnl.
  destruct Ec as [Ec|Ec]; rewrite Ec; reflexivity.
Qed.
Lemma raw_struct r b' : b_next (r_bits r) = (b', Ok tt) -> b_code b' = bcStruct ->
  b_null b' = false -> not_lst_pos r ->
  r_next_raw ts api fuel r = (rs_val (rs_bits r b') TStruct RContainer, Ok true).
Proof.
  intros Hn Ec Hnl Hl. unfold r_next_raw. rewrite Hn. cbv zeta. rewrite Hnl, Ec. disp.
  unfold not_lst_pos, r_ctx_peek in *. rsimpl. rewrite Hl. reflexivity.
Qed.
Lemma raw_field r b' b'' id tab t : b_next (r_bits r) = (b', Ok tt) -> b_code b' = bcFieldID ->
  b_read_field_id b' = (b'', Ok id) -> r_lst r = Some tab -> tok_by_sid tab id = Some t ->
  r_next_raw ts api fuel r = (rs_field (rs_bits (rs_bits r b') b'') (Some t), Ok false).
Proof.
  intros Hn Ec Hr Hl Ht. unfold r_next_raw. rewrite Hn. cbv zeta. rewrite Ec. disp. unfold lift. rewrite Hr.
  unfold cur_lst. rsimpl. rewrite Hl, Ht. reflexivity.
Qed.
Lemma raw_annots r b' b'' ids tab : b_next (r_bits r) = (b', Ok tt) -> b_code b' = bcAnnotation ->
  r_lst r = Some tab -> b_read_annotations b' (sid_ok tab) = (b'', Ok ids) ->
  r_next_raw ts api fuel r =
    (rs_annots (rs_bits (rs_bits r b') b'')
       (map (fun id => {| tk_text := lst_find_by_id tab id; tk_sid := Z.of_N id |}) ids), Ok false).
Proof.
  intros Hn Ec Hl Hr. unfold r_next_raw. rewrite Hn. cbv zeta. rewrite Ec. disp.
  unfold cur_lst. rsimpl. rewrite Hl. unfold lift. rewrite Hr. reflexivity.
Qed.
Lemma raw_bvm r b' b'' : b_next (r_bits r) = (b', Ok tt) -> b_code b' = bcBVM ->
  b_read_bvm b' = (b'', Ok (1, 0)) ->
  r_next_raw ts api fuel r = (rs_lst (rs_bits (rs_bits r b') b'') (Some LSys), Ok false).
Proof.
  intros Hn Ec Hr. unfold r_next_raw. rewrite Hn. cbv zeta. rewrite Ec. disp. unfold lift. rewrite Hr. reflexivity.
Qed.
End Raw.

(* ---- reader states during the traversal ------------------------------------------------------------------------ *)
Definition vtype (v : value) : N :=
  match v with
  | VNull t => t | VBool _ => TBool | VInt _ => TInt | VFloat _ => TFloat | VDecimal _ => TDecimal
  | VTimestamp _ => TTimestamp | VSymbol _ => TSymbol | VString _ => TString | VClob _ => TClob | VBlob _ => TBlob
  | VList _ => TList | VSexp _ => TSexp | VStruct _ => TStruct | VAnn _ _ => 0
  end.
Definition is_scalar (v : value) : Prop :=
  match v with VList _ | VSexp _ | VStruct _ | VAnn _ _ => False | _ => True end.
Definition ctx_of_stk (stk : list (N * N)) : list N :=
  map (fun p => if fst p =? bcStruct then 1 else if fst p =? bcList then 2 else 3) stk.
Definition same_hdr (r r1 : rstate) : Prop :=
  r_err r1 = r_err r /\ r_eof r1 = r_eof r /\ r_lst r1 = r_lst r /\ r_ctx r1 = r_ctx r /\
  r_field r1 = r_field r /\ r_annots r1 = r_annots r.

Section Trav.
Variable ts : list N -> res unit.
Variable tot : N.
Hypothesis Htot : tot < two63.
Variable tab : rlst.
Variable L : list text.
Hypothesis Htab : forall t, known L t ->
  sid L t < two63 /\ sid_ok tab (sid L t) = true /\ lst_find_by_id tab (sid L t) = Some t.

Definition val_rel (v : value) (rv : rvalue) : Prop :=
  match v with
  | VNull _ => rv = RNil
  | VBool b => rv = RBool b
  | VInt z => exists iv, rv = RInt iv /\ int_z iv = z
  | VFloat b => rv = RFloat b
  | VDecimal d => rv = RDecimal d
  | VTimestamp body => rv = RTimestamp body
  | VSymbol y => rv = RSymbol (rd_tok L y)
  | VString t => rv = RString t
  | VClob b | VBlob b => rv = RBytes b
  | VList _ | VSexp _ | VStruct _ => rv = RContainer
  | VAnn _ _ => False
  end.
Definition rv_ok (v : value) (r : rstate) : Prop := r_type r = vtype v /\ val_rel v (r_value r).

Definition top_ok (stk : list (N * N)) (outer : list N) : Prop :=
  match stk with [] => True | (_, e) :: _ => e + N.of_nat (length outer) = tot end.

Lemma room_of_top b x rest outer st stk : BS b (x ++ rest ++ outer) st stk tot -> top_ok stk outer ->
  room b (N.of_nat (length x)).
Proof.
  intros [I Ein St Es Nl Nw] T. pose proof (bcore_avail _ (proj1 I)) as A. unfold room. rewrite Es.
  unfold top_ok in T. destruct stk as [|[c e] stk']; [exact Logic.I|].
  unfold avail_ok in A. rewrite Ein, !app_length in A. lia.
Qed.

Lemma tok_of_known y : wf_sym y -> known L (symtext y) -> tok_by_sid tab (sid L (symtext y)) = Some (rd_tok L y).
Proof.
  intros _ K. destruct (Htab _ K) as (_ & H1 & H2). unfold tok_by_sid. rewrite H1, H2. reflexivity.
Qed.

(* the raw item that is a scalar value *)
Lemma raw_scalar api fuel r b1 x rest outer stk : wf_value x -> is_scalar x -> Forall (known L) (texts [] x) ->
  (forall body, In body (ts_bodies x) -> ts body = Ok tt) ->
  BS b1 (enc L x ++ rest ++ outer) bssBeforeValue stk tot -> top_ok stk outer ->
  b_next (r_bits r) = b_next b1 -> r_lst r = Some tab -> (x = VNull 13 -> not_lst_pos r) ->
  exists r1, r_next_raw ts api fuel r = (r1, Ok true) /\ same_hdr r r1 /\ rv_ok x r1 /\
             (BS (r_bits r1) (rest ++ outer) (sav stk) stk tot \/ NS tot (r_bits r1) (rest ++ outer) stk).
Proof.
  intros Hw Hs Hk Hts Hb T Hn Hl Hnl.
  assert (SH : forall b' t v, same_hdr r (rs_val (rs_bits r b') t v)) by (intros; repeat split).
  assert (SH2 : forall b' b'' t t' v v', same_hdr r (rs_val (rs_bits (rs_val (rs_bits r b') t v) b'') t' v'))
    by (intros; repeat split).
  destruct x; try destruct Hs; inversion Hw as [? Ht| | |? Hfl|? Hd| |? Hy|? Hu| | | | | | ]; subst; cbn [enc] in *.
  - (* null *)
    destruct (null_type_roundtrip t Ht) as (tag & E & A & B & C).
    assert (Etag : tag = 16 * (tag / 16) + 15) by lia.
    assert (Hk3 : tag / 16 <> 3).
    { intros E3. rewrite E3 in C. vm_compute in C. discriminate C. }
    rewrite E, Etag in Hb. cbn [app] in Hb.
    pose proof (room_of_top _ [16 * (tag / 16) + 15] _ _ _ _ Hb T) as R.
    destruct (b_next_single tot Htot b1 (tag / 16) 15 _ stk Hb R) as (b' & E1 & Ns & Nl & Ec); [left; lia|].
    rewrite <- Hn in E1. replace ((tag / 16 =? 1) && (15 =? 1)) with false in Ec by lia.
    eexists. split; [eapply raw_null; [exact E1|exact Ec|lia|exact Hk3|exact Nl|]|].
    { intros E13. apply Hnl. rewrite E13 in C. vm_compute in C. inversion C. reflexivity. }
    split; [apply SH|]. split; [|right; exact Ns].
    split; [|reflexivity]. rsimpl. cbn [vtype].
    assert (Ct : tag / 16 = 0 \/ tag / 16 = 1 \/ tag / 16 = 2 \/ 3 < tag / 16) by lia.
    destruct Ct as [Ct|[Ct|[Ct|Ct]]]; try (rewrite Ct in *; vm_compute in C; inversion C; reflexivity).
    replace (tag / 16 <? 3) with false by lia. unfold null_type in C.
    replace (tag / 16 =? 0) with false in C by lia. replace (tag / 16 =? 1) with false in C by lia.
    replace (tag / 16 =? 2) with false in C by lia.
    repeat match type of C with (if ?c then _ else _) = _ => destruct c eqn:?; [inversion C; lia|] end. discriminate.
  - (* bool *)
    assert (Eb : (if b then 17 else 16) = 16 * 1 + (if b then 1 else 0)) by (destruct b; reflexivity).
    rewrite Eb in Hb. cbn [app] in Hb.
    pose proof (room_of_top _ [16 * 1 + (if b then 1 else 0)] _ _ _ _ Hb T) as R.
    destruct (b_next_single tot Htot b1 1 (if b then 1 else 0) _ stk Hb R) as (b' & E1 & Ns & Nl & Ec);
      [right; destruct b; lia|].
    rewrite <- Hn in E1. replace ((if b then 1 else 0) =? 15) with false in Nl by (destruct b; reflexivity).
    eexists. split; [eapply raw_bool; [exact E1|destruct b; [right|left]; exact Ec|exact Nl]|]. split; [apply SH|].
    split; [|right; exact Ns]. split; [reflexivity|]. rsimpl. cbn [val_rel]. rewrite Ec. destruct b; reflexivity.
  - (* int *)
    destruct (z =? 0)%Z eqn:Ez.
    + change [32] with (enc_tagged (16 * 2) []) in Hb.
      pose proof (room_of_top _ _ _ _ _ _ Hb T) as R.
      destruct (b_next_tagged b1 2 [] _ stk tot Htot Hb) as (b' & E1 & Hb' & Ec & El); try lia; try discriminate; [exact R|].
      rewrite <- Hn in E1. cbn [app length] in *.
      destruct (read_int_zero tot Htot b' _ stk Hb' El Ec) as (b'' & Er & Hb'').
      eexists. split; [eapply raw_int; [exact E1|left; exact Ec|exact (bs_null _ _ _ _ _ Hb')|exact Er]|]. split; [apply SH2|]. split; [|left; exact Hb''].
      split; [reflexivity|]. rsimpl. exists (I64 0). split; [reflexivity|]. cbn [int_z]. lia.
    + set (t := if (z <? 0)%Z then 3 else 2).
      assert (Et : (if (z <? 0)%Z then 48 else 32) = 16 * t) by (subst t; destruct (z <? 0)%Z; reflexivity).
      rewrite Et in Hb. pose proof (room_of_top _ _ _ _ _ _ Hb T) as R.
      destruct (b_next_tagged b1 t _ _ stk tot Htot Hb) as (b' & E1 & Hb' & Ec & El);
        try (subst t; destruct (z <? 0)%Z; lia); try (subst t; destruct (z <? 0)%Z; discriminate); [exact R|].
      rewrite <- Hn in E1.
      assert (Ec' : b_code b' = (if (z <? 0)%Z then bcNegInt else bcInt)) by (rewrite Ec; subst t; destruct (z <? 0)%Z; reflexivity).
      destruct (read_int_body tot Htot b' z (rest ++ outer) stk) as (b'' & v & Er & Ev & Hb''); auto; [lia|].
      eexists. split; [eapply raw_int; [exact E1|destruct (z <? 0)%Z; [right|left]; exact Ec'|exact (bs_null _ _ _ _ _ Hb')|exact Er]|].
      split; [apply SH2|]. split; [|left; exact Hb'']. split; [reflexivity|]. rsimpl. exists v. auto.
  - (* float *)
    rewrite enc_float_tagged in Hb. change 64 with (16 * 4) in Hb. pose proof (room_of_top _ _ _ _ _ _ Hb T) as R.
    destruct (b_next_tagged b1 4 _ _ stk tot Htot Hb) as (b' & E1 & Hb' & Ec & El); try lia; try discriminate; [exact R|].
    rewrite <- Hn in E1. destruct (read_float_body tot Htot b' bits _ stk Hfl Hb' El Ec) as (b'' & Er & Hb'').
    eexists. split; [eapply raw_float; [exact E1|exact Ec|exact (bs_null _ _ _ _ _ Hb')|exact Er]|]. split; [apply SH2|]. split; [|left; exact Hb''].
    split; reflexivity.
  - (* decimal *)
    rewrite (enc_dec_tagged d Hd) in Hb. change 80 with (16 * 5) in Hb. pose proof (room_of_top _ _ _ _ _ _ Hb T) as R.
    destruct (b_next_tagged b1 5 _ _ stk tot Htot Hb) as (b' & E1 & Hb' & Ec & El); try lia; try discriminate; [exact R|].
    rewrite <- Hn in E1. destruct (read_decimal_body tot Htot b' d _ stk Hd Hb' El Ec) as (b'' & Er & Hb'').
    eexists. split; [eapply raw_decimal; [exact E1|exact Ec|exact (bs_null _ _ _ _ _ Hb')|exact Er]|]. split; [apply SH2|]. split; [|left; exact Hb''].
    split; reflexivity.
  - (* timestamp *)
    change 96 with (16 * 6) in Hb. pose proof (room_of_top _ _ _ _ _ _ Hb T) as R.
    destruct (b_next_tagged b1 6 _ _ stk tot Htot Hb) as (b' & E1 & Hb' & Ec & El); try lia; try discriminate; [exact R|].
    rewrite <- Hn in E1.
    destruct (read_timestamp_body tot Htot b' ts body _ stk (Hts body (or_introl eq_refl)) Hb' El Ec) as (b'' & Er & Hb'').
    eexists. split; [eapply raw_timestamp; [exact E1|exact Ec|exact (bs_null _ _ _ _ _ Hb')|exact Er]|]. split; [apply SH2|]. split; [|left; exact Hb''].
    split; reflexivity.
  - (* symbol *)
    cbn [texts] in Hk. inversion Hk as [|? ? Hkt _]; subst.
    destruct (Htab _ Hkt) as (Hid & _ & _).
    rewrite enc_symbol_tagged in Hb. change 112 with (16 * 7) in Hb. pose proof (room_of_top _ _ _ _ _ _ Hb T) as R.
    destruct (b_next_tagged b1 7 _ _ stk tot Htot Hb) as (b' & E1 & Hb' & Ec & El); try lia; try discriminate; [exact R|].
    rewrite <- Hn in E1.
    destruct (read_symbol_body tot Htot b' (sid L (symtext y)) (rest ++ outer) stk) as (b'' & Er & Hb''); auto;
      [unfold two63, two64 in *; lia|].
    eexists. split; [eapply raw_symbol; [exact E1|exact Ec|exact (bs_null _ _ _ _ _ Hb')|exact Er|exact Hl|apply tok_of_known; assumption]|].
    split; [repeat split|]. split; [|left; exact Hb'']. split; reflexivity.
  - (* string *)
    change 128 with (16 * 8) in Hb. pose proof (room_of_top _ _ _ _ _ _ Hb T) as R.
    destruct (b_next_tagged b1 8 _ _ stk tot Htot Hb) as (b' & E1 & Hb' & Ec & El); try lia; try discriminate; [exact R|].
    rewrite <- Hn in E1. destruct (read_string_body tot Htot b' t _ stk Hu Hb' El Ec) as (b'' & Er & Hb'').
    eexists. split; [eapply raw_string; [exact E1|exact Ec|exact (bs_null _ _ _ _ _ Hb')|exact Er]|]. split; [apply SH2|]. split; [|left; exact Hb''].
    split; reflexivity.
  - (* clob *)
    change 144 with (16 * 9) in Hb. pose proof (room_of_top _ _ _ _ _ _ Hb T) as R.
    destruct (b_next_tagged b1 9 _ _ stk tot Htot Hb) as (b' & E1 & Hb' & Ec & El); try lia; try discriminate; [exact R|].
    rewrite <- Hn in E1. destruct (read_bytes_body tot Htot b' b _ stk Hb' El (or_introl Ec)) as (b'' & Er & Hb'').
    eexists. split; [eapply raw_bytes; [exact E1|left; exact Ec|exact (bs_null _ _ _ _ _ Hb')|exact Er]|]. split; [apply SH2|]. split; [|left; exact Hb''].
    rewrite Ec. split; reflexivity.
  - (* blob *)
    change 160 with (16 * 10) in Hb. pose proof (room_of_top _ _ _ _ _ _ Hb T) as R.
    destruct (b_next_tagged b1 10 _ _ stk tot Htot Hb) as (b' & E1 & Hb' & Ec & El); try lia; try discriminate; [exact R|].
    rewrite <- Hn in E1. destruct (read_bytes_body tot Htot b' b _ stk Hb' El (or_intror Ec)) as (b'' & Er & Hb'').
    eexists. split; [eapply raw_bytes; [exact E1|right; exact Ec|exact (bs_null _ _ _ _ _ Hb')|exact Er]|]. split; [apply SH2|]. split; [|left; exact Hb''].
    rewrite Ec. split; reflexivity.
Qed.

(* ---- the raw-item loop of Next ----------------------------------------------------------------------------------- *)
(* between raw items: the bitstream is about to read a value (possibly after skipping the one it stands on) *)
Record MID (r : rstate) (inp outer : list N) (stk : list (N * N)) (f : option tok) (an : list tok) : Prop := {
  md_err : r_err r = false; md_eof : r_eof r = false; md_lst : r_lst r = Some tab;
  md_ctx : r_ctx r = ctx_of_stk stk;
  md_bits : exists b1, b_next (r_bits r) = b_next b1 /\ BS b1 (inp ++ outer) bssBeforeValue stk tot;
  md_top : top_ok stk outer;
  md_field : r_field r = f; md_annots : r_annots r = an
}.
Record RS (r : rstate) (inp outer : list N) (stk : list (N * N)) : Prop := {
  rz_err : r_err r = false; rz_eof : r_eof r = false; rz_lst : r_lst r = Some tab;
  rz_ctx : r_ctx r = ctx_of_stk stk;
  rz_bits : BS (r_bits r) (inp ++ outer) (sav stk) stk tot \/ NS tot (r_bits r) (inp ++ outer) stk;
  rz_top : top_ok stk outer
}.

Lemma pre_next b inp stk : BS b inp (sav stk) stk tot \/ NS tot b inp stk ->
  exists b1, b_next b = b_next b1 /\ BS b1 inp (sav stk) stk tot.
Proof.
  intros [H|H]; [exists b; split; [reflexivity|exact H]|].
  destruct (NS_skip tot b inp stk H) as (b1 & E & Hb). exists b1. split; [|exact Hb].
  apply b_next_after_skip; [apply H|exact E|]. rewrite (bs_state _ _ _ _ _ Hb). unfold sav. destruct (_ =? _); auto.
Qed.

Lemma peek_stk r stk : r_ctx r = ctx_of_stk stk -> stk <> [] -> (r_ctx_peek r =? 0) = false.
Proof.
  intros E H. unfold r_ctx_peek. rewrite E. destruct stk as [|[c e] stk']; [contradiction|]. cbn [ctx_of_stk map fst].
  destruct (c =? bcStruct); [reflexivity|]. destruct (c =? bcList); reflexivity.
Qed.

Section Loop.
Variable api : rstate -> rstate * res bool.
Variable fuel : nat.

Lemma loop_false k r r' : r_next_raw ts api fuel r = (r', Ok false) ->
  r_next_loop ts api (S k) fuel r = r_next_loop ts api k fuel r'.
Proof. intros H. cbn [r_next_loop]. rewrite H. reflexivity. Qed.
Lemma loop_true k r r' : r_next_raw ts api fuel r = (r', Ok true) ->
  r_next_loop ts api (S k) fuel r = (r', Ok (negb (r_eof r'))).
Proof. intros H. cbn [r_next_loop]. rewrite H. reflexivity. Qed.

Definition lst_guard (stk : list (N * N)) (an : list tok) (x : value) : Prop :=
  stk = [] -> is_ion_symbol_table an = true ->
  match x with VStruct _ => False | VNull t => t <> 13 | _ => True end.

Lemma guard_pos r stk an x : r_ctx r = ctx_of_stk stk -> r_annots r = an -> lst_guard stk an x ->
  (match x with VStruct _ => True | VNull t => t = 13 | _ => False end) -> not_lst_pos r.
Proof.
  intros Ec Ea G Hx. unfold not_lst_pos. destruct stk as [|p stk'].
  - rewrite Ea. destruct (is_ion_symbol_table an) eqn:E; [|apply andb_false_r]. exfalso.
    specialize (G eq_refl E). destruct x; auto.
  - rewrite (peek_stk r (p :: stk') Ec) by discriminate. reflexivity.
Qed.

Lemma loop_scalar k r x rest outer stk f an : MID r (enc L x ++ rest) outer stk f an ->
  wf_value x -> is_scalar x -> Forall (known L) (texts [] x) ->
  (forall body, In body (ts_bodies x) -> ts body = Ok tt) -> lst_guard stk an x ->
  exists r1, r_next_loop ts api (S k) fuel r = (r1, Ok true) /\ r_field r1 = f /\ r_annots r1 = an /\
             rv_ok x r1 /\ RS r1 rest outer stk.
Proof.
  intros [He Hf Hl Hc (b1 & Hn & Hb) T Hfl Han] Hw Hs Hk Hts G.
  rewrite <- app_assoc in Hb.
  assert (Hnl : x = VNull 13 -> not_lst_pos r).
  { intros ->. eapply guard_pos; eauto. reflexivity. }
  destruct (raw_scalar api fuel r b1 x rest outer stk Hw Hs Hk Hts Hb T Hn Hl Hnl) as (r1 & E & SH & Rv & Bs).
  destruct SH as (S1 & S2 & S3 & S4 & S5 & S6).
  exists r1. rewrite (loop_true k r r1 E). rewrite S2, Hf. split; [reflexivity|]. split; [congruence|].
  split; [congruence|]. split; [exact Rv|]. constructor; try congruence; assumption.
Qed.

Lemma loop_container k r t body rest outer stk f an : MID r (enc_tagged (16 * t) body ++ rest) outer stk f an ->
  11 <= t <= 13 -> (t = 13 -> length body <> 1%nat) -> (t = 13 -> not_lst_pos r) ->
  exists r1, r_next_loop ts api (S k) fuel r = (r1, Ok true) /\ r_field r1 = f /\ r_annots r1 = an /\
             r_type r1 = t /\ r_value r1 = RContainer /\ r_err r1 = false /\ r_eof r1 = false /\
             r_lst r1 = Some tab /\ r_ctx r1 = ctx_of_stk stk /\
             BS (r_bits r1) (body ++ rest ++ outer) bssOnValue stk tot /\
             b_code (r_bits r1) = bitcode_of_high t /\ b_len (r_bits r1) = N.of_nat (length body).
Proof.
  intros [He Hf Hl Hc (b1 & Hn & Hb) T Hfl Han] Ht H13 Hnl. rewrite <- app_assoc in Hb.
  pose proof (room_of_top _ _ _ _ _ _ Hb T) as R.
  destruct (b_next_tagged b1 t body _ stk tot Htot Hb) as (b' & E1 & Hb' & Ec & El); try lia; auto.
  rewrite <- Hn in E1.
  assert (C : t = 11 \/ t = 12 \/ t = 13) by lia.
  destruct C as [C|[C|C]]; subst t.
  - eexists. rewrite (loop_true k r _ (raw_seq ts api fuel r b' E1 (or_introl Ec) (bs_null _ _ _ _ _ Hb'))).
    rsimpl. rewrite Hf, Ec. repeat (split; [solve [auto]|]). auto.
  - eexists. rewrite (loop_true k r _ (raw_seq ts api fuel r b' E1 (or_intror Ec) (bs_null _ _ _ _ _ Hb'))).
    rsimpl. rewrite Hf, Ec. repeat (split; [solve [auto]|]). auto.
  - eexists. rewrite (loop_true k r _ (raw_struct ts api fuel r b' E1 Ec (bs_null _ _ _ _ _ Hb') (Hnl eq_refl))).
    rsimpl. rewrite Hf. repeat (split; [solve [auto]|]). auto.
Qed.

Lemma loop_field k r b1 n rest outer c e stk : r_err r = false -> r_eof r = false -> r_lst r = Some tab ->
  r_ctx r = ctx_of_stk ((c, e) :: stk) -> b_next (r_bits r) = b_next b1 ->
  BS b1 (append_varuint [] (sid L (symtext n)) ++ rest ++ outer) bssBeforeFieldID ((c, e) :: stk) tot ->
  top_ok ((c, e) :: stk) outer -> wf_sym n -> known L (symtext n) ->
  exists r', r_next_loop ts api (S k) fuel r = r_next_loop ts api k fuel r' /\
             MID r' rest outer ((c, e) :: stk) (Some (rd_tok L n)) (r_annots r).
Proof.
  intros He Hf Hl Hc Hn Hb T Hw Hk. destruct (Htab _ Hk) as (Hid & _ & _).
  pose proof Hb as [I Ein St Es Nl Nw]. pose proof (bcore_avail _ (proj1 I)) as A.
  pose proof (varuint_len_ok [] (sid L (symtext n))) as VL. cbn [length] in VL.
  pose proof (length_pos_nonempty _ (append_varuint_nonempty (sid L (symtext n)))) as Hp.
  assert (Hpos : b_pos b1 + varuint_len (sid L (symtext n)) <= e).
  { unfold top_ok in T. unfold avail_ok in A. rewrite Ein, !app_length in A. lia. }
  destruct (b_next_field tot Htot b1 _ c e stk Hb) as (b' & E1 & Hb' & Ec & Ep); [lia|].
  rewrite <- Hn in E1.
  destruct (read_field_id_enc tot Htot b' (sid L (symtext n)) (rest ++ outer) c e stk) as (b'' & Er & Hb''); auto;
    [unfold two63, two64 in *; lia|lia|].
  exists (rs_field (rs_bits (rs_bits r b') b'') (Some (rd_tok L n))). split.
  - apply loop_false. eapply raw_field; eauto. apply tok_of_known; assumption.
  - constructor; rsimpl; auto. exists b''. split; [reflexivity|exact Hb''].
Qed.

Lemma loop_annots k r a x rest outer stk f : MID r (enc L (VAnn a x) ++ rest) outer stk f [] ->
  wf_value x -> not_ann x -> a <> [] -> Forall wf_sym a -> Forall (known L) (map symtext a) ->
  exists r', r_next_loop ts api (S k) fuel r = r_next_loop ts api k fuel r' /\
             MID r' (enc L x ++ rest) outer stk f (map (rd_tok L) a).
Proof.
  intros [He Hf Hl Hc (b1 & Hn & Hb) T Hfl Han] Hw Hna Ha Hws Hks. cbn [enc] in Hb. rewrite <- app_assoc in Hb.
  change 224 with (16 * 14) in Hb.
  pose proof (room_of_top _ _ _ _ _ _ Hb T) as R.
  assert (Hne : enc_annots L a ++ enc L x <> []).
  { intros E. apply app_eq_nil in E. destruct E as [_ E]. exact (enc_nonempty L x Hw E). }
  destruct (b_next_tagged b1 14 _ _ stk tot Htot Hb) as (b' & E1 & Hb' & Ec & El); try lia; try discriminate; auto.
  rewrite <- Hn in E1. rewrite <- app_assoc in Hb'.
  assert (Hids : Forall (fun id => id < two64 /\ sid_ok tab id = true) (annot_ids_of L a)).
  { unfold annot_ids_of. rewrite Forall_map. rewrite Forall_map in Hks. eapply Forall_impl; [|exact Hks].
    intros y Hy. destruct (Htab _ Hy) as (H1 & H2 & _). split; [unfold two63, two64 in *; lia|exact H2]. }
  destruct (read_annotations_enc tot Htot b' L a x (rest ++ outer) stk (sid_ok tab) Hw Hna Ha Hids Hb' El Ec) as (b'' & Er & Hb'').
  eexists. split; [apply loop_false; eapply raw_annots; eauto|].
  constructor; rsimpl; auto; [exists b''; split; [reflexivity|rewrite <- app_assoc; exact Hb'']|].
  unfold annot_ids_of. rewrite map_map. apply map_ext_in. intros y Hy.
  rewrite Forall_map in Hks. rewrite Forall_forall in Hks. destruct (Htab _ (Hks y Hy)) as (_ & _ & H3).
  unfold rd_tok. rewrite H3. reflexivity.
Qed.

(* the optional field name and annotation wrapper in front of a value *)
Definition item_bytes (fld : option symv) : list N :=
  match fld with Some n => append_varuint [] (sid L (symtext n)) | None => [] end.
Definition wrap_ann (a : list symv) (x : value) : value := match a with [] => x | _ => VAnn a x end.
Definition fld_ok (stk : list (N * N)) (fld : option symv) : Prop :=
  match fld with
  | None => sav stk = bssBeforeValue
  | Some n => sav stk = bssBeforeFieldID /\ wf_sym n /\ known L (symtext n)
  end.

Lemma loop_prefix k r fld a x rest outer stk :
  RS r (item_bytes fld ++ enc L (wrap_ann a x) ++ rest) outer stk -> r_field r = None -> r_annots r = [] ->
  fld_ok stk fld -> wf_value x -> not_ann x -> Forall wf_sym a -> Forall (known L) (map symtext a) ->
  exists r0 k', r_next_loop ts api (S (S (S k))) fuel r = r_next_loop ts api (S k') fuel r0 /\
                MID r0 (enc L x ++ rest) outer stk (option_map (rd_tok L) fld) (map (rd_tok L) a).
Proof.
  intros [He Hf Hl Hc Hbits T] Hfn Han Hfo Hw Hna Hws Hks.
  destruct (pre_next _ _ _ Hbits) as (b1 & Hn & Hb).
  assert (S1 : exists r0 k', r_next_loop ts api (S (S (S k))) fuel r = r_next_loop ts api (S (S k')) fuel r0 /\
                 MID r0 (enc L (wrap_ann a x) ++ rest) outer stk (option_map (rd_tok L) fld) []).
  { destruct fld as [n|]; cbn [item_bytes fld_ok option_map app] in *.
    - destruct Hfo as (Hs & Hwn & Hkn). destruct stk as [|[c e] stk']; [discriminate Hs|]. rewrite Hs in Hb.
      rewrite <- app_assoc in Hb.
      destruct (loop_field (S (S k)) r b1 n _ outer c e stk' He Hf Hl Hc Hn Hb T Hwn Hkn) as (r' & E & M).
      rewrite Han in M. exists r', k. split; [exact E|exact M].
    - rewrite Hfo in Hb. exists r, (S k). split; [reflexivity|]. constructor; auto. exists b1. split; assumption. }
  destruct S1 as (r0 & k' & E0 & M0). destruct a as [|y a]; cbn [wrap_ann map] in *.
  - exists r0, (S k'). split; assumption.
  - destruct (loop_annots (S k') r0 (y :: a) x rest outer stk _ M0 Hw Hna) as (r' & E & M); auto; [discriminate|].
    exists r', k'. split; [congruence|exact M].
Qed.
End Loop.

(* ---- one iteration of the traversal loop -------------------------------------------------------------------------- *)
Definition fld_tok (r : rstate) : list N := match r_field r with Some t => show_tok t | None => t_nil end.
Definition ann_tok (r : rstate) : list N :=
  97 :: 91 :: concat (map (fun t => show_tok t ++ [59]) (r_annots r)) ++ [93].
Definition head_toks (r : rstate) (isnull : bool) : list (list N) :=
  [ [110; if isnull then 49 else 48]; 121 :: dec_of_N (r_type r); ann_tok r; fld_tok r; [84] ].

Lemma iter_head f r r1 depth acc : r_op ts r ONext = (r1, Some [84]) -> r_err r1 = false ->
  traverse_loop ts (S f) r depth acc =
  (let acc := head_toks r1 (r_is_null r1) ++ acc in
   if r_is_null r1 then traverse_loop ts f r1 depth acc else
   match accessor_of (r_type r1) with
   | Some o => match r_op ts r1 o with
               | (r, None) => (r, s "panic"%string :: acc, true)
               | (r, Some t5) => traverse_loop ts f r depth (t5 :: acc)
               end
   | None => match r_op ts r1 OStepIn with
             | (r, None) => (r, s "panic"%string :: acc, true)
             | (r, Some t5) => if list_eqb t5 (s "ok"%string) then traverse_loop ts f r (S depth) (t5 :: acc)
                               else traverse_loop ts f r depth (t5 :: acc)
             end
   end).
Proof.
  intros Hn He. cbn [traverse_loop]. rewrite Hn. cbn [list_eqb N.eqb Pos.eqb andb].
  do 4 (cbn [r_op]; rewrite ?He; cbv iota beta). reflexivity.
Qed.

Lemma iter_close f r r1 r2 d acc : r_op ts r ONext = (r1, Some [70]) -> r_op ts r1 OStepOut = (r2, Some (s "ok"%string)) ->
  traverse_loop ts (S f) r (S d) acc = traverse_loop ts f r2 d (s "ok"%string :: [70] :: acc).
Proof. intros Hn Ho. cbn [traverse_loop]. rewrite Hn. cbn [list_eqb N.eqb Pos.eqb andb]. rewrite Ho. reflexivity. Qed.

Definition acc_token (x : value) : list N :=
  match x with
  | VBool b => [98; if b then 49 else 48]
  | VInt z => 73 :: dec_of_Z z
  | VFloat b => 70 :: dec_of_N b
  | VDecimal d => show_dec d
  | VTimestamp body => 84 :: hex_of_bytes body
  | VSymbol y => show_tok (rd_tok L y)
  | VString t => 83 :: xhex t
  | VClob b | VBlob b => 66 :: xhex b
  | _ => []
  end.

Lemma acc_tok x r1 : rv_ok x r1 -> is_scalar x -> wf_value x -> r_err r1 = false ->
  match x with
  | VNull _ => r_is_null r1 = true
  | _ => r_is_null r1 = false /\ exists o, accessor_of (r_type r1) = Some o /\ r_op ts r1 o = (r1, Some (acc_token x))
  end.
Proof.
  intros [Et Ev] Hs Hw He. unfold r_is_null.
  destruct x; try destruct Hs; cbn [vtype val_rel] in *; rewrite Et; try rewrite Ev;
    try (split; [reflexivity|]); try (eexists; split; [reflexivity|]; cbn [r_op]; rewrite ?He, Et, Ev; reflexivity).
  - inversion Hw; subst. match goal with H : 1 <= ?t <= 13 |- _ => replace (t =? 0) with false by lia end. reflexivity.
  - destruct Ev as (iv & Ev & Ez). rewrite Ev. split; [reflexivity|]. eexists; split; [reflexivity|].
    cbn [r_op]. rewrite Et, Ev. cbn [negb N.eqb Pos.eqb TInt]. unfold show_int, acc_token, int_z in *.
    destruct iv; subst; reflexivity.
  - eexists; split; [reflexivity|]. cbn [r_op]. rewrite Et, Ev. cbn [negb N.eqb Pos.eqb TFloat acc_token].
    inversion Hw as [| | |? [Hlt Hnan]| | | | | | | | | | ]; subst. unfold canon_float.
    destruct (f64_is_nan bits) eqn:En; [rewrite (Hnan eq_refl)|]; reflexivity.
Qed.

(* ---- the traversal of one value ---------------------------------------------------------------------------------- *)
Hypothesis Hts : forall bs, ts bs <> Panic /\ ts bs <> OutOfFuel.

Definition RIO (r : rstate) : Prop := RInv r /\ b_ioerr (r_bits r) = false.
Lemma rio_step r o r1 t : RIO r -> r_op ts r o = (r1, t) -> RIO r1.
Proof.
  intros [Ri Io] E. destruct (r_op_safe ts Hts r o Ri) as (R1 & _ & W). rewrite E in *. cbn [fst] in *.
  split; [exact R1|]. rewrite (wle_ioerr _ _ W). exact Io.
Qed.

(* about to call Next, possibly in the middle of the first call *)
Definition PRE (r : rstate) (inp outer : list N) (stk : list (N * N)) : Prop :=
  exists K r0 api fuel, r_next ts r = r_next_loop ts api K fuel r0 /\ RS r0 inp outer stk /\
    r_field r0 = None /\ r_annots r0 = [] /\ (1 <= K)%nat /\ (inp <> [] -> 3 <= K)%nat.

Lemma RS_fuel r inp outer stk : RS r inp outer stk -> (length (inp ++ outer) + 2 <= b_fuel (r_bits r))%nat.
Proof.
  intros [_ _ _ _ Hb _]. destruct Hb as [[I Ein _ _ _ _]|[I Ein _ _ _ _]]; rewrite <- Ein; apply I.
Qed.

Lemma RS_PRE r inp outer stk : RS r inp outer stk -> PRE r inp outer stk.
Proof.
  intros H. pose proof (RS_fuel _ _ _ _ H) as Hf. pose proof H as [He Hf' Hl Hc Hb T].
  exists (b_fuel (r_bits r)), (r_clear r), (r_next_inner ts), (b_fuel (r_bits r)).
  split; [unfold r_next, r_next_with, input_fuel; rewrite He, Hf'; reflexivity|].
  split; [constructor; rsimpl; assumption|]. split; [reflexivity|]. split; [reflexivity|].
  rewrite app_length in Hf. split; [lia|]. intros Hn. destruct inp; [contradiction|cbn [length] in Hf; lia].
Qed.

Lemma head_eq r1 fld a ty b : r_field r1 = option_map (rd_tok L) fld -> r_annots r1 = map (rd_tok L) a ->
  r_type r1 = ty -> head_toks r1 b = rev (tr_head L fld a ty b).
Proof.
  intros E1 E2 E3. unfold head_toks, tr_head, fld_tok, ann_tok, tr_field, tr_annots. rewrite E1, E2, E3.
  destruct fld; reflexivity.
Qed.

Lemma tr_scalar fld a x : is_scalar x ->
  tr_value L fld a x = match x with VNull t => tr_head L fld a t true
                                  | _ => tr_head L fld a (vtype x) false ++ [acc_token x] end.
Proof. destruct x; intros H; try destruct H; reflexivity. Qed.

Lemma next_tok r r1 b : r_next ts r = (r1, Ok b) -> r_op ts r ONext = (r1, Some [if b then 84 else 70]).
Proof. intros E. cbn [r_op]. rewrite E. reflexivity. Qed.

Lemma trav_scalar x a fld rest outer stk r depth acc m :
  wf_value x -> is_scalar x -> PRE r (item_bytes fld ++ enc L (wrap_ann a x) ++ rest) outer stk -> RIO r ->
  fld_ok stk fld -> Forall wf_sym a -> Forall (known L) (map symtext a) -> Forall (known L) (texts [] x) ->
  (forall body, In body (ts_bodies x) -> ts body = Ok tt) -> lst_guard stk (map (rd_tok L) a) x ->
  exists r', traverse_loop ts (S m) r depth acc = traverse_loop ts m r' depth (rev (tr_value L fld a x) ++ acc) /\
             RS r' rest outer stk /\ RIO r'.
Proof.
  intros Hw Hs (K & r0 & api & fuel & En & Hr0 & Hf0 & Ha0 & HK1 & HK3) Rio Hfo Hws Hks Hkx Htb G.
  assert (Hna : not_ann x) by (destruct x; try destruct Hs; exact Logic.I).
  assert (Hne : item_bytes fld ++ enc L (wrap_ann a x) ++ rest <> []).
  { intros E. apply app_eq_nil in E. destruct E as [_ E]. apply app_eq_nil in E. destruct E as [E _].
    destruct a; cbn [wrap_ann] in E; [exact (enc_nonempty L x Hw E)|]. cbn [enc] in E. exact (enc_tagged_nonempty _ _ E). }
  specialize (HK3 Hne). destruct K as [|[|[|k]]]; try lia.
  destruct (loop_prefix api fuel k r0 fld a x rest outer stk Hr0 Hf0 Ha0 Hfo Hw Hna Hws Hks) as (r0' & k' & E0 & M0).
  destruct (loop_scalar api fuel k' r0' x rest outer stk _ _ M0 Hw Hs Hkx Htb G) as (r1 & E1 & F1 & A1 & Rv & Rs1).
  assert (Eop : r_op ts r ONext = (r1, Some [84])) by (apply (next_tok r r1 true); congruence).
  pose proof (rio_step _ _ _ _ Rio Eop) as Rio1.
  exists r1. split; [|split; assumption].
  rewrite (iter_head m r r1 depth acc Eop (rz_err _ _ _ _ Rs1)). cbv zeta.
  pose proof (acc_tok x r1 Rv Hs Hw (rz_err _ _ _ _ Rs1)) as Hacc. rewrite (tr_scalar fld a x Hs).
  destruct Rv as [Et Ev].
  destruct x; try destruct Hs; cbn [vtype] in *;
    try (destruct Hacc as (Hn0 & o & Eo & Ero); rewrite Hn0, Eo, Ero, rev_app_distr;
         rewrite (head_eq r1 fld a _ false F1 A1 Et); reflexivity).
  rewrite Hacc. rewrite (head_eq r1 fld a _ true F1 A1 Et). reflexivity.
Qed.

Lemma ctx_tl c e stk : tl (ctx_of_stk ((c, e) :: stk)) = ctx_of_stk stk.
Proof. reflexivity. Qed.

Lemma trav_close r c e stk rest outer depth acc m :
  PRE r [] (rest ++ outer) ((c, e) :: stk) -> top_ok stk outer -> RIO r ->
  exists r', traverse_loop ts (S m) r (S depth) acc = traverse_loop ts m r' depth (s "ok"%string :: [70] :: acc) /\
             RS r' rest outer stk /\ RIO r'.
Proof.
  intros (K & r0 & api & fuel & En0 & Hr & _ & _ & HK1 & _) T Rio. destruct K as [|k]; [lia|].
  pose proof Hr as [He Hf Hl Hc Hb T1].
  destruct (pre_next _ _ _ Hb) as (b1 & Hn & Hb1). cbn [app] in *.
  assert (Hpos : b_pos b1 = e).
  { pose proof Hb1 as [I Ein _ _ _ Nw]. pose proof (bcore_avail _ (proj1 I)) as A. unfold avail_ok in A.
    unfold top_ok in T1. rewrite Ein in A. lia. }
  destruct (b_next_container_end tot Htot b1 _ _ c e stk Hb1) as (b' & E1 & Hb' & Ec & Ep);
    [reflexivity|exact Hpos|].
  rewrite <- Hn in E1.
  assert (En : r_next ts r = (rs_eof (rs_bits r0 b') true, Ok false)).
  { rewrite En0, (loop_true api fuel k r0 _ (raw_eof ts api fuel r0 b' E1 Ec)). reflexivity. }
  pose proof (next_tok _ _ _ En) as Eop. cbn iota in Eop.
  destruct (step_out_eval tot Htot b' _ _ c e stk Hb' Ep) as (b'' & Eo & Hb'').
  set (r4 := rs_eof (rs_bits r0 b') true) in *.
  assert (Eso : r_op ts r4 OStepOut =
    (rs_eof (rs_ctx (r_clear (rs_bits r4 b'')) (tl (r_ctx r4))) false, Some (s "ok"%string))).
  { cbn [r_op]. unfold r_step_out. subst r4. rsimpl. rewrite He.
    rewrite (peek_stk (rs_eof (rs_bits r0 b') true) ((c, e) :: stk)) by (first [rsimpl; exact Hc|discriminate]).
    rsimpl. rewrite Eo. reflexivity. }
  eexists. split; [apply (iter_close m r r4 _ depth acc Eop Eso)|].
  split; [|eapply rio_step; [eapply rio_step; [exact Rio|exact Eop]|exact Eso]].
  subst r4. constructor; rsimpl; auto. rewrite Hc. reflexivity.
Qed.

Lemma trav_open x t body a fld rest outer stk r depth acc m :
  enc L x = enc_tagged (16 * t) body -> 11 <= t <= 13 -> (t = 13 -> length body <> 1%nat) ->
  (t = 13 -> exists fs, x = VStruct fs) -> wf_value x -> not_ann x ->
  PRE r (item_bytes fld ++ enc L (wrap_ann a x) ++ rest) outer stk -> RIO r ->
  fld_ok stk fld -> Forall wf_sym a -> Forall (known L) (map symtext a) -> lst_guard stk (map (rd_tok L) a) x ->
  exists r2 e, traverse_loop ts (S m) r depth acc =
                 traverse_loop ts m r2 (S depth) (s "ok"%string :: rev (tr_head L fld a t false) ++ acc) /\
             RS r2 body (rest ++ outer) ((bitcode_of_high t, e) :: stk) /\ RIO r2 /\ top_ok stk outer.
Proof.
  intros Ex Ht H13 Hst Hw Hna (K & r0 & api & fuel & En & Hr0 & Hf0 & Ha0 & HK1 & HK3) Rio Hfo Hws Hks G.
  assert (Hne : item_bytes fld ++ enc L (wrap_ann a x) ++ rest <> []).
  { intros E. apply app_eq_nil in E. destruct E as [_ E]. apply app_eq_nil in E. destruct E as [E _].
    destruct a; cbn [wrap_ann] in E; [exact (enc_nonempty L x Hw E)|]. cbn [enc] in E. exact (enc_tagged_nonempty _ _ E). }
  specialize (HK3 Hne). destruct K as [|[|[|k]]]; try lia.
  destruct (loop_prefix api fuel k r0 fld a x rest outer stk Hr0 Hf0 Ha0 Hfo Hw Hna Hws Hks) as (r0' & k' & E0 & M0).
  rewrite Ex in M0.
  assert (Hnl : t = 13 -> not_lst_pos r0').
  { intros E13. destruct (Hst E13) as (fs & ->). eapply guard_pos; [apply M0|apply M0|exact G|exact Logic.I]. }
  pose proof (md_top _ _ _ _ _ _ M0) as T.
  destruct (loop_container api fuel k' r0' t body rest outer stk _ _ M0 Ht H13 Hnl)
    as (r1 & E1 & F1 & A1 & Ety & Ev & He1 & Hf1 & Hl1 & Hc1 & Hb1 & Ec1 & El1).
  assert (Eop : r_op ts r ONext = (r1, Some [84])) by (apply (next_tok r r1 true); congruence).
  pose proof (rio_step _ _ _ _ Rio Eop) as Rio1.
  assert (Hcc : is_container_code (b_code (r_bits r1))).
  { rewrite Ec1. assert (C : t = 11 \/ t = 12 \/ t = 13) by lia. unfold is_container_code.
    destruct C as [C|[C|C]]; rewrite C; vm_compute; auto. }
  destruct (step_in_eval tot Htot (r_bits r1) _ stk Hb1 Hcc) as (b' & Es & Hb' & Ep).
  set (cx := if r_type r1 =? TList then 2 else if r_type r1 =? TSexp then 3 else 1).
  assert (Esi : r_op ts r1 OStepIn = (rs_bits (r_clear (rs_ctx r1 (cx :: r_ctx r1))) b', Some (s "ok"%string))).
  { cbn [r_op]. unfold r_step_in. subst cx. rewrite He1, Ev, Ety.
    replace (negb ((t =? TList) || (t =? TSexp) || (t =? TStruct))) with false
      by (unfold TList, TSexp, TStruct; lia).
    rsimpl. rewrite Es. reflexivity. }
  exists (rs_bits (r_clear (rs_ctx r1 (cx :: r_ctx r1))) b'), (b_pos (r_bits r1) + b_len (r_bits r1)).
  split; [|split; [|split; [eapply rio_step; eauto|exact T]]].
  - rewrite (iter_head m r r1 depth acc Eop He1). cbv zeta.
    assert (Hnn : r_is_null r1 = false) by (unfold r_is_null; rewrite Ev; apply andb_false_r).
    rewrite Hnn. replace (accessor_of (r_type r1)) with (@None rop).
    2:{ rewrite Ety. assert (C : t = 11 \/ t = 12 \/ t = 13) by lia. destruct C as [C|[C|C]]; rewrite C; reflexivity. }
    rewrite Esi. cbn [list_eqb]. replace (list_eqb (s "ok"%string) (s "ok"%string)) with true by reflexivity.
    rewrite (head_eq r1 fld a t false F1 A1 Ety). reflexivity.
  - rewrite Ec1 in Hb'. constructor; rsimpl; auto.
    + rewrite Hc1. subst cx. rewrite Ety. assert (C : t = 11 \/ t = 12 \/ t = 13) by lia.
      destruct C as [C|[C|C]]; rewrite C; reflexivity.
    + unfold top_ok. pose proof Hb1 as [I Ein _ _ _ Nw]. pose proof (bcore_avail _ (proj1 I)) as A.
      unfold avail_ok in A. rewrite Ein, !app_length in A. rewrite El1, app_length. lia.
Qed.

(* ---- a whole value, any depth -------------------------------------------------------------------------------------- *)
Definition top_guard (v : value) : Prop :=
  match v with VAnn a x => lst_guard [] (map (rd_tok L) a) x | _ => True end.

Definition AX (x : value) : Prop := forall a fld rest outer stk r depth acc m,
  Forall wf_sym a ->
  PRE r (item_bytes fld ++ enc L (wrap_ann a x) ++ rest) outer stk -> RIO r -> fld_ok stk fld ->
  Forall (known L) (map symtext a) -> Forall (known L) (texts [] x) ->
  (forall body, In body (ts_bodies x) -> ts body = Ok tt) -> lst_guard stk (map (rd_tok L) a) x ->
  exists r', traverse_loop ts (cost x + m) r depth acc = traverse_loop ts m r' depth (rev (tr_value L fld a x) ++ acc) /\
             RS r' rest outer stk /\ RIO r'.

Definition QV (v : value) : Prop := forall fld rest outer stk r depth acc m,
  PRE r (item_bytes fld ++ enc L v ++ rest) outer stk -> RIO r -> fld_ok stk fld ->
  Forall (known L) (texts [] v) -> (forall body, In body (ts_bodies v) -> ts body = Ok tt) ->
  (stk = [] -> top_guard v) ->
  exists r', traverse_loop ts (cost v + m) r depth acc = traverse_loop ts m r' depth (rev (tr_value L fld [] v) ++ acc) /\
             RS r' rest outer stk /\ RIO r'.

Lemma guard_nil stk x : lst_guard stk [] x.
Proof. intros _ H. discriminate H. Qed.
Lemma guard_deep p stk an x : lst_guard (p :: stk) an x.
Proof. intros H. discriminate H. Qed.

Lemma ax_qv k : (forall x, (cost x <= k)%nat -> not_ann x -> wf_value x -> AX x) ->
  forall v, (cost v <= k)%nat -> wf_value v -> QV v.
Proof.
  intros H v Hc Hw fld rest outer stk r depth acc m Hp Rio Hfo Hk Htb Hg.
  destruct v; try (apply (H _ Hc Logic.I Hw [] fld rest outer stk r depth acc m); first [assumption|apply guard_nil|constructor]).
  inversion Hw as [| | | | | | | | | | | | |? ? Hne Hws Hna Hwx]; subst. cbn [cost] in Hc. cbn [texts app] in Hk.
  apply texts_forall in Hk. destruct Hk as [Hk1 Hk2].
  assert (Ew : wrap_ann a v = VAnn a v) by (destruct a; [contradiction|reflexivity]).
  apply (H v Hc Hna Hwx a fld rest outer stk r depth acc m); auto; [rewrite Ew; exact Hp|].
  destruct stk; [apply Hg; reflexivity|apply guard_deep].
Qed.

Definition item_enc (p : option symv * value) : list N := item_bytes (fst p) ++ enc L (snd p).
Definition item_tr (p : option symv * value) : list (list N) := tr_value L (fst p) [] (snd p).
Definition items_cost (items : list (option symv * value)) : nat :=
  fold_right (fun p n => cost (snd p) + n)%nat 0%nat items.

Lemma forest k : (forall v, (cost v <= k)%nat -> wf_value v -> QV v) ->
  forall items outer stk,
  Forall (fun p => (cost (snd p) <= k)%nat /\ wf_value (snd p) /\ fld_ok stk (fst p) /\
                   Forall (known L) (texts [] (snd p)) /\
                   (forall body, In body (ts_bodies (snd p)) -> ts body = Ok tt) /\
                   (stk = [] -> top_guard (snd p))) items ->
  forall rest r depth acc m, PRE r (flat_map item_enc items ++ rest) outer stk -> RIO r ->
  exists r', traverse_loop ts (items_cost items + m) r depth acc =
               traverse_loop ts m r' depth (rev (flat_map item_tr items) ++ acc) /\
             PRE r' rest outer stk /\ RIO r' /\ ((items = [] /\ r' = r) \/ RS r' rest outer stk).
Proof.
  intros H items outer stk Hall. induction Hall as [|p items (Hc & Hw & Hfo & Hk & Htb & Hg) _ IH];
    intros rest r depth acc m Hp Rio.
  - exists r. split; [reflexivity|]. split; [assumption|]. split; [assumption|left; split; reflexivity].
  - cbn [flat_map items_cost fold_right] in *. unfold item_enc in Hp at 1. rewrite <- !app_assoc in Hp.
    destruct (H (snd p) Hc Hw (fst p) (flat_map item_enc items ++ rest) outer stk r depth acc (items_cost items + m)%nat
                Hp Rio Hfo Hk Htb Hg) as (r1 & E1 & Rs1 & Rio1).
    destruct (IH rest r1 depth (rev (tr_value L (fst p) [] (snd p)) ++ acc) m (RS_PRE _ _ _ _ Rs1) Rio1)
      as (r2 & E2 & P2 & Rio2 & Hor).
    exists r2. split; [|split; [assumption|split; [assumption|right]]].
    2:{ destruct Hor as [[Ei Er]|Hr2]; [rewrite Er; rewrite Ei in Rs1; exact Rs1|exact Hr2]. }
    unfold items_cost in *. rewrite <- Nat.add_assoc, E1, E2. unfold item_tr at 2. rewrite rev_app_distr, <- app_assoc.
    reflexivity.
Qed.

Lemma cost_pos v : (1 <= cost v)%nat.
Proof. induction v; cbn [cost]; lia. Qed.

Lemma ax_container k x t items :
  (forall v, (cost v <= k)%nat -> wf_value v -> QV v) ->
  enc L x = enc_tagged (16 * t) (flat_map item_enc items) -> 11 <= t <= 13 ->
  (t = 13 -> length (flat_map item_enc items) <> 1%nat) -> (t = 13 -> exists fs, x = VStruct fs) ->
  cost x = (2 + items_cost items)%nat ->
  (forall fld a, tr_value L fld a x = tr_head L fld a t false ++ [s "ok"%string] ++ flat_map item_tr items ++
                                      [[70]; s "ok"%string]) ->
  (forall e stk, Forall (known L) (texts [] x) -> (forall body, In body (ts_bodies x) -> ts body = Ok tt) ->
     Forall (fun p => (cost (snd p) <= k)%nat /\ wf_value (snd p) /\ fld_ok ((bitcode_of_high t, e) :: stk) (fst p) /\
                   Forall (known L) (texts [] (snd p)) /\
                   (forall body, In body (ts_bodies (snd p)) -> ts body = Ok tt) /\
                   ((bitcode_of_high t, e) :: stk = [] -> top_guard (snd p))) items) ->
  wf_value x -> not_ann x -> AX x.
Proof.
  intros H Ex Ht H13 Hst Hcost Htr Hitems Hw Hna a fld rest outer stk r depth acc m Hws Hp Rio Hfo Hka Hkx Htb G.
  rewrite Hcost. cbn [Nat.add].
  destruct (trav_open x t _ a fld rest outer stk r depth acc (items_cost items + S m) Ex Ht H13 Hst Hw Hna Hp Rio Hfo Hws Hka G)
    as (r2 & e & E2 & Rs2 & Rio2 & T).
  assert (P2 : PRE r2 (flat_map item_enc items ++ []) (rest ++ outer) ((bitcode_of_high t, e) :: stk))
    by (rewrite app_nil_r; apply RS_PRE; exact Rs2).
  set (acc2 := s "ok"%string :: rev (tr_head L fld a t false) ++ acc) in *.
  destruct (forest k H items (rest ++ outer) _ (Hitems e stk Hkx Htb) [] r2 (S depth) acc2 (S m) P2 Rio2)
    as (r3 & E3 & P3 & Rio3 & _).
  destruct (trav_close r3 _ e stk rest outer depth (rev (flat_map item_tr items) ++ acc2) m P3 T Rio3)
    as (r4 & E4 & Rs4 & Rio4).
  exists r4. split; [|split; assumption].
  replace (S (items_cost items + S m)) with (S (items_cost items + S m)) by reflexivity.
  rewrite <- Nat.add_succ_r. rewrite E2, E3, E4. rewrite Htr. f_equal.
  subst acc2. rewrite !rev_app_distr. cbn [rev app]. rewrite <- !app_assoc. reflexivity.
Qed.

Lemma fm_map {A B C} (f : B -> list C) (g : A -> B) l : flat_map f (map g l) = flat_map (fun x => f (g x)) l.
Proof. induction l; cbn [map flat_map]; [reflexivity|rewrite IHl; reflexivity]. Qed.
Lemma cost_map {A} (g : A -> option symv * value) l :
  items_cost (map g l) = fold_right (fun x n => cost (snd (g x)) + n)%nat 0%nat l.
Proof. induction l; cbn [map items_cost fold_right]; [reflexivity|]. unfold items_cost in IHl. rewrite IHl. reflexivity. Qed.
Lemma cost_in {A} (c : A -> nat) l x : In x l -> (c x <= fold_right (fun x n => c x + n)%nat 0%nat l)%nat.
Proof. induction l; cbn [In fold_right]; [tauto|]. intros [->|H]; [lia|]. specialize (IHl H). lia. Qed.
Lemma flat_map_ext' {A B} (f g : A -> list B) l : (forall x, f x = g x) -> flat_map f l = flat_map g l.
Proof. intros H. induction l; cbn [flat_map]; [reflexivity|]. rewrite H, IHl. reflexivity. Qed.

Lemma ax_all n : forall x, (cost x <= n)%nat -> not_ann x -> wf_value x -> AX x.
Proof.
  induction n as [|n IH]; intros x Hc Hna Hw; [pose proof (cost_pos x); lia|].
  pose proof (ax_qv n IH) as QVn.
  destruct x; try destruct Hna;
    try (intros a fld rest outer stk r depth acc m Hws Hp Rio Hfo Hka Hkx Htb G;
         exact (trav_scalar _ a fld rest outer stk r depth acc m Hw Logic.I Hp Rio Hfo Hws Hka Hkx Htb G)).
  - (* list *)
    inversion Hw as [| | | | | | | | | |? Hwl| | | ]; subst. cbn [cost] in Hc.
    apply (ax_container n (VList l) 11 (map (fun v => (None, v)) l)); auto; try lia; try discriminate; try exact Logic.I.
    + cbn [enc]. rewrite fm_map. reflexivity.
    + cbn [cost]. rewrite cost_map. reflexivity.
    + intros fld a. cbn [tr_value]. rewrite fm_map. reflexivity.
    + intros e stk Hk Htb. rewrite Forall_map. rewrite Forall_forall in *. intros v Hin. cbn [fst snd].
      pose proof (cost_in cost l v Hin). split; [lia|]. split; [auto|]. split; [reflexivity|].
      split; [|split; [|discriminate]].
      * apply Forall_forall. intros t Ht. apply Hk. cbn [texts app]. apply in_flat_map. eauto.
      * intros body Hb. apply Htb. cbn [ts_bodies]. apply in_flat_map. eauto.
  - (* sexp *)
    inversion Hw as [| | | | | | | | | | |? Hwl| | ]; subst. cbn [cost] in Hc.
    apply (ax_container n (VSexp l) 12 (map (fun v => (None, v)) l)); auto; try lia; try discriminate; try exact Logic.I.
    + cbn [enc]. rewrite fm_map. reflexivity.
    + cbn [cost]. rewrite cost_map. reflexivity.
    + intros fld a. cbn [tr_value]. rewrite fm_map. reflexivity.
    + intros e stk Hk Htb. rewrite Forall_map. rewrite Forall_forall in *. intros v Hin. cbn [fst snd].
      pose proof (cost_in cost l v Hin). split; [lia|]. split; [auto|]. split; [reflexivity|].
      split; [|split; [|discriminate]].
      * apply Forall_forall. intros t Ht. apply Hk. cbn [texts app]. apply in_flat_map. eauto.
      * intros body Hb. apply Htb. cbn [ts_bodies]. apply in_flat_map. eauto.
  - (* struct *)
    inversion Hw as [| | | | | | | | | | | |? Hwf| ]; subst. cbn [cost] in Hc.
    apply (ax_container n (VStruct l) 13 (map (fun p => (Some (fst p), snd p)) l)); auto; try lia; try exact Logic.I.
    + cbn [enc]. rewrite fm_map. f_equal. apply flat_map_ext'. intros [n0 v]. reflexivity.
    + intros _. rewrite fm_map. destruct l as [|[n0 v] fs]; [discriminate|]. cbn [flat_map]. unfold item_enc at 1.
      cbn [fst snd item_bytes]. inversion Hwf as [|? ? [_ Hv] _]; subst. cbn [snd] in Hv.
      rewrite !app_length. pose proof (length_pos_nonempty _ (append_varuint_nonempty (sid L (symtext n0)))).
      pose proof (length_pos_nonempty _ (enc_nonempty L v Hv)). lia.
    + intros _. eauto.
    + cbn [cost]. rewrite cost_map. reflexivity.
    + intros fld a. cbn [tr_value]. rewrite fm_map. do 3 f_equal. apply flat_map_ext'. intros [n0 v]. reflexivity.
    + intros e stk Hk Htb. rewrite Forall_map. rewrite Forall_forall in *. intros [n0 v] Hin. cbn [fst snd].
      pose proof (cost_in (fun p => cost (snd p)) l (n0, v) Hin) as Hci. cbn [snd] in Hci.
      destruct (Hwf _ Hin) as [Hwn Hwv]. cbn [fst snd] in *.
      assert (Hkk : Forall (known L) (texts [symtext n0] v)).
      { apply Forall_forall. intros t Ht. apply Hk. cbn [texts app]. apply in_flat_map. exists (n0, v). split; assumption. }
      apply texts_forall in Hkk. destruct Hkk as [Hk1 Hk2]. inversion Hk1; subst.
      split; [lia|]. split; [exact Hwv|]. split; [split; [reflexivity|split; assumption]|].
      split; [exact Hk2|]. split; [|discriminate].
      intros body Hb. apply Htb. cbn [ts_bodies]. apply in_flat_map. exists (n0, v). split; assumption.
Qed.

Theorem value_traversed v : wf_value v -> QV v.
Proof. intros Hw. apply (ax_qv (cost v) (ax_all (cost v))); [lia|exact Hw]. Qed.
End Trav.
