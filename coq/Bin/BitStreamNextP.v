(* BitStreamNextP.v — the bitstream invariant through ReadAnnotations and Next. *)
From Coq Require Import String List NArith ZArith Bool Lia ZifyBool ZifyN ZifyNat.
From IonV Require Import Base.Wire Base.Utf8 Bin.Bits Data.Ion Num.Float Bin.BitStream Bin.BitStreamP.
Import ListNotations.
Open Scope N_scope.
Ltac Zify.zify_post_hook ::= Z.div_mod_to_equations.

Ltac bsimpl :=
  cbn [b_in b_ioerr b_pos b_state b_stack b_code b_null b_len b_alloc b_avail b_fuel
       upd_in upd_state upd_stack upd_cur upd_alloc b_clear done_value fst snd] in *.
Ltac fin_err W := split; [exact W|split; cbn [snd]; [discriminate|intros ? HH; discriminate HH]].
Ltac wle_up W := revert W; unfold wle, avail_ok; bsimpl; intro W; exact W.

(* ---- ReadAnnotations -------------------------------------------------------------------------------------------- *)
Lemma annot_loop_spec ok fuel : forall b left acc, avail_ok b -> b_pos b < two64 -> left < two64 ->
  lspec b (annot_loop fuel b ok left acc) (fun b' _ => exists k, adv k b b' /\ k <= left) /\
  ((length (b_in b) < fuel)%nat -> snd (annot_loop fuel b ok left acc) <> OutOfFuel).
Proof.
  induction fuel as [|f IH]; intros b left acc A P Hl; cbn [annot_loop].
  - split; [|lia]. fin_err (wle_refl b A).
  - destruct (left =? 0) eqn:E0.
    { split; [|cbn; discriminate]. split; [apply wle_refl; exact A|]. split; cbn [snd fst]; [discriminate|].
      intros v _. exists 0. split; [apply adv_refl; exact P|lia]. }
    destruct (b_read_varuint_spec b left A) as [(W & Np & Post) Of].
    destruct (b_read_varuint b left) as [b1 [[id l]| | |]] eqn:E; cbn [fst snd] in *; try tauto.
    2:{ split; [|cbn; discriminate]. fin_err W. }
    destruct (Post (id, l) eq_refl) as (Ad & L1 & L2 & L3).
    destruct (ok id); [|split; [|cbn; discriminate]; fin_err W].
    assert (En : wrap64 (left + two64 - l) = left - l) by (unfold wrap64, two64 in *; lia). rewrite En.
    pose proof (wle_avail _ _ W) as Av1. pose proof (adv_pos_lt _ _ _ Ad) as P1.
    assert (Hl1 : left - l < two64) by lia.
    destruct (IH b1 (left - l) (id :: acc) Av1 P1 Hl1) as [(W2 & Np2 & Post2) Of2].
    split.
    + split; [eapply wle_trans; eauto|]. split; [exact Np2|].
      intros v Hv. destruct (Post2 v Hv) as (k & Ak & Lk). exists (l + k). split; [|lia].
      eapply adv_trans; eauto.
    + intros Hf. apply Of2. rewrite (adv_in _ _ _ Ad), skipn_length. pose proof (adv_le _ _ _ Ad). unfold avail_ok in A. lia.
Qed.

Lemma validate_len_loop_ok fuel : forall b counter val rem,
  validate_len_loop fuel b counter val rem <> Panic /\
  ((length (b_in b) - N.to_nat counter < fuel)%nat -> validate_len_loop fuel b counter val rem <> OutOfFuel).
Proof.
  induction fuel as [|f IH]; intros b counter val rem; cbn [validate_len_loop].
  - split; [discriminate|lia].
  - destruct (4096 <=? counter); [split; discriminate|].
    unfold b_peek. destruct (nth_error (b_in b) (N.to_nat counter)) as [c|] eqn:E; [|split; discriminate].
    destruct (128 <=? c); [split; discriminate|].
    destruct (IH b (counter + 1) (wrap64 (val * 128) + c mod 128) (wrap64 (rem + two64 - 1))) as [H1 H2].
    split; [exact H1|]. intros Hf. apply H2.
    assert (N.to_nat counter < length (b_in b))%nat by (apply nth_error_Some; congruence). lia.
Qed.

Lemma b_validate_annotated_ok b rem : (length (b_in b) + 2 <= b_fuel b)%nat ->
  b_validate_annotated b rem <> Panic /\ b_validate_annotated b rem <> OutOfFuel.
Proof.
  intros Hf. unfold b_validate_annotated. destruct (b_peek b 0); try (split; discriminate).
  destruct (b_parse_tag a) as [code length].
  destruct (length =? 15); [destruct (rem =? 1); split; discriminate|].
  destruct (code =? bcNull); [split; discriminate|].
  destruct (code =? bcAnnotation); [split; discriminate|].
  match goal with |- context [if ?c then match ?X with _ => _ end else _] => destruct c; [|destruct (_ =? _); split; discriminate] end.
  match goal with |- context [validate_len_loop ?f ?b ?c ?v ?r] =>
    destruct (validate_len_loop_ok f b c v r) as [H1 H2]; destruct (validate_len_loop f b c v r) as [[l r']| | |] end.
  - destruct (l =? r'); split; discriminate.
  - split; discriminate.
  - exfalso; apply H1; reflexivity.
  - exfalso; apply H2; [lia|reflexivity].
Qed.

Lemma b_read_annotations_spec b ok : binv b -> b_state b = bssOnValue -> b_code b = bcAnnotation ->
  ospec b (b_read_annotations b ok) (fun b' _ => vpost b b' /\ b_avail b' < b_avail b).
Proof.
  intros I Ev Hc. pose proof I as (C & F & L0). pose proof (bcore_avail _ C) as A.
  pose proof C as (Wk & _ & P & _). destruct (F Ev) as [R Nw].
  assert (Nb : b_code b <> bcBVM) by (rewrite Hc; discriminate). specialize (Nw Nb).
  unfold b_read_annotations. rewrite Hc. cbn [N.eqb Pos.eqb bcAnnotation negb].
  destruct (b_read_varuint_spec b (b_len b) A) as [(W & Np & Post) Of].
  destruct (b_read_varuint b (b_len b)) as [b1 [[alen llen]| | |]] eqn:E; cbn [fst snd] in *; try tauto;
    [|apply ospec_err; exact W].
  destruct (Post (alen, llen) eq_refl) as (Ad & L1 & L2 & L3).
  destruct (alen =? 0) eqn:Ea; [apply ospec_err; exact W|].
  assert (En : wrap64 (b_len b + two64 - llen) = b_len b - llen) by (unfold wrap64, two64 in *; lia). rewrite En.
  destruct (b_len b - llen <? alen) eqn:Eb; [apply ospec_err; exact W|].
  assert (En2 : wrap64 (b_len b - llen + two64 - alen) = b_len b - llen - alen) by (unfold wrap64, two64 in *; lia).
  rewrite En2.
  destruct (b_len b - llen - alen =? 0) eqn:Ec; [apply ospec_err; exact W|].
  pose proof (wle_avail _ _ W) as Av1. pose proof (adv_pos_lt _ _ _ Ad) as P1.
  assert (Hal : alen < two64) by lia.
  destruct (annot_loop_spec ok (b_fuel b1) b1 alen [] Av1 P1 Hal) as [(W2 & Np2 & Post2) Of2].
  assert (Fu : (length (b_in b1) + 2 <= b_fuel b1)%nat).
  { pose proof (wk_wle _ _ Wk W) as (_ & Fu & _). exact Fu. }
  destruct (annot_loop (b_fuel b1) b1 ok alen []) as [b2 [ids| | |]] eqn:E2; cbn [fst snd] in *.
  - destruct (Post2 ids eq_refl) as (k & Ak & Lk).
    assert (W12 : wle b b2) by (eapply wle_trans; eauto).
    assert (Fu2 : (length (b_in b2) + 2 <= b_fuel b2)%nat).
    { pose proof (wk_wle _ _ Wk W12) as (_ & Fu2 & _). exact Fu2. }
    destruct (b_validate_annotated_ok b2 (b_len b - llen - alen) Fu2) as [V1 V2].
    destruct (b_validate_annotated b2 (b_len b - llen - alen)); try tauto; [|apply ospec_err; exact W12].
    assert (Ad2 : adv (llen + k) b b2) by (eapply adv_trans; eauto).
    assert (R2 : room b (llen + k)).
    { revert R. unfold room. destruct (b_stack b) as [|[c e] rest]; [trivial|]. lia. }
    destruct (finish b (llen + k) b2 bssBeforeValue C Ad2 R2 (or_introl eq_refl)) as (Wf & O1 & Q1 & S1 & Av & Le).
    apply ospec_ok; [exact Wf|]. split; [|lia]. split; [exact O1|]. split; [exact Q1|]. split; [exact S1|lia].
  - apply ospec_err. eapply wle_trans; eauto.
  - exfalso; apply Np2; reflexivity.
  - exfalso; apply Of2; [lia|reflexivity].
Qed.

(* ---- Next ------------------------------------------------------------------------------------------------------- *)
Definition npost (b b' : bstate) : Prop :=
  opost b b' /\ b_stack b' = b_stack b /\ b_avail b' <= b_avail b /\
  1 <= b_code b' <= 19 /\
  (b_code b' = bcFieldID -> b_state b' = bssOnFieldID) /\
  (b_code b' = bcBVM -> b_stack b' = []) /\
  (b_code b' <> bcEOF -> b_code b' <> bcFieldID -> b_state b' = bssOnValue /\ b_avail b' < b_avail b).

Definition reach (b b' : bstate) : Prop :=
  bcore b' /\ wle b b' /\ (exists k, moved k b b' /\ room b k) /\ b_stack b' = b_stack b /\
  b_len b' = b_len b /\ b_avail b' <= b_avail b.

Lemma reach_refl b : bcore b -> reach b b.
Proof.
  intros C. pose proof C as (_ & _ & P & _). split; [exact C|]. split; [apply wle_refl; apply bcore_avail; exact C|].
  split; [exists 0; split; [apply moved_refl; exact P|apply room_0; exact C]|]. split; [reflexivity|]. split; [reflexivity|lia].
Qed.

Lemma room_trans b b1 k0 k : bcore b -> moved k0 b b1 -> room b k0 -> b_stack b1 = b_stack b -> room b1 k ->
  room b (k0 + k).
Proof.
  intros (_ & _ & P & Sk) M R0 Es R1. unfold room in *. rewrite Es in R1.
  destruct (b_stack b) as [|[c e] rest]; [trivial|]. cbn [stk_ok] in Sk.
  rewrite (mv_pos _ _ _ M) in R1. unfold wrap64, two64 in *. lia.
Qed.

Lemma reach_adv b b1 k b2 : bcore b -> reach b b1 -> adv k b1 b2 -> room b1 k ->
  reach b b2 /\ b_avail b2 = b_avail b1 - k /\ k <= b_avail b1 /\ b_state b2 = b_state b1 /\
  (forall n, n <= rem_of b1 - k -> room b2 n).
Proof.
  intros C (C1 & W1 & (k0 & M0 & R0) & S1 & Ln1 & Av1) Ad R.
  destruct (settle _ _ _ C1 Ad R) as (C2 & M & Hne & He).
  pose proof (adv_stack _ _ _ Ad) as adv_stack0. pose proof (adv_len _ _ _ Ad) as adv_len0.
  pose proof (adv_avail _ _ _ Ad) as adv_avail0.
  split; [|split; [exact (adv_avail _ _ _ Ad)|split; [exact (adv_le _ _ _ Ad)|split; [exact (adv_state _ _ _ Ad)|]]]].
  - split; [exact C2|]. split; [eapply wle_trans; [apply bcore_avail; exact C|exact W1|eapply adv_wle; [apply bcore_avail; exact C1|exact Ad]]|].
    split; [exists (k0 + k); split; [eapply moved_trans; eauto|eapply room_trans; eauto]|].
    split; [congruence|]. split; [congruence|lia].
  - intros n Hn. destruct (b_stack b1) as [|x rest] eqn:Es.
    + unfold room. rewrite adv_stack0. exact I.
    + apply room_rem; [exact C2|]. destruct Hne as [_ Hr]; [discriminate|]. lia.
Qed.

Lemma reach_state b b1 st : reach b b1 -> st <= 3 -> reach b (upd_state b1 st).
Proof.
  intros (C1 & W1 & (k0 & M0 & R0) & S1 & Ln1 & Av1) Hs.
  split; [|split; [wle_up W1|split; [exists k0; split; [destruct M0; constructor; bsimpl; assumption|exact R0]|bsimpl; auto]]].
  destruct C1 as (Wk & St & P & Sk). split; [exact Wk|]. split; [exact Hs|]. split; assumption.
Qed.

Lemma boh_range h : let c := bitcode_of_high h in c = 0 \/ (3 <= c <= 17 /\ c <> 5) \/ c = 19.
Proof.
  unfold bitcode_of_high.
  repeat match goal with |- context [if ?c then _ else _] => destruct c end; cbv zeta;
    unfold bcNull, bcFalse, bcInt, bcNegInt, bcFloat, bcDecimal, bcTimestamp, bcSymbol, bcString, bcClob, bcBlob,
           bcList, bcSexp, bcStruct, bcAnnotation, bcNone; lia.
Qed.

Lemma npost_value b b5 code nl len : reach b b5 -> b_state b5 = bssOnValue -> b_avail b5 < b_avail b ->
  (3 <= code <= 17 \/ code = 19) -> room b5 len -> b_pos b5 + len < two64 ->
  wle b (upd_cur b5 code nl len) /\ npost b (upd_cur b5 code nl len).
Proof.
  intros (C1 & W1 & (k0 & M0 & R0) & S1 & Ln1 & Av1) Ev Hav Hc R Hp.
  split; [wle_up W1|]. unfold npost. bsimpl.
  split; [|split; [exact S1|split; [lia|split; [lia|split; [|split; [|intros _ _; split; [exact Ev|exact Hav]]]]]]].
  - split; [|exists k0; split; [destruct M0; constructor; bsimpl; assumption|exact R0]].
    split; [exact C1|]. bsimpl. split; [intros _; split; [exact R|intros _; exact Hp]|].
    intros Hn. contradiction.
  - intros E. exfalso. unfold bcFieldID in E. lia.
  - intros E. exfalso. unfold bcBVM in E. lia.
Qed.

Lemma npost_bvm b b5 nl : reach b b5 -> b_state b5 = bssOnValue -> b_avail b5 < b_avail b -> b_stack b5 = [] ->
  wle b (upd_cur b5 bcBVM nl 3) /\ npost b (upd_cur b5 bcBVM nl 3).
Proof.
  intros (C1 & W1 & (k0 & M0 & R0) & S1 & Ln1 & Av1) Ev Hav Es.
  split; [wle_up W1|]. unfold npost. bsimpl.
  split; [|split; [exact S1|split; [lia|split; [unfold bcBVM; lia|split; [discriminate|split; [intros _; exact Es|intros _ _; split; [exact Ev|exact Hav]]]]]]].
  split; [|exists k0; split; [destruct M0; constructor; bsimpl; assumption|exact R0]].
  split; [exact C1|]. bsimpl. split; [|intros Hn; contradiction].
  intros _. split; [unfold room; bsimpl; rewrite Es; exact I|intros Hn; exfalso; apply Hn; reflexivity].
Qed.

Lemma b_next_quiet b : binv b -> quiet b -> ospec b (b_next b) (fun b' _ => npost b b').
Proof.
  intros I Q. pose proof I as (C & F & L0). pose proof (bcore_avail _ C) as A.
  pose proof C as (Wk & St & P & Sk).
  assert (Len : b_len b = 0) by (apply L0; destruct Q as [Q|Q]; rewrite Q; discriminate).
  assert (Nv : b_state b <> bssOnValue) by (destruct Q as [Q|Q]; rewrite Q; discriminate).
  unfold b_next.
  replace ((b_state b =? bssOnValue) || (b_state b =? bssOnFieldID)) with false
    by (destruct Q as [Q|Q]; rewrite Q; reflexivity).
  cbv iota beta.
  assert (Kq : forall code, 1 <= code <= 19 -> code <> bcBVM -> code = bcEOF \/ code = bcFieldID ->
            forall st, (code = bcFieldID -> st = bssOnFieldID) -> st <> bssOnValue -> st <= 3 ->
            ospec b (upd_state (upd_cur b code (b_null b) (b_len b)) st, Ok tt) (fun b' _ => npost b b')).
  { intros code Hc1 Hc2 Hc3 st Hst1 Hst2 Hst3. apply ospec_ok; [pose proof (wle_refl b A) as W; wle_up W|].
    unfold npost. bsimpl.
    split; [|split; [reflexivity|split; [lia|split; [exact Hc1|split; [exact Hst1|split; [intros E; contradiction|intros E1 E2; tauto]]]]]].
    split; [|exists 0; split; [pose proof (moved_refl b P) as []; constructor; bsimpl; assumption|apply room_0; exact C]].
    split; [split; [exact Wk|split; [exact Hst3|split; assumption]]|]. bsimpl.
    split; [intros E; contradiction|intros _; exact Len]. }
  destruct (match b_stack b with (_, e) :: _ => b_pos b =? e | [] => false end) eqn:Ee.
  { destruct (match b_stack b with (k, _) :: _ => (k =? bcStruct) && (b_state b =? bssBeforeValue) | [] => false end) eqn:Ed;
      [apply ospec_err; exact (wle_refl b A)|].
    replace (upd_cur b bcEOF (b_null b) (b_len b)) with (upd_state (upd_cur b bcEOF (b_null b) (b_len b)) (b_state b))
      by (destruct b; reflexivity).
    apply Kq; try (unfold bcEOF, bcBVM, bcFieldID; lia); auto; discriminate. }
  destruct (b_state b =? bssBeforeFieldID) eqn:Ef.
  { apply Kq; try (unfold bcEOF, bcBVM, bcFieldID, bssOnFieldID, bssOnValue; lia); auto. }
  assert (St0 : b_state b = bssBeforeValue) by (destruct Q as [Q|Q]; [exact Q|unfold bssBeforeFieldID in *; lia]).
  pose proof (b_read_wle b A) as Wr. pose proof (b_read_nopanic b) as [Npr Nfr].
  destruct (b_read b) as [b2 [[c|]| | |]] eqn:Er; cbn [fst snd] in *; try tauto; [| |apply ospec_err; exact Wr].
  2:{ destruct (b_read_none _ _ Er) as [Ein Eb2]. subst b2. bsimpl.
      destruct (b_stack b) as [|x rest] eqn:Es; [|apply ospec_err; exact Wr].
      apply ospec_ok; [wle_up Wr|]. unfold npost. bsimpl. rewrite Es.
      split; [|split; [reflexivity|split; [lia|split; [unfold bcEOF; lia|split; [discriminate|split; [discriminate|intros E; exfalso; apply E; reflexivity]]]]]].
      split.
      - split; [|bsimpl; split; [intros E; contradiction|intros _; exact Len]].
        split; [eapply wk_wle; [exact Wk|wle_up Wr]|]. bsimpl. split; [exact St|]. split; [unfold wrap64, two64; lia|].
        rewrite Es. exact Logic.I.
      - exists 1. split; [|unfold room; rewrite Es; exact Logic.I]. constructor; bsimpl; try reflexivity.
        + rewrite Ein. reflexivity.
        + unfold avail_ok in A. rewrite Ein in A. cbn [length] in A. lia. }
  pose proof (b_read_some _ _ _ A Er) as A1.
  assert (R1 : room b 1).
  { unfold room. destruct (b_stack b) as [|[c0 e] rest]; [trivial|]. cbn [stk_ok] in Sk. lia. }
  destruct (reach_adv b b 1 b2 C (reach_refl b C) A1 R1) as (Rc2 & Av2 & Le2 & St2 & _).
  destruct (b_parse_tag c) as [code length] eqn:Et.
  assert (Hc : code = 0 \/ (3 <= code <= 17 /\ code <> 5) \/ code = 19).
  { unfold b_parse_tag in Et. inversion Et. apply boh_range. }
  clear Et.
  match goal with |- ospec _ (match ?X with _ => _ end) _ => set (x := X) end.
  assert (Hx : match x with
               | (b3, Ok (l, lr)) => reach b b3 /\ b_avail b3 < b_avail b /\ b_state b3 = bssBeforeValue
               | (b3, Err) => wle b b3
               | _ => False end).
  { subst x. destruct ((code =? bcStruct) && (length =? 1)); [|split; [exact Rc2|split; [lia|congruence]]].
    pose proof Rc2 as (C2 & W2 & _). destruct (rem_ok b2 C2) as [Er2 _]. rewrite Er2.
    destruct (b_read_varuint_spec b2 (rem_of b2) (bcore_avail _ C2)) as [(W & Np & Post) Of].
    destruct (b_read_varuint b2 (rem_of b2)) as [b3 [[l ll]| | |]] eqn:E3; cbn [fst snd] in *; try tauto;
      [|eapply wle_trans; eauto].
    destruct (Post (l, ll) eq_refl) as (Ad & L1 & L2 & L3).
    assert (R2 : room b2 ll) by (apply room_rem; [exact C2|lia]).
    destruct (reach_adv b b2 ll b3 C Rc2 Ad R2) as (Rc3 & Av3 & Le3 & St3 & _).
    destruct (l =? 0); [apply Rc3|]. split; [exact Rc3|split; [lia|congruence]]. }
  clearbody x. destruct x as [b3 [[l lr]| | |]]; try contradiction; [|apply ospec_err; exact Hx].
  destruct Hx as (Rc3 & Av3 & St3).
  destruct (code =? bcNone) eqn:En; [apply ospec_err; apply Rc3|].
  cbv zeta. set (b4 := upd_state b3 bssOnValue).
  assert (Rc4 : reach b b4) by (apply reach_state; [exact Rc3|unfold bssOnValue; lia]).
  assert (Ev4 : b_state b4 = bssOnValue) by reflexivity.
  assert (Av4 : b_avail b4 < b_avail b) by exact Av3.
  pose proof Rc4 as (C4 & W4 & _ & S4 & Ln4 & _).
  destruct ((code =? bcAnnotation) && (l =? 0)) eqn:Ea0.
  { destruct (b_stack b4) eqn:Es4; [|apply ospec_err; exact W4].
    destruct (npost_bvm b b4 (b_null b4) Rc4 Ev4 Av4 Es4) as [Wv Nv']. apply ospec_ok; assumption. }
  destruct ((code =? bcAnnotation) && (l =? 15)); [apply ospec_err; exact W4|].
  match goal with |- ospec _ (match ?Y with Some _ => _ | None => _ end) _ => set (y := Y) end.
  assert (Hy : match y with Some (c', _) => c' = code \/ c' = bcTrue | None => True end).
  { subst y. destruct (code =? bcFalse); [|left; reflexivity].
    destruct ((l =? 0) || (l =? 15)); [left; reflexivity|]. destruct (l =? 1); [right; reflexivity|exact Logic.I]. }
  clearbody y. destruct y as [[c' l']|]; [|apply ospec_err; exact W4].
  assert (Hc' : 3 <= c' <= 17 \/ c' = 19) by (unfold bcNone, bcTrue in *; lia).
  destruct ((c' =? bcNegInt) && (l' =? 15)); [apply ospec_err; exact W4|].
  destruct ((l' =? 15) && negb lr).
  { assert (R0 : room b4 (b_len b4)) by (rewrite Ln4, Len; apply room_0; exact C4).
    assert (P0 : b_pos b4 + b_len b4 < two64) by (rewrite Ln4, Len; destruct C4 as (_ & _ & P4 & _); lia).
    destruct (npost_value b b4 c' true (b_len b4) Rc4 Ev4 Av4 Hc' R0 P0) as [Wv Nv']. apply ospec_ok; assumption. }
  destruct (rem_ok b4 C4) as [Er4 Rl4]. rewrite Er4.
  match goal with |- ospec _ (match ?Z with _ => _ end) _ => set (z := Z) end.
  assert (Hz : match z with
               | (b5, Ok (l5, rem5)) => reach b b5 /\ b_avail b5 < b_avail b /\ b_state b5 = bssOnValue /\
                                        rem5 < two64 /\ (l5 <= rem5 -> room b5 l5)
               | (b5, Err) => wle b b5
               | _ => False end).
  { subst z. destruct ((l' =? 14) && negb lr).
    - destruct (b_read_varuint_spec b4 (rem_of b4) (bcore_avail _ C4)) as [(W & Np & Post) Of].
      destruct (b_read_varuint b4 (rem_of b4)) as [b5 [[l5 ll]| | |]] eqn:E5; cbn [fst snd] in *; try tauto;
        [|eapply wle_trans; [exact A|exact W4|exact W]].
      destruct (Post (l5, ll) eq_refl) as (Ad & L1 & L2 & L3).
      assert (R4 : room b4 ll) by (apply room_rem; [exact C4|lia]).
      destruct (reach_adv b b4 ll b5 C Rc4 Ad R4) as (Rc5 & Av5 & Le5 & St5 & Rm5).
      assert (Ew : wrap64 (rem_of b4 + two64 - ll) = rem_of b4 - ll) by (unfold wrap64, two64 in *; lia).
      rewrite Ew. split; [exact Rc5|]. split; [lia|]. split; [congruence|]. split; [lia|]. apply Rm5.
    - split; [exact Rc4|]. split; [exact Av4|]. split; [exact Ev4|]. split; [exact Rl4|].
      intros Hl. apply room_rem; assumption. }
  clearbody z. destruct z as [b5 [[l5 rem5]| | |]]; try contradiction; [|apply ospec_err; exact Hz].
  destruct Hz as (Rc5 & Av5 & Ev5 & Rl5 & Rm5).
  destruct (rem5 <? l5) eqn:E6; [apply ospec_err; apply Rc5|].
  destruct (wrap64 (b_pos b5 + l5) <? b_pos b5) eqn:E7; [apply ospec_err; apply Rc5|].
  assert (R5 : room b5 l5) by (apply Rm5; lia).
  assert (P5 : b_pos b5 + l5 < two64).
  { destruct Rc5 as ((_ & _ & P5 & _) & _). unfold wrap64, two64 in *. lia. }
  destruct (npost_value b b5 c' (b_null b5) l5 Rc5 Ev5 Av5 Hc' R5 P5) as [Wv Nv']. apply ospec_ok; assumption.
Qed.

Lemma opost_trans b b1 b2 : bcore b -> opost b b1 -> b_stack b1 = b_stack b -> opost b1 b2 -> opost b b2.
Proof.
  intros C (I1 & k1 & M1 & R1) Es (I2 & k2 & M2 & R2). split; [exact I2|].
  exists (k1 + k2). split; [eapply moved_trans; eauto|eapply room_trans; eauto].
Qed.

Theorem b_next_spec b : binv b -> ospec b (b_next b) (fun b' _ => npost b b').
Proof.
  intros I. pose proof I as (C & _). pose proof C as (_ & St & _). pose proof (bcore_avail _ C) as A.
  assert (Hx : (if (b_state b =? bssOnValue) || (b_state b =? bssOnFieldID) then b_skip_value b else (b, Ok tt))
               = b_skip_value b).
  { destruct ((b_state b =? bssOnValue) || (b_state b =? bssOnFieldID)) eqn:E; [reflexivity|].
    unfold b_skip_value.
    replace ((b_state b =? bssBeforeFieldID) || (b_state b =? bssBeforeValue)) with true; [reflexivity|].
    unfold bssBeforeFieldID, bssBeforeValue, bssOnValue, bssOnFieldID in *. lia. }
  destruct (b_skip_value_spec b I) as [(W & Np & Post) Of].
  destruct (b_skip_value b) as [b1 [u| | |]] eqn:Es; cbn [fst snd] in *; try tauto.
  - destruct (Post u eq_refl) as (O1 & Q1 & S1 & A1).
    assert (En : b_next b = b_next b1).
    { unfold b_next. rewrite Es, Hx.
      replace ((b_state b1 =? bssOnValue) || (b_state b1 =? bssOnFieldID)) with false
        by (destruct Q1 as [Q|Q]; rewrite Q; reflexivity).
      reflexivity. }
    rewrite En. pose proof O1 as (I1 & _).
    destruct (b_next_quiet b1 I1 Q1) as [(W2 & Np2 & Post2) Of2].
    split; [|exact Of2]. split; [eapply wle_trans; eauto|]. split; [exact Np2|].
    intros v Hv. destruct (Post2 v Hv) as (O2 & S2 & A2 & Rest). destruct Rest as (R1 & R2 & R3 & R4).
    split; [eapply opost_trans; eauto|]. split; [congruence|]. split; [lia|]. split; [exact R1|].
    split; [exact R2|]. split; [exact R3|]. intros E1 E2. destruct (R4 E1 E2). split; [assumption|lia].
  - assert (En : b_next b = (b1, Err)) by (unfold b_next; rewrite Es, Hx; reflexivity).
    rewrite En. apply ospec_err. exact W.
Qed.
