(* BinReaderTs.v — the timestamp acceptance test the binary reader model is run with:
   ReadTimestamp on the sliced body, as modelled by Num/Timestamp.v for the repaired tree.  No proofs. *)
From Coq Require Import List NArith ZArith.
From IonV Require Import Base.Wire Num.Calendar Num.Timestamp.
Import ListNotations.
Open Scope N_scope.

Definition ts_ok_default (body : list N) : res unit :=
  match read_ts_body patched (N.of_nat (length body)) body with
  | Ok _ => Ok tt
  | Err => Err
  | Panic => Panic
  | OutOfFuel => OutOfFuel
  end.

