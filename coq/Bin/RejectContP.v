(* RejectContP.v — rejection inside lists and s-expressions of any depth (class S2 of Bin/Reject.v): the elements before
   the first rejected one are values of any shape (moved over with the agreement lemmas of C03), the rejected element is
   an S1 item or again such a list / s-expression. *)
From Coq Require Import String List NArith ZArith Bool Lia ZifyBool ZifyN ZifyNat.
From IonV Require Import Base.Wire Base.Utf8 Bin.Bits Bin.BitsP Data.Ion Num.Float Bin.BitStream Bin.BinReader
  Bin.BitStreamP Bin.BitStreamNextP Bin.BinWriter Bin.SpecBin Bin.RoundTripBin Bin.RoundTripBinS Bin.BitEvalP
  Bin.BitEvalAnnP Bin.ReaderTrace Bin.BinReaderInvP Bin.BinReaderP Bin.ReaderTraceP Bin.ReaderTopP
  Bin.ReaderLstP Bin.SpecLim Bin.SpecLimP Bin.SpecLimAppP Bin.BitEvalGenP Bin.SpecAgreeP Bin.BitEvalAnnGenP Bin.SpecAgreeTravP
  Bin.SpecAgreeContP Bin.SpecAgreeTabP Bin.SpecAgreeLstP Bin.SpecAgreeStreamP Bin.BinReaderTs Bin.Reject Bin.RejectP.
Import ListNotations.
Open Scope N_scope.
Ltac Zify.zify_post_hook ::= Z.div_mod_to_equations.

Section Deep.
Variable ts : list N -> res unit.
Hypothesis Hts : forall bs, ts bs <> Panic /\ ts bs <> OutOfFuel.
Variable tot : N.
Hypothesis Htot : tot < two63.

Definition REJV (f : nat) : Prop := forall tab ctx l outer stk r depth,
  TC tab ctx -> BY l -> cov_deep ts f ctx l = true -> sl_value ts f ctx l = None ->
  PRE3 ts tot (r_next_inner ts) tab r l outer stk None [] -> RIO r -> STOPSD ts r depth (2 * length l).

Lemma items_R f : REJV f -> forall k tab ctx l, sp_items (sl_value ts f ctx) k l = None ->
  first_bad (sl_value ts f ctx) (cov_deep ts f ctx) k l = true -> BY l -> TC tab ctx ->
  forall outer stk r depth, sav stk = bssBeforeValue -> stk <> [] -> PRE2 ts tot (r_next_inner ts) tab r l outer stk -> RIO r ->
  STOPSD ts r depth (2 * length l).
Proof.
  intros HR. induction k as [|k IH]; intros tab ctx l Hs Hfb Hb HTC outer stk r depth Hsv Hne P Rio.
  { destruct l; cbn [first_bad] in Hfb; discriminate. }
  destruct l as [|tag r0]; [cbn [first_bad] in Hfb; discriminate|].
  cbn [sp_items] in Hs. cbn [first_bad] in Hfb.
  destruct (sl_value ts f ctx (tag :: r0)) as [[[v|] rest']|] eqn:E.
  - destruct (sp_items (sl_value ts f ctx) k rest') as [vs'|] eqn:E2; [discriminate|].
    destruct (sl_value_suffix _ _ _ _ _ _ Hb E) as (pre & Ep & Hpre).
    pose proof (cost_all ts Hts tot Htot _ ctx _ _ _ Hb E) as Hc.
    intros M acc HM.
    assert (EM : exists m', (M = cost v + m' /\ 2 * length rest' < m')%nat).
    { exists (M - cost v)%nat. rewrite Ep, app_length in *. lia. }
    destruct EM as (m' & -> & Hm').
    destruct (proj1 (val_all ts Hts tot Htot f) tab ctx (tag :: r0) v rest' outer stk None None r depth acc m'
                HTC Logic.I Hb E ltac:(intros Q; contradiction) (to3 ts tot _ _ _ _ _ _ P Hsv) Rio)
      as (r1 & toks1 & E1 & Ep1 & Rs1 & Rio1 & Hbr).
    rewrite E1.
    exact (IH tab ctx rest' E2 Hfb Hbr HTC outer stk r1 depth Hsv Hne (RS_PRE2 ts tot _ _ _ _ _ _ Rs1 (proj2 Rio1)) Rio1 m' _ Hm').
  - destruct f as [|f']; [discriminate|].
    destruct (sl_value_suffix _ _ _ _ _ _ Hb E) as (pre & Ep & Hpre).
    destruct (pre2_pad ts Hts tot Htot (r_next_inner ts) tab ctx r f' tag r0 rest' outer stk HTC Hsv Hb E P) as (P1 & Hbr).
    pose proof (IH tab ctx rest' Hs Hfb Hbr HTC outer stk r depth Hsv Hne P1 Rio) as St.
    intros M acc HM. apply St. rewrite Ep, app_length in HM. lia.
  - exact (HR tab ctx (tag :: r0) outer stk r depth HTC Hb Hfb E (to3 ts tot _ _ _ _ _ _ P Hsv) Rio).
Qed.

Lemma rejv_step f : REJV f -> REJV (S f).
Proof.
  intros HR tab ctx l outer stk r depth HTC Hb Hcov Hsp P Rio.
  destruct l as [|tag r0]; [discriminate|].
  cbn [cov_deep] in Hcov. apply orb_true_iff in Hcov. destruct Hcov as [Hcov|Hcont].
  { apply (errs_stopsd ts). eapply pre3_errs; [exact Hts|exact Htot|exact P|].
    intros fuel r1 b1 Hb1 T Hn Hl _ _. apply orb_true_iff in Hcov. destruct Hcov as [Hbad|Hpres].
    - eapply raw_rej_badtag; eauto.
    - eapply raw_rej_scalar; eauto. }
  inversion Hb as [|? ? Htag Hr0]; subst.
  unfold hdr_of in Hcont.
  destruct (if tag mod 16 =? 14 then lim_varuint r0 else Some (tag mod 16, r0)) as [[len r1]|] eqn:Elen0;
    [|rewrite andb_false_r in Hcont; discriminate].
  destruct (take_n len r1) as [[body rest]|] eqn:Etk; [|rewrite andb_false_r in Hcont; discriminate].
  apply andb_true_iff in Hcont. destruct Hcont as [Hh Hfb].
  assert (Ht : (tag / 16 = 11 \/ tag / 16 = 12) /\ tag mod 16 <> 15) by lia. destruct Ht as [Ht Hlo15].
  assert (Elen : (if (tag mod 16 =? 14) || ((tag / 16 =? 13) && (tag mod 16 =? 1)) then lim_varuint r0 else Some (tag mod 16, r0))
                 = Some (len, r1)).
  { replace ((tag / 16 =? 13) && (tag mod 16 =? 1)) with false by lia. rewrite orb_false_r. exact Elen0. }
  assert (Es0 : ((tag / 16 =? 13) && (tag mod 16 =? 1)) && (len =? 0) = false) by lia.
  assert (Hit : sp_items (sl_value ts f ctx) (length body) body = None).
  { cbn [sl_value] in Hsp. cbv zeta in Hsp.
    replace (tag / 16 =? 15) with false in Hsp by lia. replace (tag mod 16 =? 15) with false in Hsp by lia.
    replace (tag / 16 =? 1) with false in Hsp by lia. rewrite Elen in Hsp. rewrite Es0, Etk in Hsp.
    destruct Ht as [Et|Et]; rewrite Et in Hsp; cbn [N.eqb Pos.eqb] in Hsp;
      destruct (sp_items (sl_value ts f ctx) (length body) body); [discriminate|reflexivity|discriminate|reflexivity]. }
  destruct (hdr_len ts Hts tot Htot tag r0 len r1 body rest Hr0 (conj Hlo15 (conj Elen Es0)) Etk) as [Hlen Hbb].
  intros M acc HM. destruct M as [|m]; [lia|].
  destruct (open3 ts Hts tot Htot tab r tag r0 len r1 body rest outer stk None None [] [] depth acc m Hb ltac:(lia) Hlo15 Elen Es0
              Etk Logic.I (AR_nil) ltac:(intros Q; lia) P Rio) as (r2 & e & toks1 & E1 & Ep1 & Rs2 & Rio2 & T & Hbb' & Hbr).
  rewrite E1.
  assert (Hsav : sav ((bitcode_of_high (tag / 16), e) :: stk) = bssBeforeValue) by (destruct Ht as [Et|Et]; rewrite Et; reflexivity).
  apply (items_R f HR (length body) tab ctx body Hit Hfb Hbb HTC (rest ++ outer) _ r2 (S depth) Hsav ltac:(discriminate)
           (RS_PRE2 ts tot _ _ _ _ _ _ Rs2 (proj2 Rio2)) Rio2).
  cbn [length] in HM. lia.
Qed.

Lemma rejv_all : forall f, REJV f.
Proof.
  induction f as [|f IH]; [|exact (rejv_step f IH)].
  intros tab ctx l outer stk r depth _ _ Hcov. discriminate.
Qed.

Lemma covok_deep : COVOK ts tot (cov_deep ts).
Proof.
  intros tab ctx f tag r0 r HTC Hb Hcov Hsp P Rio.
  exact (rejv_all (S f) tab ctx (tag :: r0) [] [] r 0%nat HTC Hb Hcov Hsp P Rio).
Qed.
End Deep.

Theorem reject_deep ts bytes :
  (forall bs, ts bs <> Panic /\ ts bs <> OutOfFuel) -> sjudge ts (cov_deep ts) bytes = VRej ->
  Forall (fun c => c < 256) bytes -> N.of_nat (length bytes) < two63 ->
  ends_in_error (fst (traverse ts bytes false)).
Proof. intros Hts. apply reject_stream; [exact Hts|]. intros tot Htot. apply covok_deep; assumption. Qed.

Theorem reject_sdecode_deep ts bytes :
  (forall bs, ts bs <> Panic /\ ts bs <> OutOfFuel) ->
  sdecode bytes = None -> sjudge ts (cov_deep ts) bytes <> VOut ->
  Forall (fun c => c < 256) bytes -> N.of_nat (length bytes) < two63 ->
  ends_in_error (fst (traverse ts bytes false)).
Proof. intros Hts. apply (reject_sdecode ts (cov_deep ts)); [exact Hts|]. intros tot Htot. apply covok_deep; assumption. Qed.

(* the unrestricted statement is false of the model: known finding C07 (values the symbol-table reader skips by length) *)
Lemma rej_unrestricted_refuted :
  ~ (forall bytes, Forall (fun c => c < 256) bytes -> sdecode bytes = None ->
       ends_in_error (fst (traverse BinReaderTs.ts_ok_default bytes false))).
Proof.
  intros H. specialize (H [224; 1; 0; 234; 230; 129; 131; 211; 132; 177; 255]).
  assert (Hb : Forall (fun c => c < 256) [224; 1; 0; 234; 230; 129; 131; 211; 132; 177; 255]) by (repeat constructor).
  specialize (H Hb ltac:(vm_compute; reflexivity)). vm_compute in H. discriminate.
Qed.
