(* SpecLimAppP.v — the restricted specification decoder reads a prefix: bytes after the item do not matter. *)
From Coq Require Import String List NArith ZArith Bool Lia ZifyBool ZifyN ZifyNat.
From IonV Require Import Base.Wire Base.Utf8 Bin.Bits Data.Ion Num.Float Bin.SpecBin Bin.BitStream Bin.BinReader
  Bin.SpecLim Bin.SpecLimP.
Import ListNotations.
Open Scope N_scope.
Ltac Zify.zify_post_hook ::= Z.div_mod_to_equations.

Lemma sp_varuint_app z : forall l acc v r, sp_varuint l acc = Some (v, r) -> sp_varuint (l ++ z) acc = Some (v, r ++ z).
Proof.
  induction l as [|c l IH]; intros acc v r; cbn [sp_varuint app]; [discriminate|].
  destruct (128 <=? c); [intros H; inversion H; reflexivity|apply IH].
Qed.
Lemma lim_varuint_app z l v r : lim_varuint l = Some (v, r) -> lim_varuint (l ++ z) = Some (v, r ++ z).
Proof.
  unfold lim_varuint. destruct (sp_varuint l 0) as [[v' r']|] eqn:E; [|discriminate].
  rewrite (sp_varuint_app z _ _ _ _ E). rewrite !app_length.
  destruct (sp_varuint_suffix _ _ _ _ E) as (ds & El & _). rewrite El, app_length.
  replace (length ds + length r' + length z - (length r' + length z))%nat with (length ds + length r' - length r')%nat by lia.
  destruct (_ && _); [|discriminate]. intros H. inversion H. reflexivity.
Qed.
Lemma take_n_aux_app z : forall l n acc b r, take_n_aux l n acc = Some (b, r) -> take_n_aux (l ++ z) n acc = Some (b, r ++ z).
Proof.
  induction l as [|x l IH]; intros n acc b r; cbn [take_n_aux app].
  - destruct (n =? 0) eqn:E; [|discriminate]. intros H. inversion H; subst. cbn [app].
    destruct z; cbn [take_n_aux]; rewrite E; reflexivity.
  - destruct (n =? 0) eqn:E; [intros H; inversion H; reflexivity|apply IH].
Qed.
Lemma take_n_app z n l b r : take_n n l = Some (b, r) -> take_n n (l ++ z) = Some (b, r ++ z).
Proof. apply take_n_aux_app. Qed.

Definition Rapp {A} (z : list N) (x' x : option (A * list N)) : Prop := forall a r, x = Some (a, r) -> x' = Some (a, r ++ z).
Ltac rapp := repeat match goal with
  | |- Rapp _ None None => let H := fresh in intros ? ? H; discriminate H
  | |- Rapp _ (Some (_, _)) (Some (_, _)) => let H := fresh in intros ? ? H; inversion H; reflexivity
  | |- Rapp _ (if ?c then _ else _) _ => destruct c
  | |- Rapp _ (option_map _ ?c) _ => destruct c; cbn [option_map]
  | |- Rapp _ (let '(_, _) := ?c in _) _ => destruct c
  | |- Rapp _ (match ?c with _ => _ end) _ => destruct c
  end.

Lemma sl_value_app ts z f ctx l ov r : sl_value ts f ctx l = Some (ov, r) -> sl_value ts f ctx (l ++ z) = Some (ov, r ++ z).
Proof.
  destruct f as [|f]; [discriminate|]. destruct l as [|tag r0]; [discriminate|].
  cbn [app]. cbn [sl_value]. cbv zeta. destruct (tag / 16 =? 15); [discriminate|].
  destruct (tag mod 16 =? 15).
  { destruct (null_type (tag / 16)); [|discriminate]. intros H. inversion H. reflexivity. }
  destruct (tag / 16 =? 1).
  { destruct (tag mod 16 =? 0); [intros H; inversion H; reflexivity|].
    destruct (tag mod 16 =? 1); [intros H; inversion H; reflexivity|discriminate]. }
  set (hd := (tag mod 16 =? 14) || ((tag / 16 =? 13) && (tag mod 16 =? 1))).
  assert (Eh : forall len r1, (if hd then lim_varuint r0 else Some (tag mod 16, r0)) = Some (len, r1) ->
                 (if hd then lim_varuint (r0 ++ z) else Some (tag mod 16, r0 ++ z)) = Some (len, r1 ++ z)).
  { intros len r1. destruct hd; [apply lim_varuint_app|intros H; inversion H; reflexivity]. }
  destruct (if hd then lim_varuint r0 else Some (tag mod 16, r0)) as [[len r1]|]; [|discriminate].
  rewrite (Eh len r1 eq_refl).
  destruct ((tag / 16 =? 13) && (tag mod 16 =? 1) && (len =? 0)); [discriminate|].
  destruct (take_n len r1) as [[body rest]|] eqn:Etk; [|discriminate].
  rewrite (take_n_app z _ _ _ _ Etk).
  revert ov r.
  match goal with |- forall a r', ?X = Some (a, r') -> ?X' = Some (a, r' ++ z) => change (Rapp z X' X) end.
  rapp.
Qed.
