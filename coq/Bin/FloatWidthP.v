(* FloatWidthP.v — binaryWriter.WriteFloat stores a float in four bytes exactly when the
   float64 is the widening of a float32, and the four bytes read back to the same bits. *)
From Coq Require Import List NArith ZArith Bool Lia ZifyBool ZifyN ZifyNat.
From IonV Require Import Base.Wire Bin.Bits Bin.BitsP Data.Ion Num.Float Num.FloatP Bin.BinWriter Bin.BitStream
  Bin.RoundTripBin Bin.RoundTripBinS.
Import ListNotations.
Open Scope N_scope.

Lemma step_float_four run w b : b < 2 ^ 64 -> f64_is_nan b = false -> b <> 0 -> representable32 b ->
  BinWriter.step run w (CFloat b) = write_value run w (68 :: be_fixed 4 (narrow b)).
Proof.
  intros Hb Hn H0 Hr. cbn [BinWriter.step]. unfold f64_pos_zero. replace (b =? 0) with false by lia. rewrite Hn.
  rewrite (proj2 (uses_f32_iff b Hb Hn) Hr). reflexivity.
Qed.
Lemma step_float_eight run w b : b < 2 ^ 64 -> f64_is_nan b = false -> b <> 0 -> ~ representable32 b ->
  BinWriter.step run w (CFloat b) = write_value run w (72 :: be_fixed 8 b).
Proof.
  intros Hb Hn H0 Hr. cbn [BinWriter.step]. unfold f64_pos_zero. replace (b =? 0) with false by lia. rewrite Hn.
  destruct (uses_f32 b) eqn:E; [|reflexivity]. exfalso. apply Hr. apply (uses_f32_iff b Hb Hn). exact E.
Qed.
(* the same on the encoding function the round-trip theorems use *)
Lemma enc_float_width b : b < 2 ^ 64 -> f64_is_nan b = false -> b <> 0 ->
  (representable32 b -> enc_float b = 68 :: be_fixed 4 (narrow b)) /\
  (~ representable32 b -> enc_float b = 72 :: be_fixed 8 b).
Proof.
  intros Hb Hn H0. unfold enc_float, f64_pos_zero. replace (b =? 0) with false by lia. rewrite Hn. split; intros Hr.
  - rewrite (proj2 (uses_f32_iff b Hb Hn) Hr). reflexivity.
  - destruct (uses_f32 b) eqn:E; [|reflexivity]. exfalso. apply Hr. apply (uses_f32_iff b Hb Hn). exact E.
Qed.
(* ReadFloat on four bytes computes widen (from_be bs) *)
Lemma float_four_read_back b : b < 2 ^ 64 -> f64_is_nan b = false -> representable32 b ->
  length (be_fixed 4 (narrow b)) = 4%nat /\ widen (from_be (be_fixed 4 (narrow b))) = b.
Proof.
  intros Hb Hn Hr. split; [apply be_fixed_length|].
  rewrite <- sp_uint_from_be, be_fixed4 by (apply narrow_lt; assumption).
  apply f32_roundtrip. apply (uses_f32_iff b Hb Hn). exact Hr.
Qed.
Lemma read_float_four b bs : b_code b = bcFloat -> length bs = 4%nat ->
  forall b', b_readN b (b_len b) = (b', Ok bs) -> b_read_float b = (done_value b', Ok (widen (from_be bs))).
Proof.
  intros Hc Hl b' E. unfold b_read_float. rewrite Hc. cbn [N.eqb Pos.eqb negb]. rewrite E, Hl. reflexivity.
Qed.
