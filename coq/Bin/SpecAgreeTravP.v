(* SpecAgreeTravP.v — C03 on the models: the state before a Next (of the user or of readLocalSymbolTable), possibly in
   the middle of one; absorbing NOP pads and version markers; the accessor tokens of scalars; the end of the stream. *)
From Coq Require Import String List NArith ZArith Bool Lia ZifyBool ZifyN ZifyNat.
From IonV Require Import Base.Wire Base.Utf8 Bin.Bits Bin.BitsP Data.Ion Num.Float Bin.BitStream Bin.BinReader
  Bin.BitStreamP Bin.BitStreamNextP Bin.BinWriter Bin.SpecBin Bin.RoundTripBin Bin.RoundTripBinS Bin.BitEvalP
  Bin.BitEvalAnnP Bin.ReaderTrace Bin.BinReaderInvP Bin.BinReaderP Bin.ReaderTraceP Bin.ReaderTopP
  Bin.SpecLim Bin.SpecLimP Bin.BitEvalGenP Bin.SpecAgreeP.
Import ListNotations.
Open Scope N_scope.
Ltac Zify.zify_post_hook ::= Z.div_mod_to_equations.

Ltac bsimpl :=
  cbn [b_in b_ioerr b_pos b_state b_stack b_code b_null b_len b_alloc b_avail b_fuel
       upd_in upd_state upd_stack upd_cur upd_alloc b_clear done_value fst snd] in *.
Ltac rsimpl :=
  cbn [r_bits r_ctx r_eof r_err r_lst r_field r_annots r_type r_value
       rs_bits rs_ctx rs_eof rs_err rs_lst rs_field rs_annots rs_val r_clear fst snd] in *.

(* ---- the version marker from any top-level position ------------------------------------------------------------------- *)
Lemma bvm_eval tot b rest : tot < two63 -> BS b (224 :: 1 :: 0 :: 234 :: rest) bssBeforeValue [] tot ->
  exists b' b'', b_next b = (b', Ok tt) /\ b_code b' = bcBVM /\ b_read_bvm b' = (b'', Ok (1, 0)) /\
                 BS b'' rest bssBeforeValue [] tot /\ b_ioerr b'' = b_ioerr b.
Proof.
  intros Htot [I Ein St Es Nl Nw]. pose proof (bcore_avail _ (proj1 I)) as A.
  assert (Ha : b_avail b = 4 + N.of_nat (length rest)) by (unfold avail_ok in A; rewrite A, Ein; cbn [length]; lia).
  assert (E1 : exists b', b_next b = (b', Ok tt) /\ b_code b' = bcBVM /\ b_stack b' = [] /\
                          b_in b' = 1 :: 0 :: 234 :: rest /\ b_pos b' = b_pos b + 1 /\ b_avail b' = b_avail b - 1).
  { unfold b_next. rewrite St.
    change ((bssBeforeValue =? bssOnValue) || (bssBeforeValue =? bssOnFieldID)) with false. cbv iota beta.
    rewrite Es, St. change (bssBeforeValue =? bssBeforeFieldID) with false. cbv iota.
    unfold b_read. rewrite Ein. change (b_parse_tag 224) with (bcAnnotation, 0). cbv iota beta.
    change ((bcAnnotation =? bcStruct) && (0 =? 1)) with false. cbv iota. change (bcAnnotation =? bcNone) with false. cbv iota zeta.
    change ((bcAnnotation =? bcAnnotation) && (0 =? 0)) with true. cbv iota. bsimpl. rewrite Es.
    rewrite wrap_small by (unfold two63, two64 in *; lia).
    eexists. split; [reflexivity|]. bsimpl. auto. }
  destruct E1 as (b' & E1 & Ec & Es' & Ein' & Ep' & Ea').
  destruct (b_next_spec b I) as [(W1 & _ & Post) _]. rewrite E1 in Post, W1. cbn [fst snd] in Post, W1.
  destruct (Post tt eq_refl) as ((I1 & _) & _).
  destruct (b_read_bvm_spec b' I1 Ec Es') as [(W2 & _ & Post2) _].
  assert (E2 : exists b'', b_read_bvm b' = (b'', Ok (1, 0)) /\ b_in b'' = rest /\ b_state b'' = bssBeforeValue /\
                  b_stack b'' = [] /\ b_null b'' = false /\ b_pos b'' + b_avail b'' = tot).
  { unfold b_read_bvm. rewrite Ec. change (negb (bcBVM =? bcBVM)) with false. cbv iota.
    rewrite (b_read1_cons b' 1 _ Ein'). set (c1 := upd_in b' _ _ _).
    rewrite (b_read1_cons c1 0 (234 :: rest) eq_refl). set (c2 := upd_in c1 _ _ _).
    rewrite (b_read1_cons c2 234 rest eq_refl). change (negb (234 =? 234)) with false. cbv iota.
    eexists. split; [reflexivity|]. subst c2 c1. bsimpl. rewrite Es', Ep', Ea'.
    repeat (split; [reflexivity|]).
    rewrite (wrap_small (b_pos b + 1 + 1)) by (unfold two63, two64 in *; lia).
    rewrite (wrap_small (b_pos b + 1 + 1 + 1)) by (unfold two63, two64 in *; lia).
    rewrite (wrap_small (b_pos b + 1 + 1 + 1 + 1)) by (unfold two63, two64 in *; lia). lia. }
  destruct E2 as (b'' & E2 & Q1 & Q2 & Q3 & Q4 & Q5). rewrite E2 in Post2, W2. cbn [fst snd] in Post2, W2.
  destruct (Post2 _ eq_refl) as (((Ib2 & _) & _) & _).
  exists b', b''. split; [exact E1|]. split; [exact Ec|]. split; [exact E2|].
  split; [constructor; auto|]. rewrite (wle_ioerr _ _ W2), (wle_ioerr _ _ W1). reflexivity.
Qed.

Lemma forall_tail4 (P : N -> Prop) c0 c1 c2 c3 r : Forall P (c0 :: c1 :: c2 :: c3 :: r) -> Forall P r.
Proof. intros H. inversion H as [|? ? _ H1]. inversion H1 as [|? ? _ H2']. inversion H2' as [|? ? _ H3']. inversion H3'; assumption. Qed.

Section Trav.
Variable ts : list N -> res unit.
Hypothesis Hts : forall bs, ts bs <> Panic /\ ts bs <> OutOfFuel.
Variable tot : N.
Hypothesis Htot : tot < two63.

(* the Next functions of the model: [NXT (r_next_inner ts)] is the user's Next, [NXT (fun r => (r, Panic))] the one
   readLocalSymbolTable calls *)
Definition NXT (api : rstate -> rstate * res bool) (r : rstate) : rstate * res bool :=
  r_next_with ts api (input_fuel r) r.
Lemma nxt_next r : r_next ts r = NXT (r_next_inner ts) r.
Proof. reflexivity. Qed.

(* about to call Next (possibly inside a Next, after pads / markers): the next raw item starts at [inp], with
   enough raw-item budget for every remaining byte *)
Definition PRE2 (api : rstate -> rstate * res bool) (tab : rlst) (r : rstate) (inp outer : list N) (stk : list (N * N)) : Prop :=
  exists K r0 fuel b1, NXT api r = r_next_loop ts api K fuel r0 /\
    r_err r0 = false /\ r_eof r0 = false /\ r_lst r0 = Some tab /\ r_ctx r0 = ctx_of_stk stk /\
    r_annots r0 = [] /\ (sav stk = bssBeforeValue -> r_field r0 = None) /\
    b_next (r_bits r0) = b_next b1 /\ BS b1 (inp ++ outer) (sav stk) stk tot /\ b_ioerr b1 = false /\
    top_ok tot stk outer /\ ((length (inp ++ outer) + 2 <= K)%nat /\ (length (inp ++ outer) + 2 <= fuel)%nat).

Lemma pre_next_io b inp stk : BS b inp (sav stk) stk tot \/ NS tot b inp stk ->
  exists b1, b_next b = b_next b1 /\ BS b1 inp (sav stk) stk tot /\ b_ioerr b1 = b_ioerr b.
Proof.
  intros [H|H]; [exists b; split; [reflexivity|split; [exact H|reflexivity]]|].
  destruct (NS_skip tot b inp stk H) as (b1 & E & Hb). exists b1. split; [|split; [exact Hb|]].
  - apply b_next_after_skip; [apply H|exact E|]. rewrite (bs_state _ _ _ _ _ Hb). unfold sav. destruct (_ =? _); auto.
  - destruct (b_skip_value_spec b (ns_inv _ _ _ _ H)) as [(W & _) _]. rewrite E in W. exact (wle_ioerr _ _ W).
Qed.

Lemma RS_PRE2 api tab r inp outer stk : RS tot tab r inp outer stk -> b_ioerr (r_bits r) = false ->
  PRE2 api tab r inp outer stk.
Proof.
  intros H Hio. pose proof H as [He Hf Hl Hc Hb T].
  destruct (pre_next_io _ _ _ Hb) as (b1 & Hn & Hb1 & Hio1).
  exists (b_fuel (r_bits r)), (r_clear r), (b_fuel (r_bits r)), b1.
  split; [unfold NXT, r_next_with, input_fuel; rewrite He, Hf; reflexivity|]. rsimpl.
  repeat (split; [solve [auto]|]). split; [congruence|]. split; [exact T|].
  destruct Hb as [[I Ein _ _ _ _]|[I Ein _ _ _ _]]; rewrite <- Ein; split; apply I.
Qed.

(* standing on a container that was not entered: the next Next skips it *)
Lemma RK_PRE2 api tab r body rest outer stk : r_err r = false -> r_eof r = false -> r_lst r = Some tab ->
  r_ctx r = ctx_of_stk stk -> BS (r_bits r) (body ++ rest ++ outer) bssOnValue stk tot ->
  b_len (r_bits r) = N.of_nat (length body) -> b_code (r_bits r) <> bcBVM -> b_ioerr (r_bits r) = false ->
  top_ok tot stk outer -> PRE2 api tab r rest outer stk.
Proof.
  intros He Hf Hl Hc Hb El Nb Hio T.
  destruct (skip_body tot Htot (r_bits r) body (rest ++ outer) stk Hb El Nb) as (b1 & Es & Hb1).
  exists (b_fuel (r_bits r)), (r_clear r), (b_fuel (r_bits r)), b1.
  split; [unfold NXT, r_next_with, input_fuel; rewrite He, Hf; reflexivity|]. rsimpl.
  repeat (split; [solve [auto]|]).
  split; [apply b_next_after_skip; [apply Hb|exact Es|]; rewrite (bs_state _ _ _ _ _ Hb1); unfold sav; destruct (_ =? _); auto|].
  split; [exact Hb1|].
  split; [destruct (b_skip_value_spec _ (bs_inv _ _ _ _ _ Hb)) as [(W & _) _]; rewrite Es in W; cbn [fst] in W; rewrite (wle_ioerr _ _ W); exact Hio|].
  split; [exact T|].
  pose proof Hb as [I Ein _ _ _ _]. pose proof (proj1 (proj1 I)) as (_ & Fu & _). rewrite Ein, !app_length in Fu.
  rewrite app_length. lia.
Qed.

Lemma ioerr_next b b' x : binv b -> b_next b = (b', x) -> b_ioerr b' = b_ioerr b.
Proof.
  intros I E. destruct (b_next_spec b I) as [(W & _) _]. rewrite E in W. exact (wle_ioerr _ _ W).
Qed.

(* a NOP pad where a value may stand (top level, list, s-expression) is absorbed by the pending Next *)
Lemma pre2_pad api tab ctx r f tag r0 rest' outer stk : TC tab ctx -> sav stk = bssBeforeValue ->
  Forall (fun c => c < 256) (tag :: r0) -> sl_value ts (S f) ctx (tag :: r0) = Some (None, rest') ->
  PRE2 api tab r (tag :: r0) outer stk -> PRE2 api tab r rest' outer stk /\ Forall (fun c => c < 256) rest'.
Proof.
  intros HTC Hsv Hbytes Hsp (K & r0' & fuel & b1 & En & He & Hfe & Hl & Hc & Ha & Hf & Hn & Hb1 & Hio1 & T & HK).
  rewrite Hsv in Hb1.
  destruct (raw_nop_spec ts tot Htot ctx api fuel r0' b1 f tag r0 rest' outer stk Hbytes Hsp Hb1 T Hn)
    as (b' & b'' & Eraw & Hb'' & Hbr & Hio2).
  destruct (sl_value_suffix _ _ _ _ _ _ Hbytes Hsp) as (pre & Epre & Hne).
  destruct K as [|k]; [cbn [length] in HK; lia|].
  split; [|exact Hbr].
  exists k, (rs_bits (rs_bits r0' b') b''), fuel, b''.
  split; [rewrite En; apply loop_false; exact Eraw|]. rsimpl.
  repeat (split; [solve [auto]|]). split; [congruence|]. split; [exact T|].
  rewrite Epre, !app_length in HK. destruct pre; [contradiction|cbn [length] in HK]. rewrite app_length. lia.
Qed.

(* a version marker at top level is absorbed too: the table becomes the system table *)
Lemma pre2_bvm api tab r rest : PRE2 api tab r (224 :: 1 :: 0 :: 234 :: rest) [] [] -> PRE2 api LSys r rest [] [].
Proof.
  intros (K & r0 & fuel & b1 & En & He & Hfe & Hl & Hc & Ha & Hf & Hn & Hb1 & Hio1 & T & HK).
  cbn [app] in Hb1. rewrite app_nil_r in Hb1.
  destruct (bvm_eval tot b1 rest Htot Hb1) as (b' & b'' & E1 & Ec & E2 & Hb'' & Hio2). rewrite <- Hn in E1.
  destruct K as [|k]; [cbn [length] in HK; lia|].
  exists k, (rs_lst (rs_bits (rs_bits r0 b') b'') (Some LSys)), fuel, b''.
  split; [rewrite En; apply loop_false; apply raw_bvm; assumption|]. rsimpl.
  repeat (split; [solve [auto]|]). split; [rewrite app_nil_r; exact Hb''|]. split; [congruence|]. split; [exact T|].
  cbn [length app] in *. rewrite app_nil_r in *. cbn [length] in HK. lia.
Qed.

(* ---- one traversal step: a scalar ---------------------------------------------------------------------------------------- *)
Definition acc_tsp (x : value) : list N :=
  match x with
  | VBool b => [98; if b then 49 else 48]
  | VInt z => 73 :: dec_of_Z z
  | VFloat b => 70 :: dec_of_N (canon_float b)
  | VDecimal d => show_dec d
  | VTimestamp body => 84 :: hex_of_bytes body
  | VSymbol y => tsp_sym y
  | VString t => 83 :: xhex t
  | VClob b | VBlob b => 66 :: xhex b
  | _ => []
  end.

Lemma acc_tok_s x r1 : rvs x r1 -> is_scalar x -> r_err r1 = false ->
  match x with
  | VNull _ => r_is_null r1 = true
  | _ => r_is_null r1 = false /\ exists o tk, accessor_of (r_type r1) = Some o /\ r_op ts r1 o = (r1, Some tk) /\
                                              proj_tok tk = acc_tsp x
  end.
Proof.
  intros [Et Ev] Hs He. unfold r_is_null.
  destruct x; try destruct Hs; cbn [vtype val_rel_s] in *; rewrite Et;
    try (rewrite Ev; split; [reflexivity|]; eexists _, _; split; [reflexivity|]; cbn [r_op]; rewrite ?He, Et, Ev;
         split; reflexivity).
  - destruct Ev as [Ev Ht]. rewrite Ev. replace (t =? 0) with false by lia. reflexivity.
  - destruct Ev as (iv & Ev & Ez). rewrite Ev. split; [reflexivity|]. eexists _, _; split; [reflexivity|].
    cbn [r_op]. rewrite Et, Ev. cbn [negb N.eqb Pos.eqb TInt]. split; [reflexivity|].
    unfold show_int, acc_tsp, int_z in *. destruct iv; subst; reflexivity.
  - destruct Ev as (t & Ev & Ep). rewrite Ev. split; [reflexivity|]. eexists _, _; split; [reflexivity|].
    cbn [r_op]. rewrite He, Et, Ev. cbn [negb N.eqb Pos.eqb TSymbol]. split; [reflexivity|exact Ep].
Qed.

(* ---- the end of the stream ------------------------------------------------------------------------------------------------ *)
Lemma finish2 tab r m acc : PRE2 (r_next_inner ts) tab r [] [] [] ->
  exists r4, traverse_loop ts (S m) r 0 acc = (r4, [70] :: acc, false) /\ r_eof r4 = true /\ r_err r4 = false.
Proof.
  intros (K & r0 & fuel & b1 & En & He & Hfe & Hl & Hc & Ha & Hf & Hn & Hb1 & Hio1 & T & HK).
  cbn [app] in Hb1.
  destruct (b_next_top_eof tot b1 _ Hb1 eq_refl Hio1) as (b' & E1 & Ec). rewrite <- Hn in E1.
  destruct K as [|k]; [cbn [length] in HK; lia|].
  assert (En1 : r_next ts r = (rs_eof (rs_bits r0 b') true, Ok false)).
  { rewrite nxt_next, En. cbn [r_next_loop]. rewrite (raw_eof ts _ fuel r0 b' E1 Ec). reflexivity. }
  eexists. split; [|split].
  - cbn [traverse_loop r_op]. rewrite En1. cbn [list_eqb N.eqb Pos.eqb andb]. reflexivity.
  - reflexivity.
  - rsimpl. exact He.
Qed.

End Trav.

Lemma proj_tail : map proj_tok [[101; 48]; [70]; [101; 48]; [70]; [101; 48]] = [[101; 48]; [70]; [101; 48]; [70]; [101; 48]].
Proof. reflexivity. Qed.
