(* ReaderForestP.v — the whole stream for ANY well-formed forest: version marker, the local symbol
   table the writer emits (when a non-system symbol occurs), the values under that table, end
   (C01/C03, reader side, all stages). *)
From Coq Require Import String List NArith ZArith Bool Lia ZifyBool ZifyN ZifyNat.
From IonV Require Import Base.Wire Base.Utf8 Bin.Bits Bin.BitsP Data.Ion Num.Float Bin.BitStream Bin.BinReader
  Bin.BitStreamP Bin.BitStreamNextP Bin.BinWriter Bin.SpecBin Bin.RoundTripBin Bin.RoundTripBinS Bin.RoundTripBinP
  Bin.BitEvalP Bin.ReaderTrace Bin.BinReaderInvP Bin.BinReaderP Bin.ReaderTraceP Bin.ReaderTopP Bin.ReaderLstP.
Import ListNotations.
Open Scope N_scope.
Ltac Zify.zify_post_hook ::= Z.div_mod_to_equations.

Ltac rsimpl :=
  cbn [r_bits r_ctx r_eof r_err r_lst r_field r_annots r_type r_value
       rs_bits rs_ctx rs_eof rs_err rs_lst rs_field rs_annots rs_val r_clear fst snd] in *.

(* ---- (b) the table the reader builds resolves the IDs the writer assigned ------------------------------------------- *)
Lemma lst_tab_ok L : 9 + N.of_nat (length L) < two63 -> forall t, known L t ->
  sid L t < two63 /\ sid_ok (lst_tab L) (sid L t) = true /\ lst_find_by_id (lst_tab L) (sid L t) = Some t.
Proof.
  intros HL t [i Hi]. unfold sid. rewrite Hi. destruct (find_by_name_spec _ _ _ Hi) as (A & B & C).
  assert (Emx : max_import_id [sys_imp] = 9) by reflexivity.
  split; [lia|]. split.
  - unfold sid_ok, lst_tab, lst_max_id. cbn [lt_imps lt_locals]. rewrite Emx.
    rewrite wrap_small by (unfold two63, two64 in *; lia). lia.
  - unfold lst_find_by_id, lst_tab. cbn [lt_imps lt_locals]. rewrite Emx. replace (i =? 0) with false by lia.
    destruct (i <=? 9) eqn:E9.
    + cbn [find_in_imports]. rewrite wrap_sub by (unfold two64; lia). rewrite N.sub_0_r.
      unfold imp_find_by_id, sys_imp. cbn [im_syms]. rewrite system_len.
      replace ((i =? 0) || (N.of_nat 9 <? i)) with false by lia.
      rewrite nth_error_app1 in C by (rewrite system_len; lia). exact C.
    + replace (i - 9 - 1 <? N.of_nat (length L)) with true by lia.
      rewrite nth_error_app2 in C by (rewrite system_len; lia). rewrite system_len in C.
      replace (N.to_nat (i - 9 - 1)) with (N.to_nat (i - 1) - 9)%nat by lia. exact C.
Qed.

Lemma strs_body_len L : (length L <= length (strs_body L))%nat.
Proof.
  unfold strs_body. induction L as [|t L IH]; cbn [map flat_map length]; [lia|]. rewrite app_length.
  pose proof (length_pos_nonempty _ (enc_tagged_nonempty 128 t)). cbn [enc]. lia.
Qed.
Lemma enc_lst_len L : L <> [] -> (length L + 5 <= length (enc_lst L))%nat.
Proof.
  intros Hne. destruct L as [|t0 L0]; [contradiction|]. set (L := t0 :: L0). unfold enc_lst. fold L.
  change (enc [] (lst_value L)) with
    (enc_tagged 224 (enc_annots [] [SymText (s "$ion_symbol_table"%string)] ++
       enc_tagged 208 ((append_varuint [] (sid [] (s "symbols"%string)) ++ enc_tagged 176 (strs_body L)) ++ []))).
  pose proof (strs_body_len L) as H0.
  pose proof (enc_tagged_body_le 176 (strs_body L)) as H1.
  set (b208 := (append_varuint [] (sid [] (s "symbols"%string)) ++ enc_tagged 176 (strs_body L)) ++ []).
  pose proof (enc_tagged_body_le 208 b208) as H2.
  set (b224 := enc_annots [] [SymText (s "$ion_symbol_table"%string)] ++ enc_tagged 208 b208).
  pose proof (enc_tagged_body_le 224 b224) as H3.
  assert (H4 : (length b208 >= 1 + length (enc_tagged 176 (strs_body L)))%nat).
  { subst b208. rewrite !app_length. pose proof (length_pos_nonempty _ (append_varuint_nonempty (sid [] (s "symbols"%string)))). lia. }
  assert (H5 : (length b224 >= 1 + length (enc_tagged 208 b208))%nat).
  { subst b224. rewrite app_length.
    assert (Hn : enc_annots [] [SymText (s "$ion_symbol_table"%string)] <> []) by (vm_compute; discriminate).
    pose proof (length_pos_nonempty _ Hn). lia. }
  change (length L + 5 <= length (enc_tagged 224 b224))%nat. lia.
Qed.

(* ---- (c) the first Next: version marker, annotation wrapper, the table ---------------------------------------------- *)
Definition sym_ist : symv := SymText (s "$ion_symbol_table"%string).

Lemma enc_lst_eq L : L <> [] -> enc_lst L = enc [] (VAnn [sym_ist] (lst_struct L)).
Proof. destruct L; [contradiction|reflexivity]. Qed.

Lemma lst_struct_wf L : Forall (fun t => utf8_valid t = true) L -> wf_value (lst_struct L).
Proof.
  intros Hu. constructor. constructor; [|constructor]. split; [exact (proj1 known_symbols)|]. cbn [snd].
  constructor. rewrite Forall_map. eapply Forall_impl; [|exact Hu]. intros t Ht. constructor. exact Ht.
Qed.

Lemma RS_retab tot tab tab' r r' inp outer stk : RS tot tab r inp outer stk ->
  r_err r' = r_err r -> r_eof r' = r_eof r -> r_lst r' = Some tab' -> r_ctx r' = r_ctx r -> r_bits r' = r_bits r ->
  RS tot tab' r' inp outer stk.
Proof.
  intros [He Hf Hl Hc Hb T] E1 E2 E3 E4 E5. constructor; try congruence; rewrite E5; exact Hb.
Qed.

Section StartLst.
Variable ts : list N -> res unit.
Variable L : list text.
Variable vals : list N.
Hypothesis HL : L <> [].
Hypothesis Hu : Forall (fun t => utf8_valid t = true) L.
Let body := enc_lst L ++ vals.
Let inp := bvm ++ body.
Variable tot : N.
Hypothesis Etot : tot = 4 + N.of_nat (length body).
Hypothesis Htot : tot < two63.

Lemma start_lst_PRE : PRE ts tot (lst_tab L) (r_init inp false) vals [] [].
Proof.
  destruct (start_next body) as (E1 & Ec & Es). destruct (start_bvm body) as (E2 & I2 & S2 & K2 & N2 & P2).
  pose proof (start_BS body tot Etot) as Hb2.
  set (b1 := fst (b_next (b_init (bvm ++ body) false))) in *. set (b2 := fst (b_read_bvm b1)) in *.
  set (api := r_next_inner ts). set (len := length inp).
  set (r0 := rs_lst (rs_bits (rs_bits (r_clear (r_init inp false)) b1) b2) (Some LSys)).
  assert (Hlen : (length L + 9 <= len)%nat).
  { subst len inp body. unfold bvm. rewrite !app_length. cbn [length]. pose proof (enc_lst_len L HL). lia. }
  assert (EA : r_next ts (r_init inp false) = r_next_loop ts api (S len) (S (S len)) r0).
  { unfold r_next, r_next_with, input_fuel. cbn [r_init r_eof r_err orb r_bits b_init b_fuel].
    apply loop_false. apply raw_bvm; assumption. }
  assert (M0 : MID tot LSys r0 (enc [] (VAnn [sym_ist] (lst_struct L)) ++ vals) [] [] None []).
  { constructor; try reflexivity; try exact Logic.I. exists b2. split; [reflexivity|].
    rewrite app_nil_r, <- (enc_lst_eq L HL). exact Hb2. }
  destruct len as [|k] eqn:Ek; [lia|].
  destruct (loop_annots ts tot Htot LSys [] sys_tab_ok api (S (S (S k))) (S k) r0 [sym_ist] (lst_struct L) vals [] [] None M0
              (lst_struct_wf L Hu) Logic.I ltac:(discriminate)) as (r' & EB & M1).
  { constructor; [|constructor]. eexists; split; [reflexivity|vm_compute; reflexivity]. }
  { constructor; [|constructor]. exists 3. vm_compute. reflexivity. }
  assert (Hfu : (length L + 2 <= S (S (S k)))%nat) by lia.
  destruct (raw_lst ts tot Htot L (S (S (S k))) r' vals _ Hu Hfu M1 eq_refl) as (r7 & EC & Rs7 & F7 & A7).
  exists k, (rs_lst r7 (Some (lst_tab L))), api, (S (S (S k))).
  split; [rewrite EA, EB; apply loop_false; exact EC|].
  split; [eapply RS_retab; [exact Rs7|reflexivity..]|]. split; [exact F7|]. split; [exact A7|]. lia.
Qed.
End StartLst.

(* ---- (d) the assembly, for any table that resolves the writer's IDs ---------------------------------------------------- *)
Lemma top_guard_any L v : top_guard [] v -> top_guard L v.
Proof.
  destruct v; try exact (fun H => H). unfold top_guard, lst_guard. intros H E1 E2. apply H; [exact E1|].
  destruct a; exact E2.
Qed.

Lemma traverse_core ts tot tab L vs inp : tot < two63 ->
  (forall t, known L t -> sid L t < two63 /\ sid_ok tab (sid L t) = true /\ lst_find_by_id tab (sid L t) = Some t) ->
  (forall bs, ts bs <> Panic /\ ts bs <> OutOfFuel) -> vs <> [] ->
  Forall wf_value vs -> Forall (known L) (flat_map (texts []) vs) ->
  (forall body, In body (flat_map ts_bodies vs) -> ts body = Ok tt) ->
  Forall (top_guard L) vs ->
  PRE ts tot tab (r_init inp false) (flat_map (enc L) vs) [] [] -> RIO (r_init inp false) ->
  (2 * length (flat_map (enc L) vs) + 1 <= 4 * length inp + 16)%nat ->
  fst (traverse ts inp false) = trace_under L vs.
Proof.
  intros Htot Htab Hts Hne Hw Hk Htb Hg P0 Rio0 Hfuel.
  set (body := flat_map (enc L) vs) in *.
  set (items := map (fun v => (@None symv, v)) vs).
  assert (Eb : body = flat_map (item_enc L) items).
  { subst body items. rewrite fm_map. reflexivity. }
  assert (Hall : Forall (fun p => (cost (snd p) <= items_cost items)%nat /\ wf_value (snd p) /\ fld_ok L [] (fst p) /\
                   Forall (known L) (texts [] (snd p)) /\
                   (forall body, In body (ts_bodies (snd p)) -> ts body = Ok tt) /\
                   (@nil (N * N) = [] -> top_guard L (snd p))) items).
  { subst items. rewrite Forall_map. rewrite Forall_forall in *. intros v Hin. cbn [fst snd].
    split; [rewrite cost_map; exact (cost_in tot Htot cost vs v Hin)|]. split; [auto|]. split; [reflexivity|].
    split; [|split; [|intros _; apply Hg; exact Hin]].
    - apply Forall_forall. intros t Ht. apply Hk. apply in_flat_map. eauto.
    - intros bd Hb. apply Htb. apply in_flat_map. eauto. }
  assert (Hcost : (items_cost items <= 2 * length body)%nat).
  { subst items. rewrite cost_map. subst body. apply (sum_le cost (enc L)). rewrite Forall_forall in *. intros v Hin.
    apply cost_le. auto. }
  unfold traverse.
  assert (Efuel : exists m, (4 * length inp + 16 = items_cost items + S m)%nat).
  { exists (4 * length inp + 15 - items_cost items)%nat. lia. }
  destruct Efuel as [m Em]. rewrite Em.
  rewrite Eb, <- (app_nil_r (flat_map (item_enc L) items)) in P0.
  destruct (forest ts tot Htot tab L Htab Hts (items_cost items)
              (fun v _ Hwv => value_traversed ts tot Htot tab L Htab Hts v Hwv)
              items [] [] Hall [] (r_init inp false) 0%nat [] (S m) P0 Rio0) as (r' & E & _ & Rio' & Hor).
  rewrite E. destruct Hor as [[Ei _]|Rs']; [subst items; destruct vs; [contradiction|discriminate Ei]|].
  destruct (finish_top ts tot tab r' m (rev (flat_map (item_tr L) items) ++ []) Htot Rs' (proj2 Rio')) as (r4 & E4 & He4 & Hr4).
  rewrite E4. pose proof (tail_run ts r4 He4 Hr4) as Et.
  destruct (r_run ts r4 [OErr; ONext; OErr; ONext; OErr] []) as [r5 tl]. cbn [snd fst] in *. subst tl.
  rewrite rev_append_rev, !app_nil_r. cbn [rev]. rewrite rev_involutive.
  unfold trace_under, tr_tail. subst items. rewrite fm_map. rewrite <- app_assoc. reflexivity.
Qed.

Theorem traverse_forest ts vs :
  (forall bs, ts bs <> Panic /\ ts bs <> OutOfFuel) -> wf_values vs -> Forall not_lst_null vs ->
  (forall body, In body (flat_map ts_bodies vs) -> ts body = Ok tt) ->
  N.of_nat (length (enc_forest vs)) < two63 ->
  fst (traverse ts (enc_forest vs) false) = trace_of vs.
Proof.
  intros Hts Hw Hn Htb Hlen.
  assert (Hwv : Forall wf_value vs) by (eapply Forall_impl; [|exact Hw]; intros v [H _]; exact H).
  destruct (locals_ok vs Hwv) as [Hu Hk].
  assert (Hg0 : Forall top_ok_value vs).
  { unfold wf_values in Hw. rewrite Forall_forall in *. intros v Hin. apply top_ok_of; auto. }
  unfold trace_of, enc_forest in *. set (L := locals_of vs) in *.
  destruct L as [|t0 L0] eqn:EL.
  - cbn [enc_lst app] in *. apply traverse_system; auto.
  - set (L1 := t0 :: L0) in *. assert (HL : L1 <> []) by discriminate.
    assert (Hvs : vs <> []).
    { intros ->. unfold L, locals_of in EL. cbn in EL. discriminate EL. }
    set (vals := flat_map (enc L1) vs) in *.
    set (tot := 4 + N.of_nat (length (enc_lst L1 ++ vals))).
    assert (Elen : length (bvm ++ enc_lst L1 ++ vals) = (4 + length (enc_lst L1 ++ vals))%nat) by reflexivity.
    assert (Htot : tot < two63) by (subst tot; lia).
    pose proof (enc_lst_len L1 HL) as Hll.
    assert (HL9 : 9 + N.of_nat (length L1) < two63).
    { pose proof Hlen as H9. rewrite Elen, app_length in H9. unfold two63 in *. lia. }
    apply (traverse_core ts tot (lst_tab L1) L1 vs); auto.
    + apply lst_tab_ok. exact HL9.
    + eapply Forall_impl; [|exact Hg0]. intros v. apply top_guard_any.
    + apply (start_lst_PRE ts L1 vals HL Hu tot eq_refl Htot).
    + split; [unfold bvm; cbn [app]; apply RInv_init|reflexivity].
    + rewrite Elen, app_length. fold vals. lia.
Qed.
