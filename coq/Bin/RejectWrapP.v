(* RejectWrapP.v — annotation wrappers the restricted decoder rejects before or at the annotated value's header: malformed /
   zero / overrunning annot_length, malformed or undefined annotation IDs, no value, a wrapper around a wrapper or a NOP
   pad, a value that does not fill the wrapper.  ReadAnnotations (with validateAnnotatedValue) fails. *)
From Coq Require Import String List NArith ZArith Bool Lia ZifyBool ZifyN ZifyNat.
From IonV Require Import Base.Wire Base.Utf8 Bin.Bits Bin.BitsP Data.Ion Num.Float Bin.BitStream Bin.BinReader
  Bin.BitStreamP Bin.BitStreamNextP Bin.BinWriter Bin.SpecBin Bin.RoundTripBin Bin.RoundTripBinS Bin.BitEvalP
  Bin.BitEvalAnnP Bin.ReaderTrace Bin.BinReaderInvP Bin.BinReaderP Bin.ReaderTraceP Bin.ReaderTopP
  Bin.ReaderLstP Bin.SpecLim Bin.SpecLimP Bin.SpecLimAppP Bin.BitEvalGenP Bin.SpecAgreeP Bin.BitEvalAnnGenP
  Bin.Reject Bin.RejectP Bin.RejectVarP Bin.RejectHdrP.
Import ListNotations.
Open Scope N_scope.
Ltac Zify.zify_post_hook ::= Z.div_mod_to_equations.

Ltac bsimpl :=
  cbn [b_in b_ioerr b_pos b_state b_stack b_code b_null b_len b_alloc b_avail b_fuel
       upd_in upd_state upd_stack upd_cur upd_alloc b_clear done_value fst snd] in *.
Ltac rsimpl :=
  cbn [r_bits r_ctx r_eof r_err r_lst r_field r_annots r_type r_value
       rs_bits rs_ctx rs_eof rs_err rs_lst rs_field rs_annots rs_val r_clear fst snd] in *.

(* ---- validateAnnotatedValue refuses ------------------------------------------------------------------------------------------- *)
Lemma validate_rej ts f ctx b vt vr z : Forall (fun c => c < 256) (vt :: vr) -> b_in b = (vt :: vr) ++ z ->
  (length (b_in b) + 2 <= b_fuel b)%nat -> N.of_nat (length (vt :: vr)) < two63 ->
  (vt / 16 = 14 /\ vt mod 16 <> 15) \/
  (vt / 16 <> 14 /\ exists rr, sl_value ts f ctx (vt :: vr) = Some (None, rr)) \/
  (vt / 16 <> 14 /\ exists x c rr, sl_value ts f ctx (vt :: vr) = Some (Some x, c :: rr)) ->
  b_validate_annotated b (N.of_nat (length (vt :: vr))) = Err.
Proof.
  intros Hbytes Ein Hf Hlen Hc. inversion Hbytes as [|? ? Hvt Hvr]; subst.
  assert (vt = 16 * (vt / 16) + vt mod 16 /\ vt / 16 < 16 /\ vt mod 16 < 16) as (Etag & Ht16 & Hlo16) by lia.
  unfold b_validate_annotated, b_peek. rewrite Ein. cbn [app nth_error N.to_nat].
  rewrite Etag at 1. rewrite parse_tag_eq by lia.
  destruct Hc as [(E14 & El)|[(N14 & rr & Hsp)|(N14 & x & c & rr & Hsp)]].
  - rewrite E14. replace (vt mod 16 =? 15) with false by lia. reflexivity.
  - destruct f as [|f]; [discriminate|]. destruct (sl_none_is_pad ts 0 ltac:(unfold two63; lia) ctx f vt vr rr Hsp) as (Et0 & El).
    rewrite Et0. replace (vt mod 16 =? 15) with false by lia. reflexivity.
  - destruct f as [|f]; [discriminate|].
    destruct (sl_value_suffix ts _ ctx _ _ _ Hbytes Hsp) as (pre & Epre & Hpre).
    assert (Hlr : (length (c :: rr) <= length vr)%nat).
    { assert (L : length (vt :: vr) = length (pre ++ c :: rr)) by (rewrite Epre; reflexivity).
      rewrite app_length in L. destruct pre; [contradiction|]. cbn [length] in *. lia. }
    destruct (sl_value_hdr ts f ctx vt vr x (c :: rr) Hsp) as [(El & Er)|[(Et & El & Er)|(El & Et1 & Et0 & Et15 & len & r1 & body & Eh & Es0 & Etk)]].
    + rewrite El. cbn [N.eqb Pos.eqb]. replace (N.of_nat (length (vt :: vr)) =? 1) with false by (cbn [length] in *; lia). reflexivity.
    + rewrite Et. replace (vt mod 16 =? 15) with false by lia.
      change (bitcode_of_high 1 =? bcNull) with false. change (bitcode_of_high 1 =? bcAnnotation) with false.
      change (bitcode_of_high 1 =? bcFalse) with true. cbn [andb].
      cbn [length] in *. rewrite wrap_sub by (unfold two63, two64 in *; lia).
      assert (C : vt mod 16 = 0 \/ vt mod 16 = 1) by lia.
      set (R := N.of_nat (S (length vr)) - 1). assert (HR : R <> 0) by (subst R; lia).
      destruct C as [C|C]; rewrite C; (destruct R; [contradiction|reflexivity]).
    + replace (vt mod 16 =? 15) with false by lia.
      destruct (boh_facts (vt / 16)) as (F1 & F2 & F3 & F4 & F5); [lia|].
      assert (Hnull : (bitcode_of_high (vt / 16) =? bcNull) = false).
      { assert (C : vt / 16 = 2 \/ vt / 16 = 3 \/ vt / 16 = 4 \/ vt / 16 = 5 \/ vt / 16 = 6 \/ vt / 16 = 7 \/ vt / 16 = 8 \/
                    vt / 16 = 9 \/ vt / 16 = 10 \/ vt / 16 = 11 \/ vt / 16 = 12 \/ vt / 16 = 13) by lia.
        repeat (destruct C as [C|C]; [rewrite C; reflexivity|]). rewrite C; reflexivity. }
      assert (Hann : (bitcode_of_high (vt / 16) =? bcAnnotation) = false).
      { destruct (bitcode_of_high (vt / 16) =? bcAnnotation) eqn:Ea; [|reflexivity]. specialize (F4 eq_refl). lia. }
      assert (Hst : (bitcode_of_high (vt / 16) =? bcStruct) = (vt / 16 =? 13)).
      { destruct (boh_gen (vt / 16)) as (_ & _ & G & _); [lia|lia|exact G]. }
      rewrite Hnull, Hann, F2, Hst. cbn [andb].
      destruct (take_n_spec _ _ _ _ Etk) as [Er1 Eb].
      cbn [length] in *. rewrite wrap_sub by (unfold two63, two64 in *; lia).
      destruct ((vt mod 16 =? 14) || (vt / 16 =? 13) && (vt mod 16 =? 1)) eqn:Ev.
      * destruct (lim_varuint_layout vr len r1 z Eh Hvr) as (ds & E0 & Hds & Hv64 & Hrd).
        pose proof (Hrd 10 ltac:(lia)) as Rt. unfold read_varuint in Rt.
        destruct (validate_len_loop_digits _ _ _ _ _ _ _ _ Rt) as [_ K].
        rewrite (K (b_fuel b) b 1 (N.of_nat (S (length vr)) - 1)).
        -- rewrite E0, Er1, !app_length. cbn [length].
           replace (len =? N.of_nat (S (length ds + (length body + S (length rr)))) - 1 - (N.of_nat (length ds) - 0)) with false by lia.
           reflexivity.
        -- rewrite Ein. cbn [app N.to_nat Pos.to_nat Pos.iter_op Nat.add skipn]. rewrite E0, <- app_assoc. reflexivity.
        -- rewrite Ein in Hf. cbn [app length] in Hf. rewrite E0, !app_length in Hf. lia.
        -- lia.
        -- rewrite E0, app_length. lia.
        -- unfold two63, two64 in *. lia.
      * assert (Hq : len = vt mod 16 /\ r1 = vr) by (inversion Eh; auto). destruct Hq as [Hq1 Hq2]. rewrite Hq2 in Er1.
        rewrite Er1, app_length. cbn [length].
        replace (vt mod 16 =? N.of_nat (S (length body + S (length rr))) - 1) with false by lia. reflexivity.
Qed.
