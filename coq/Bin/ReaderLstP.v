(* ReaderLstP.v — the binary reader model reads the local symbol table the binary writer model
   emits: Next / StepIn / StepOut at the reader level (any inner Next), then readLocalSymbolTable
   on  $ion_symbol_table::{symbols:[...]}  (C01/C03, stage S4). *)
From Coq Require Import String List NArith ZArith Bool Lia ZifyBool ZifyN ZifyNat.
From IonV Require Import Base.Wire Base.Utf8 Bin.Bits Bin.BitsP Data.Ion Num.Float Bin.BitStream Bin.BinReader
  Bin.BitStreamP Bin.BitStreamNextP Bin.BinWriter Bin.SpecBin Bin.RoundTripBin Bin.RoundTripBinS Bin.BitEvalP
  Bin.BitEvalAnnP Bin.ReaderTrace Bin.BinReaderInvP Bin.BinReaderP Bin.ReaderTraceP Bin.RoundTripBinP Bin.ReaderTopP.
Import ListNotations.
Open Scope N_scope.
Ltac Zify.zify_post_hook ::= Z.div_mod_to_equations.

Ltac bsimpl :=
  cbn [b_in b_ioerr b_pos b_state b_stack b_code b_null b_len b_alloc b_avail b_fuel
       upd_in upd_state upd_stack upd_cur upd_alloc b_clear done_value fst snd] in *.
Ltac rsimpl :=
  cbn [r_bits r_ctx r_eof r_err r_lst r_field r_annots r_type r_value
       rs_bits rs_ctx rs_eof rs_err rs_lst rs_field rs_annots rs_val r_clear fst snd] in *.

(* ---- Next, StepIn, StepOut at the reader level, for any inner Next ------------------------------------------------- *)
Section With.
Variable ts : list N -> res unit.
Variable tot : N.
Hypothesis Htot : tot < two63.
Variable tab : rlst.
Variable L : list text.
Hypothesis Htab : forall t, known L t ->
  sid L t < two63 /\ sid_ok tab (sid L t) = true /\ lst_find_by_id tab (sid L t) = Some t.
Variable api : rstate -> rstate * res bool.

Lemma RS_clear r inp outer stk : RS tot tab r inp outer stk -> RS tot tab (r_clear r) inp outer stk.
Proof. intros [He Hf Hl Hc Hb T]. constructor; rsimpl; assumption. Qed.

Lemma next_scalar_with fuel r fld a x rest outer stk : (3 <= fuel)%nat ->
  RS tot tab r (item_bytes L fld ++ enc L (wrap_ann a x) ++ rest) outer stk -> fld_ok L stk fld ->
  wf_value x -> is_scalar x -> Forall wf_sym a -> Forall (known L) (map symtext a) -> Forall (known L) (texts [] x) ->
  (forall body, In body (ts_bodies x) -> ts body = Ok tt) -> lst_guard stk (map (rd_tok L) a) x ->
  exists r1, r_next_with ts api fuel r = (r1, Ok true) /\ r_field r1 = option_map (rd_tok L) fld /\
             r_annots r1 = map (rd_tok L) a /\ rv_ok L x r1 /\ RS tot tab r1 rest outer stk.
Proof.
  intros Hfu Hr Hfo Hw Hs Hws Hks Hkx Htb G. destruct fuel as [|[|[|k]]]; try lia.
  assert (Hna : not_ann x) by (destruct x; try destruct Hs; exact Logic.I).
  unfold r_next_with. rewrite (rz_eof _ _ _ _ _ _ Hr), (rz_err _ _ _ _ _ _ Hr). cbn [orb].
  destruct (loop_prefix ts tot Htot tab L Htab api (S (S (S k))) k (r_clear r) fld a x rest outer stk
              (RS_clear _ _ _ _ Hr) eq_refl eq_refl Hfo Hw Hna Hws Hks) as (r0 & k' & E0 & M0).
  destruct (loop_scalar ts tot Htot tab L Htab api (S (S (S k))) k' r0 x rest outer stk _ _ M0 Hw Hs Hkx Htb G)
    as (r1 & E1 & F1 & A1 & Rv & Rs1).
  exists r1. rewrite E0, E1. auto.
Qed.

Lemma next_container_with fuel r fld a x t body rest outer stk : (3 <= fuel)%nat ->
  RS tot tab r (item_bytes L fld ++ enc L (wrap_ann a x) ++ rest) outer stk -> fld_ok L stk fld ->
  enc L x = enc_tagged (16 * t) body -> 11 <= t <= 13 -> (t = 13 -> length body <> 1%nat) ->
  (t = 13 -> exists fs, x = VStruct fs) -> wf_value x -> not_ann x ->
  Forall wf_sym a -> Forall (known L) (map symtext a) -> lst_guard stk (map (rd_tok L) a) x ->
  exists r1, r_next_with ts api fuel r = (r1, Ok true) /\ r_field r1 = option_map (rd_tok L) fld /\
             r_annots r1 = map (rd_tok L) a /\
             r_type r1 = t /\ r_value r1 = RContainer /\ r_err r1 = false /\ r_eof r1 = false /\
             r_lst r1 = Some tab /\ r_ctx r1 = ctx_of_stk stk /\
             BS (r_bits r1) (body ++ rest ++ outer) bssOnValue stk tot /\
             b_code (r_bits r1) = bitcode_of_high t /\ b_len (r_bits r1) = N.of_nat (length body) /\
             top_ok tot stk outer.
Proof.
  intros Hfu Hr Hfo Ex Ht H13 Hst Hw Hna Hws Hks G. destruct fuel as [|[|[|k]]]; try lia.
  unfold r_next_with. rewrite (rz_eof _ _ _ _ _ _ Hr), (rz_err _ _ _ _ _ _ Hr). cbn [orb].
  destruct (loop_prefix ts tot Htot tab L Htab api (S (S (S k))) k (r_clear r) fld a x rest outer stk
              (RS_clear _ _ _ _ Hr) eq_refl eq_refl Hfo Hw Hna Hws Hks) as (r0 & k' & E0 & M0).
  rewrite Ex in M0.
  assert (Hnl : t = 13 -> not_lst_pos r0).
  { intros E13. destruct (Hst E13) as (fs & ->). eapply guard_pos; [apply M0|apply M0|exact G|exact Logic.I]. }
  destruct (loop_container ts tot Htot tab L Htab api (S (S (S k))) k' r0 t body rest outer stk _ _ M0 Ht H13 Hnl)
    as (r1 & E1 & Rest).
  exists r1. rewrite E0, E1. split; [reflexivity|].
  destruct Rest as (A1 & A2 & A3 & A4 & A5 & A6 & A7 & A8 & A9 & A10 & A11).
  repeat (split; [assumption|]). apply M0.
Qed.

Lemma next_end_with fuel r c e stk outer : (1 <= fuel)%nat ->
  RS tot tab r [] outer ((c, e) :: stk) ->
  exists r4, r_next_with ts api fuel r = (r4, Ok false) /\ r_eof r4 = true /\ r_err r4 = false /\
             r_lst r4 = Some tab /\ r_ctx r4 = ctx_of_stk ((c, e) :: stk) /\
             BS (r_bits r4) outer (sav ((c, e) :: stk)) ((c, e) :: stk) tot /\ b_pos (r_bits r4) = e.
Proof.
  intros Hfu Hr. destruct fuel as [|k]; [lia|]. pose proof Hr as [He Hf Hl Hc Hb T1].
  destruct (pre_next tot _ _ _ Hb) as (b1 & Hn & Hb1). cbn [app] in *.
  assert (Hpos : b_pos b1 = e).
  { pose proof Hb1 as [I Ein _ _ _ Nw]. pose proof (bcore_avail _ (proj1 I)) as A. unfold avail_ok in A.
    unfold top_ok in T1. rewrite Ein in A. lia. }
  destruct (b_next_container_end tot Htot b1 _ _ c e stk Hb1) as (b' & E1 & Hb' & Ec & Ep);
    [reflexivity|exact Hpos|].
  rewrite <- Hn in E1.
  exists (rs_eof (rs_bits (r_clear r) b') true). split.
  - unfold r_next_with. rewrite He, Hf. cbn [orb].
    rewrite (loop_true ts api (S k) k (r_clear r) _ (raw_eof ts api (S k) (r_clear r) b' E1 Ec)). reflexivity.
  - rsimpl. auto 10.
Qed.

Lemma step_out_with r4 c e stk rest outer st : r_err r4 = false -> r_lst r4 = Some tab ->
  r_ctx r4 = ctx_of_stk ((c, e) :: stk) -> BS (r_bits r4) (rest ++ outer) st ((c, e) :: stk) tot ->
  b_pos (r_bits r4) = e -> top_ok tot stk outer ->
  exists r5, r_step_out r4 = (r5, Ok true) /\ RS tot tab r5 rest outer stk /\
             r_field r5 = None /\ r_annots r5 = [] /\ r_value r5 = RNil /\ r_type r5 = 0.
Proof.
  intros He Hl Hc Hb Ep T.
  destruct (step_out_eval tot Htot (r_bits r4) _ _ c e stk Hb Ep) as (b'' & Eo & Hb'').
  eexists. split.
  - unfold r_step_out. rewrite He. rewrite (peek_stk r4 ((c, e) :: stk) Hc) by discriminate. rewrite Eo. reflexivity.
  - split; [|rsimpl; auto]. constructor; rsimpl; auto. rewrite Hc. reflexivity.
Qed.

Lemma step_in_with r1 t body rest outer stk : r_err r1 = false -> r_eof r1 = false -> r_lst r1 = Some tab ->
  r_ctx r1 = ctx_of_stk stk -> r_type r1 = t -> 11 <= t <= 13 -> r_value r1 = RContainer ->
  BS (r_bits r1) (body ++ rest ++ outer) bssOnValue stk tot ->
  b_code (r_bits r1) = bitcode_of_high t -> b_len (r_bits r1) = N.of_nat (length body) ->
  exists r2 e, r_step_in r1 = (r2, Ok true) /\ RS tot tab r2 body (rest ++ outer) ((bitcode_of_high t, e) :: stk) /\
               r_field r2 = None /\ r_annots r2 = [].
Proof.
  intros He1 Hf1 Hl1 Hc1 Ety Ht Ev Hb1 Ec1 El1.
  assert (Hcc : is_container_code (b_code (r_bits r1))).
  { rewrite Ec1. assert (C : t = 11 \/ t = 12 \/ t = 13) by lia. unfold is_container_code.
    destruct C as [C|[C|C]]; rewrite C; vm_compute; auto. }
  destruct (step_in_eval tot Htot (r_bits r1) _ stk Hb1 Hcc) as (b' & Es & Hb' & Ep).
  eexists _, (b_pos (r_bits r1) + b_len (r_bits r1)). split.
  - unfold r_step_in. rewrite He1, Ev, Ety.
    replace (negb ((t =? TList) || (t =? TSexp) || (t =? TStruct))) with false by (unfold TList, TSexp, TStruct; lia).
    rsimpl. rewrite Es. reflexivity.
  - split; [|split; reflexivity]. rewrite Ec1 in Hb'. constructor; rsimpl; auto.
    + rewrite Hc1. assert (C : t = 11 \/ t = 12 \/ t = 13) by lia.
      destruct C as [C|[C|C]]; rewrite C; reflexivity.
    + unfold top_ok. pose proof Hb1 as [I Ein _ _ _ Nw]. pose proof (bcore_avail _ (proj1 I)) as A.
      unfold avail_ok in A. rewrite Ein, !app_length in A. rewrite El1, app_length. lia.
Qed.
End With.

(* ---- readLocalSymbolTable on  {symbols:[s1, ..., sn]}  under the system table ---------------------------------------- *)
Section Lst.
Variable ts : list N -> res unit.
Variable tot : N.
Hypothesis Htot : tot < two63.

Definition panic_next : rstate -> rstate * res bool := fun r0 => (r0, Panic).
Definition ENDS (r4 : rstate) (c e : N) (stk : list (N * N)) (outer : list N) : Prop :=
  r_eof r4 = true /\ r_err r4 = false /\ r_lst r4 = Some LSys /\ r_ctx r4 = ctx_of_stk ((c, e) :: stk) /\
  BS (r_bits r4) outer (sav ((c, e) :: stk)) ((c, e) :: stk) tot /\ b_pos (r_bits r4) = e.

Lemma inner_eq r : r_next_inner ts r = r_next_with ts panic_next (input_fuel r) r.
Proof. reflexivity. Qed.

Lemma inner_fuel r inp outer stk : RS tot LSys r inp outer stk -> (length (inp ++ outer) + 2 <= input_fuel r)%nat.
Proof.
  intros [_ _ _ _ Hb _]. unfold input_fuel.
  destruct Hb as [[I Ein _ _ _ _]|[I Ein _ _ _ _]]; rewrite <- Ein; apply I.
Qed.

Lemma inner_end r c e stk outer : RS tot LSys r [] outer ((c, e) :: stk) ->
  exists r4, r_next_inner ts r = (r4, Ok false) /\ ENDS r4 c e stk outer.
Proof.
  intros Hr. pose proof (inner_fuel _ _ _ _ Hr) as Hf. rewrite inner_eq.
  apply (next_end_with ts tot Htot LSys [] sys_tab_ok panic_next (input_fuel r) r c e stk outer); [lia|exact Hr].
Qed.

Lemma read_symbols_loop_eval strs : Forall (fun t => utf8_valid t = true) strs ->
  forall fuel r acc e stk outer, (length strs < fuel)%nat ->
  RS tot LSys r (flat_map (enc []) (map VString strs)) outer ((bcList, e) :: stk) ->
  exists r4, read_symbols_loop (r_next_inner ts) fuel r acc = (r4, Ok (acc ++ strs)) /\ ENDS r4 bcList e stk outer.
Proof.
  induction 1 as [|t strs Hu _ IH]; intros fuel r acc e stk outer Hfu Hr;
    (destruct fuel as [|f]; [cbn [length] in Hfu; lia|]); cbn [read_symbols_loop].
  - destruct (inner_end r bcList e stk outer Hr) as (r4 & E & He). rewrite E, app_nil_r. eauto.
  - cbn [map flat_map] in Hr. pose proof (inner_fuel _ _ _ _ Hr) as Hf.
    assert (Hne : (1 <= length (enc [] (VString t)))%nat).
    { apply length_pos_nonempty. cbn [enc]. apply enc_tagged_nonempty. }
    rewrite !app_length in Hf.
    assert (H3 : (3 <= input_fuel r)%nat) by lia.
    assert (Hw : wf_value (VString t)) by (constructor; exact Hu).
    assert (Htb : forall body, In body (ts_bodies (VString t)) -> ts body = Ok tt) by (intros body []).
    destruct (next_scalar_with ts tot Htot LSys [] sys_tab_ok panic_next (input_fuel r) r None [] (VString t)
                (flat_map (enc []) (map VString strs)) outer ((bcList, e) :: stk) H3 Hr eq_refl Hw Logic.I
                (Forall_nil _) (Forall_nil _) (Forall_nil _) Htb (guard_deep _ _ _ _))
      as (r1 & E1 & _ & _ & Rv & Rs1).
    rewrite (inner_eq r), E1. destruct Rv as [Et Ev]. cbn [vtype val_rel] in *.
    rewrite Et, Ev. cbn [N.eqb Pos.eqb TString].
    destruct (IH f r1 (acc ++ [t]) e stk outer) as (r4 & E4 & He4); [cbn [length] in Hfu; lia|exact Rs1|].
    exists r4. rewrite E4, <- app_assoc. split; [reflexivity|exact He4].
Qed.

Definition sym_symbols : symv := SymText (s "symbols"%string).
Definition strs_body (strs : list text) : list N := flat_map (enc []) (map VString strs).

Lemma read_symbols_eval strs fuel r3 rest outer stk : Forall (fun t => utf8_valid t = true) strs ->
  (length strs < fuel)%nat ->
  r_err r3 = false -> r_eof r3 = false -> r_lst r3 = Some LSys -> r_ctx r3 = ctx_of_stk stk ->
  r_type r3 = 11 -> r_value r3 = RContainer ->
  BS (r_bits r3) (strs_body strs ++ rest ++ outer) bssOnValue stk tot ->
  b_code (r_bits r3) = bitcode_of_high 11 -> b_len (r_bits r3) = N.of_nat (length (strs_body strs)) ->
  top_ok tot stk outer ->
  exists r5, read_symbols (r_next_inner ts) fuel r3 = (r5, Ok strs) /\ RS tot LSys r5 rest outer stk /\
             r_field r5 = None /\ r_annots r5 = [].
Proof.
  intros Hu Hfu He Hf Hl Hc Ety Ev Hb Ec El T.
  destruct (step_in_with ts tot Htot LSys [] sys_tab_ok panic_next r3 11 _ rest outer stk He Hf Hl Hc Ety ltac:(lia) Ev Hb Ec El)
    as (r4 & e & Esi & Rs4 & _ & _).
  change (bitcode_of_high 11) with bcList in Rs4.
  destruct (read_symbols_loop_eval strs Hu fuel r4 [] e stk (rest ++ outer) Hfu Rs4) as (r6 & Elp & He6).
  destruct He6 as (E1 & E2 & E3 & E4 & E5 & E6).
  destruct (step_out_with tot Htot LSys r6 bcList e stk rest outer _ E2 E3 E4 E5 E6 T) as (r5 & Eso & Rs5 & F5 & A5 & _).
  exists r5. unfold read_symbols. rewrite Ety. unfold r_is_null. rewrite Ev, andb_false_r.
  change (negb (11 =? TList) || false) with false. cbv iota.
  rewrite Esi, Elp, Eso. cbn [app]. auto.
Qed.

Lemma known_symbols : wf_sym sym_symbols /\ known [] (symtext sym_symbols).
Proof. split; [eexists; split; [reflexivity|vm_compute; reflexivity]|exists 7; vm_compute; reflexivity]. Qed.

Lemma read_lst_loop_eval strs fuel r2 e stk outer : Forall (fun t => utf8_valid t = true) strs ->
  (length strs + 2 <= fuel)%nat ->
  RS tot LSys r2 (item_bytes [] (Some sym_symbols) ++ enc [] (wrap_ann [] (VList (map VString strs))) ++ []) outer
     ((bcStruct, e) :: stk) ->
  exists r6, read_lst_loop (r_next_inner ts) fuel r2 [] [] false false = (r6, Ok ([], strs)) /\
             ENDS r6 bcStruct e stk outer.
Proof.
  intros Hu Hfu Hr. destruct fuel as [|[|f]]; try lia. destruct known_symbols as [Hws Hks].
  pose proof (inner_fuel _ _ _ _ Hr) as Hf.
  assert (Hne : (1 <= length (item_bytes [] (Some sym_symbols)))%nat).
  { apply length_pos_nonempty. cbn [item_bytes]. apply append_varuint_nonempty. }
  rewrite !app_length in Hf.
  assert (H3 : (3 <= input_fuel r2)%nat).
  { pose proof (length_pos_nonempty _ (enc_tagged_nonempty 176 (strs_body strs))). cbn [wrap_ann enc] in Hf.
    unfold strs_body in *. lia. }
  assert (Hw : wf_value (VList (map VString strs))).
  { constructor. rewrite Forall_map. eapply Forall_impl; [|exact Hu]. intros t Ht. constructor. exact Ht. }
  destruct (next_container_with ts tot Htot LSys [] sys_tab_ok panic_next (input_fuel r2) r2 (Some sym_symbols) []
              (VList (map VString strs)) 11 (strs_body strs) [] outer ((bcStruct, e) :: stk) H3 Hr
              (conj eq_refl (conj Hws Hks)) eq_refl ltac:(lia) ltac:(discriminate) ltac:(discriminate) Hw Logic.I
              (Forall_nil _) (Forall_nil _) (guard_deep _ _ _ _))
    as (r3 & E3 & F3 & A3 & Ety & Ev & He3 & Hf3 & Hl3 & Hc3 & Hb3 & Ec3 & El3 & T3).
  cbn [app] in Hb3.
  destruct (read_symbols_eval strs (S (S f)) r3 [] outer ((bcStruct, e) :: stk) Hu ltac:(lia) He3 Hf3 Hl3 Hc3 Ety Ev
              Hb3 Ec3 El3 T3) as (r5 & E5 & Rs5 & F5 & A5).
  destruct (inner_end r5 bcStruct e stk outer Rs5) as (r6 & E6 & He6).
  exists r6. split; [|exact He6].
  cbn [read_lst_loop]. rewrite (inner_eq r2), E3, He3. unfold field_text. rewrite F3.
  cbn [option_map rd_tok tk_text symtext sym_symbols]. rewrite list_eqb_refl'. rewrite E5, E6. reflexivity.
Qed.

Definition lst_struct (strs : list text) : value := VStruct [(sym_symbols, VList (map VString strs))].
Definition lst_tab (strs : list text) : rlst := LTab {| lt_imps := [sys_imp]; lt_locals := strs |}.

Lemma lst_struct_enc strs : enc [] (lst_struct strs) =
  enc_tagged (16 * 13) (item_bytes [] (Some sym_symbols) ++ enc [] (wrap_ann [] (VList (map VString strs))) ++ []).
Proof. reflexivity. Qed.

(* the raw item: the struct that is the table *)
Lemma raw_lst strs fuel r rest an : Forall (fun t => utf8_valid t = true) strs ->
  (length strs + 2 <= fuel)%nat ->
  MID tot LSys r (enc [] (lst_struct strs) ++ rest) [] [] None an -> is_ion_symbol_table an = true ->
  exists r7, r_next_raw ts (r_next_inner ts) fuel r = (rs_lst r7 (Some (lst_tab strs)), Ok false) /\
             RS tot LSys r7 rest [] [] /\ r_field r7 = None /\ r_annots r7 = [].
Proof.
  intros Hu Hfu [He Hf Hl Hc (b1 & Hn & Hb) T Hfl Han] His.
  rewrite lst_struct_enc in Hb. set (sbody := item_bytes [] (Some sym_symbols) ++ _ ++ []) in *.
  rewrite <- app_assoc in Hb.
  pose proof (room_of_top ts tot Htot LSys [] sys_tab_ok _ _ _ _ _ _ Hb T) as R.
  assert (H13 : length sbody <> 1%nat).
  { subst sbody. rewrite !app_length. pose proof (length_pos_nonempty _ (append_varuint_nonempty (sid [] (symtext sym_symbols)))).
    pose proof (length_pos_nonempty _ (enc_tagged_nonempty 176 (strs_body strs))). cbn [item_bytes wrap_ann enc].
    unfold strs_body in *. lia. }
  destruct (b_next_tagged b1 13 sbody _ [] tot Htot Hb ltac:(lia) (fun _ => H13) ltac:(intros H; discriminate H) R)
    as (b' & E1 & Hb' & Ec & El).
  rewrite <- Hn in E1.
  set (rS := rs_val (rs_bits r b') TStruct RContainer).
  destruct (step_in_with ts tot Htot LSys [] sys_tab_ok panic_next rS 13 sbody rest [] []) as (r2 & e & Esi & Rs2 & _ & _);
    subst rS; rsimpl; auto; try lia; try reflexivity.
  change (bitcode_of_high 13) with bcStruct in Rs2.
  destruct (read_lst_loop_eval strs fuel r2 e [] (rest ++ []) Hu Hfu Rs2) as (r6 & E6 & He6).
  destruct He6 as (G1 & G2 & G3 & G4 & G5 & G6).
  destruct (step_out_with tot Htot LSys r6 bcStruct e [] rest [] _ G2 G3 G4 G5 G6 Logic.I) as (r7 & Eso & Rs7 & F7 & A7 & _).
  exists r7. split; [|auto].
  unfold r_next_raw. rewrite E1. cbv zeta. rewrite Ec. change (bitcode_of_high 13) with bcStruct. disp.
  rewrite (bs_null _ _ _ _ _ Hb'). unfold r_ctx_peek, r_is_null. rsimpl. rewrite Hc, Han, His. cbn [ctx_of_stk map N.eqb andb negb].
  unfold read_local_symbol_table. rewrite Esi, E6, Eso. reflexivity.
Qed.
End Lst.
