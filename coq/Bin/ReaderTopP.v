(* ReaderTopP.v — the whole stream: version marker, values under the system symbol table, end. *)
From Coq Require Import String List NArith ZArith Bool Lia ZifyBool ZifyN ZifyNat.
From IonV Require Import Base.Wire Base.Utf8 Bin.Bits Bin.BitsP Data.Ion Num.Float Bin.BitStream Bin.BinReader
  Bin.BitStreamP Bin.BitStreamNextP Bin.BinWriter Bin.SpecBin Bin.RoundTripBin Bin.RoundTripBinS Bin.BitEvalP
  Bin.ReaderTrace Bin.BinReaderInvP Bin.BinReaderP Bin.ReaderTraceP Bin.RoundTripBinP.
Import ListNotations.
Open Scope N_scope.
Ltac Zify.zify_post_hook ::= Z.div_mod_to_equations.

Ltac rsimpl :=
  cbn [r_bits r_ctx r_eof r_err r_lst r_field r_annots r_type r_value
       rs_bits rs_ctx rs_eof rs_err rs_lst rs_field rs_annots rs_val r_clear fst snd] in *.

(* the system symbol table resolves the IDs the writer uses for system symbols *)
Lemma sys_tab_ok t : known [] t ->
  sid [] t < two63 /\ sid_ok LSys (sid [] t) = true /\ lst_find_by_id LSys (sid [] t) = Some t.
Proof.
  intros [i Hi]. unfold sid. rewrite Hi. destruct (find_by_name_spec _ _ _ Hi) as (A & B & C).
  cbn [length N.of_nat] in B. rewrite app_nil_r in C.
  split; [unfold two63; lia|]. split.
  - unfold sid_ok, lst_max_id, two63. lia.
  - unfold lst_find_by_id, imp_find_by_id, sys_imp. cbn [im_syms]. rewrite system_len.
    replace ((i =? 0) || (N.of_nat 9 <? i)) with false by lia. exact C.
Qed.

Section Start.
Variable ts : list N -> res unit.
Variable body : list N.
Let inp := bvm ++ body.
Let b0 := b_init inp false.
Let b1 := fst (b_next b0).
Let b2 := fst (b_read_bvm b1).

Lemma start_next : b_next b0 = (b1, Ok tt) /\ b_code b1 = bcBVM /\ b_stack b1 = [].
Proof. split; [|split]; reflexivity. Qed.
Lemma start_bvm : b_read_bvm b1 = (b2, Ok (1, 0)) /\ b_in b2 = body /\ b_state b2 = bssBeforeValue /\
  b_stack b2 = [] /\ b_null b2 = false /\ b_pos b2 = 4.
Proof. repeat split; reflexivity. Qed.

Variable tot : N.
Hypothesis Etot : tot = 4 + N.of_nat (length body).

Lemma start_BS : BS b2 body bssBeforeValue [] tot.
Proof.
  destruct start_next as (E1 & Ec & Es). destruct start_bvm as (E2 & I2 & S2 & K2 & N2 & P2).
  assert (I0 : binv b0) by apply binv_init.
  destruct (b_next_spec b0 I0) as [(_ & _ & Post) _]. rewrite E1 in Post. cbn [fst snd] in Post.
  destruct (Post tt eq_refl) as ((I1 & _) & _).
  destruct (b_read_bvm_spec b1 I1 Ec Es) as [(_ & _ & Post2) _]. rewrite E2 in Post2. cbn [fst snd] in Post2.
  destruct (Post2 _ eq_refl) as (((Ib2 & _) & _) & _).
  constructor; auto. pose proof (bcore_avail _ (proj1 Ib2)) as A. unfold avail_ok in A. rewrite A, I2, P2, Etot. reflexivity.
Qed.

Hypothesis Htot : tot < two63.
Lemma start_PRE : PRE ts tot LSys (r_init inp false) body [] [].
Proof.
  destruct start_next as (E1 & Ec & Es). destruct start_bvm as (E2 & I2 & S2 & K2 & N2 & P2).
  exists (S (length inp)), (rs_lst (rs_bits (rs_bits (r_clear (r_init inp false)) b1) b2) (Some LSys)),
         (r_next_inner ts), (S (S (length inp))).
  split.
  - unfold r_next, r_next_with, input_fuel. cbn [r_init r_eof r_err orb r_bits b_init b_fuel].
    apply loop_false. apply raw_bvm; assumption.
  - split; [|split; [reflexivity|split; [reflexivity|]]].
    + constructor; rsimpl; auto; try reflexivity; try exact Logic.I; left; rewrite app_nil_r; exact start_BS.
    + subst inp. unfold bvm. cbn [app length]. split; [lia|]. intros _. lia.
Qed.
End Start.

Lemma sum_le {A} (c : A -> nat) (e : A -> list N) l : Forall (fun x => (c x <= 2 * length (e x))%nat) l ->
  (fold_right (fun x n => c x + n) 0 l <= 2 * length (flat_map e l))%nat.
Proof. induction 1; cbn [fold_right flat_map]; [lia|]. rewrite app_length. lia. Qed.

Lemma cost_le L v : wf_value v -> (cost v <= 2 * length (enc L v))%nat.
Proof.
  induction v as [v Hsc|l IH|l IH|fs IH|a x IH] using value_ind'; intros Hw.
  - pose proof (length_pos_nonempty _ (enc_nonempty L v Hw)). destruct v; try destruct Hsc; cbn [cost]; lia.
  - inversion Hw as [| | | | | | | | | |? Hwl| | | ]; subst. cbn [cost enc].
    pose proof (enc_tagged_body_le 176 (flat_map (enc L) l)).
    assert (fold_right (fun x n => cost x + n) 0 l <= 2 * length (flat_map (enc L) l))%nat; [|lia].
    apply sum_le. rewrite Forall_forall in *. auto.
  - inversion Hw as [| | | | | | | | | | |? Hwl| | ]; subst. cbn [cost enc].
    pose proof (enc_tagged_body_le 192 (flat_map (enc L) l)).
    assert (fold_right (fun x n => cost x + n) 0 l <= 2 * length (flat_map (enc L) l))%nat; [|lia].
    apply sum_le. rewrite Forall_forall in *. auto.
  - inversion Hw as [| | | | | | | | | | | |? Hwf| ]; subst. cbn [cost enc].
    match goal with |- context [enc_tagged 208 ?B] => pose proof (enc_tagged_body_le 208 B) as Hb; set (bd := B) in * end.
    assert (fold_right (fun p n => cost (snd p) + n) 0 fs <= 2 * length bd)%nat; [|lia].
    subst bd. apply (sum_le (fun p => cost (snd p))). rewrite Forall_forall in *. intros [n0 v] Hin.
    specialize (IH _ Hin). destruct (Hwf _ Hin) as [_ Hv]. cbn [snd] in *. specialize (IH Hv). rewrite app_length. lia.
  - inversion Hw as [| | | | | | | | | | | | |? ? Hne Hws Hna Hwx]; subst. cbn [cost enc].
    match goal with |- context [enc_tagged 224 ?B] => pose proof (enc_tagged_body_le 224 B) as Hb end.
    rewrite app_length in Hb. specialize (IH Hwx). lia.
Qed.

(* ---- the end of the stream ------------------------------------------------------------------------------------------ *)
Lemma finish_top ts tot tab r m acc : tot < two63 -> RS tot tab r [] [] [] -> b_ioerr (r_bits r) = false ->
  exists r4, traverse_loop ts (S m) r 0 acc = (r4, [70] :: acc, false) /\ r_eof r4 = true /\ r_err r4 = false.
Proof.
  intros Htot Hr Hio. pose proof Hr as [He Hf Hl Hc Hb T]. cbn [app] in Hb.
  assert (Hx : exists b1, b_next (r_bits r) = b_next b1 /\ BS b1 [] bssBeforeValue [] tot /\ b_ioerr b1 = false).
  { destruct Hb as [Hb|Hn]; [exists (r_bits r); auto|].
    destruct (NS_skip tot (r_bits r) [] [] Hn) as (b1 & E & Hb1). exists b1. split; [|split; [exact Hb1|]].
    - apply b_next_after_skip; [apply Hn|exact E|]. left. apply Hb1.
    - destruct (b_skip_value_spec (r_bits r) (ns_inv _ _ _ _ Hn)) as [(W & _) _]. rewrite E in W. cbn [fst] in W.
      rewrite (wle_ioerr _ _ W). exact Hio. }
  destruct Hx as (b1 & Hn & Hb1 & Hio1).
  destruct (b_next_top_eof tot b1 _ Hb1 eq_refl Hio1) as (b' & E1 & Ec). rewrite <- Hn in E1.
  assert (Hfu : (2 <= b_fuel (r_bits r))%nat).
  { destruct Hb as [[I _ _ _ _ _]|[I _ _ _ _ _]]; destruct I as (((_ & F & _) & _) & _); lia. }
  assert (En : r_next ts r = (rs_eof (rs_bits (r_clear r) b') true, Ok false)).
  { unfold r_next, r_next_with, input_fuel. rewrite He, Hf. cbn [orb].
    destruct (b_fuel (r_bits r)) as [|k] eqn:Ek; [lia|].
    rewrite (loop_true ts (r_next_inner ts) (S k) k (r_clear r) _ (raw_eof ts _ _ (r_clear r) b' E1 Ec)). reflexivity. }
  eexists. split; [|split].
  - cbn [traverse_loop r_op]. rewrite En. cbn [list_eqb N.eqb Pos.eqb andb]. reflexivity.
  - reflexivity.
  - rsimpl. exact He.
Qed.

Lemma tail_run ts r : r_eof r = true -> r_err r = false ->
  snd (r_run ts r [OErr; ONext; OErr; ONext; OErr] []) = [[101; 48]; [70]; [101; 48]; [70]; [101; 48]].
Proof.
  intros He Hr. assert (En : r_next ts r = (r, Ok false)) by (unfold r_next, r_next_with; rewrite He; reflexivity).
  do 6 (cbn [r_run r_op]; rewrite ?En, ?Hr). reflexivity.
Qed.

(* ---- C01/C03, reader side, system symbols: the traversal of what the writer emits ------------------------------------ *)
Definition top_ok_value (v : value) : Prop := top_guard [] v.

Theorem traverse_system ts vs :
  (forall bs, ts bs <> Panic /\ ts bs <> OutOfFuel) ->
  Forall wf_value vs -> Forall (known []) (flat_map (texts []) vs) ->
  (forall body, In body (flat_map ts_bodies vs) -> ts body = Ok tt) ->
  Forall top_ok_value vs ->
  N.of_nat (length (bvm ++ flat_map (enc []) vs)) < two63 ->
  fst (traverse ts (bvm ++ flat_map (enc []) vs) false) = trace_under [] vs.
Proof.
  intros Hts Hw Hk Htb Hg Hlen.
  destruct vs as [|v0 vs0]; [vm_compute; reflexivity|]. set (vs := v0 :: vs0) in *.
  set (body := flat_map (enc []) vs) in *. set (inp := bvm ++ body) in *.
  set (tot := 4 + N.of_nat (length body)).
  assert (Htot : tot < two63) by (subst tot inp; unfold bvm in Hlen; rewrite app_length in Hlen; cbn [length] in Hlen; lia).
  pose proof (start_PRE ts body tot eq_refl Htot) as P0. fold inp in P0.
  assert (Rio0 : RIO (r_init inp false)).
  { split; [subst inp; unfold bvm; cbn [app]; apply RInv_init|reflexivity]. }
  set (items := map (fun v => (@None symv, v)) vs).
  assert (Eb : body = flat_map (item_enc []) items).
  { subst body items. rewrite fm_map. reflexivity. }
  assert (Hall : Forall (fun p => (cost (snd p) <= items_cost items)%nat /\ wf_value (snd p) /\ fld_ok [] [] (fst p) /\
                   Forall (known []) (texts [] (snd p)) /\
                   (forall body, In body (ts_bodies (snd p)) -> ts body = Ok tt) /\
                   (@nil (N * N) = [] -> top_guard [] (snd p))) items).
  { subst items. rewrite Forall_map. rewrite Forall_forall in *. intros v Hin. cbn [fst snd].
    split; [rewrite cost_map; exact (cost_in tot Htot cost vs v Hin)|]. split; [auto|]. split; [reflexivity|].
    split; [|split; [|intros _; apply Hg; exact Hin]].
    - apply Forall_forall. intros t Ht. apply Hk. apply in_flat_map. eauto.
    - intros bd Hb. apply Htb. apply in_flat_map. eauto. }
  assert (Hcost : (items_cost items <= 2 * length body)%nat).
  { subst items. rewrite cost_map. subst body. apply (sum_le cost (enc [])). rewrite Forall_forall in *. intros v Hin.
    apply cost_le. auto. }
  unfold traverse. fold inp.
  assert (Efuel : exists m, (4 * length inp + 16 = items_cost items + S m)%nat).
  { exists (4 * length inp + 15 - items_cost items)%nat. subst inp. rewrite app_length. lia. }
  destruct Efuel as [m Em]. rewrite Em.
  rewrite Eb, <- (app_nil_r (flat_map (item_enc []) items)) in P0.
  destruct (forest ts tot Htot LSys [] sys_tab_ok Hts (items_cost items)
              (fun v _ Hwv => value_traversed ts tot Htot LSys [] sys_tab_ok Hts v Hwv)
              items [] [] Hall [] (r_init inp false) 0%nat [] (S m) P0 Rio0) as (r' & E & _ & Rio' & Hor).
  rewrite E. destruct Hor as [[Ei _]|Rs']; [subst items; discriminate Ei|].
  destruct (finish_top ts tot LSys r' m (rev (flat_map (item_tr []) items) ++ []) Htot Rs' (proj2 Rio')) as (r4 & E4 & He4 & Hr4).
  rewrite E4. pose proof (tail_run ts r4 He4 Hr4) as Et.
  destruct (r_run ts r4 [OErr; ONext; OErr; ONext; OErr] []) as [r5 tl]. cbn [snd fst] in *. subst tl.
  rewrite rev_append_rev, !app_nil_r. cbn [rev]. rewrite rev_involutive.
  unfold trace_under, tr_tail. subst items. rewrite fm_map. rewrite <- app_assoc. reflexivity.
Qed.

(* ---- the stages ------------------------------------------------------------------------------------------------------- *)
(* a top-level value the reader would take for a symbol table although it is none: $ion_symbol_table::null.struct
   (a struct so annotated is excluded by wf_top already) *)
Definition not_lst_null (v : value) : Prop :=
  match v with
  | VAnn (y :: _) (VNull 13) => list_eqb (symtext y) (s "$ion_symbol_table"%string) = false
  | _ => True
  end.

Lemma top_ok_of v : wf_top v -> not_lst_null v -> top_ok_value v.
Proof.
  intros [Hw Hl] Hn. unfold top_ok_value, top_guard. destruct v; try exact I.
  intros _ His. inversion Hw as [| | | | | | | | | | | | |? ? Hne Hws Hna Hwx]; subst.
  destruct a as [|y a]; [contradiction|]. inversion Hws as [|? ? (t & -> & _) _]; subst.
  cbn [map rd_tok symtext is_ion_symbol_table tk_text] in His. cbn [is_lst] in Hl. cbn [not_lst_null symtext] in Hn.
  destruct v; try exact I.
  - intros ->. rewrite Hn in His. discriminate His.
  - rewrite His in Hl. discriminate Hl.
Qed.

Lemma known_system t : is_system t -> known [] t.
Proof.
  intros H. unfold known. rewrite find_by_name_unfold.
  destruct (RoundTripBinP.index_of_in t system_symbols 1 H) as (k & ->). eauto.
Qed.

Theorem traverse_S3 ts vs :
  (forall bs, ts bs <> Panic /\ ts bs <> OutOfFuel) -> wf_S3 vs -> Forall not_lst_null vs ->
  (forall body, In body (flat_map ts_bodies vs) -> ts body = Ok tt) ->
  N.of_nat (length (enc_forest vs)) < two63 ->
  fst (traverse ts (enc_forest vs) false) = trace_of vs.
Proof.
  intros Hts [Hw Hs] Hn Htb Hlen.
  assert (El : locals_of vs = []) by (unfold locals_of; apply RoundTripBinP.fold_intern_system; exact Hs).
  unfold trace_of, enc_forest in *. rewrite El in *. cbn [enc_lst app] in *.
  apply traverse_system; auto.
  - eapply Forall_impl; [|exact Hw]. intros v [H _]. exact H.
  - eapply Forall_impl; [|exact Hs]. apply known_system.
  - rewrite Forall_forall in *. intros v Hin. apply top_ok_of; auto.
Qed.

Lemma S2_not_lst_null vs : wf_S2 vs -> Forall not_lst_null vs.
Proof.
  intros H. eapply Forall_impl; [|exact H]. intros v [_ Hs]. destruct Hs as [v Hsc| |]; try exact I.
  destruct v; try destruct Hsc; exact I.
Qed.
Theorem traverse_S2 ts vs :
  (forall bs, ts bs <> Panic /\ ts bs <> OutOfFuel) -> wf_S2 vs ->
  (forall body, In body (flat_map ts_bodies vs) -> ts body = Ok tt) ->
  N.of_nat (length (enc_forest vs)) < two63 ->
  fst (traverse ts (enc_forest vs) false) = trace_of vs.
Proof. intros Hts H. apply traverse_S3; [exact Hts|apply wf_S2_S3; exact H|apply S2_not_lst_null; exact H]. Qed.
Theorem traverse_S1 ts vs :
  (forall bs, ts bs <> Panic /\ ts bs <> OutOfFuel) -> wf_S1 vs ->
  (forall body, In body (flat_map ts_bodies vs) -> ts body = Ok tt) ->
  N.of_nat (length (enc_forest vs)) < two63 ->
  fst (traverse ts (enc_forest vs) false) = trace_of vs.
Proof. intros Hts H. apply traverse_S2; [exact Hts|apply wf_S1_S2; exact H]. Qed.
