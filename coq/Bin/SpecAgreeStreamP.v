(* SpecAgreeStreamP.v — C03 on the models: a stream of values of any shape (containers of any depth, annotation
   wrappers), NOP pads, version markers and local symbol tables; the reader model's trace is the trace of the
   specification decoder's values. *)
From Coq Require Import String List NArith ZArith Bool Lia ZifyBool ZifyN ZifyNat.
From IonV Require Import Base.Wire Base.Utf8 Bin.Bits Bin.BitsP Data.Ion Num.Float Bin.BitStream Bin.BinReader
  Bin.BitStreamP Bin.BitStreamNextP Bin.BinWriter Bin.SpecBin Bin.RoundTripBin Bin.RoundTripBinS Bin.BitEvalP
  Bin.BitEvalAnnP Bin.ReaderTrace Bin.BinReaderInvP Bin.BinReaderP Bin.ReaderTraceP Bin.ReaderTopP
  Bin.ReaderLstP Bin.SpecLim Bin.SpecLimP Bin.SpecLimAppP Bin.BitEvalGenP Bin.SpecAgreeP Bin.BitEvalAnnGenP Bin.SpecAgreeTravP
  Bin.SpecAgreeContP Bin.SpecAgreeTabP Bin.SpecAgreeLstP.
Import ListNotations.
Open Scope N_scope.
Ltac Zify.zify_post_hook ::= Z.div_mod_to_equations.

Section Stream.
Variable ts : list N -> res unit.
Hypothesis Hts : forall bs, ts bs <> Panic /\ ts bs <> OutOfFuel.
Variable tot : N.
Hypothesis Htot : tot < two63.

(* ---- the traversal's fuel: at most two iterations per octet ------------------------------------------------------------------ *)
Definition COSTP (f : nat) : Prop := forall ctx l v rest', BY l -> sl_value ts f ctx l = Some (Some v, rest') ->
  (cost v <= 2 * (length l - length rest'))%nat.

Lemma cost_items_L f : COSTP f -> forall k ctx l vs, BY l -> sp_items (sl_value ts f ctx) k l = Some vs ->
  (lcost vs <= 2 * length l)%nat.
Proof.
  intros HC. induction k as [|k IH]; intros ctx l vs Hb Hs.
  { destruct l; cbn [sp_items] in Hs; inversion Hs; cbn; lia. }
  destruct l as [|tag r0]. { cbn [sp_items] in Hs. inversion Hs; cbn; lia. }
  cbn [sp_items] in Hs. destruct (sl_value ts f ctx (tag :: r0)) as [[[v|] rest']|] eqn:E; [| |discriminate].
  - destruct (sp_items (sl_value ts f ctx) k rest') as [vs'|] eqn:E2; [|discriminate]. inversion Hs; subst vs.
    destruct (sl_value_suffix _ _ _ _ _ _ Hb E) as (pre & Ep & Hne).
    assert (Hr : BY rest') by (unfold BY in *; rewrite Ep in Hb; apply Forall_app in Hb; apply Hb).
    pose proof (HC ctx _ _ _ Hb E) as C1. pose proof (IH ctx rest' vs' Hr E2) as C2.
    cbn [lcost fold_right]. fold (lcost vs'). rewrite Ep, app_length in *. lia.
  - destruct (sl_value_suffix _ _ _ _ _ _ Hb E) as (pre & Ep & Hne).
    assert (Hr : BY rest') by (unfold BY in *; rewrite Ep in Hb; apply Forall_app in Hb; apply Hb).
    pose proof (IH ctx rest' vs Hr Hs) as C2. rewrite Ep, app_length. lia.
Qed.

Lemma cost_items_S f : COSTP f -> forall k ctx l fs, BY l -> sp_items (sitem ts f ctx) k l = Some fs ->
  (fcost fs <= 2 * length l)%nat.
Proof.
  intros HC. induction k as [|k IH]; intros ctx l fs Hb Hs.
  { destruct l; cbn [sp_items] in Hs; inversion Hs; cbn; lia. }
  destruct l as [|c0 l0]. { cbn [sp_items] in Hs. inversion Hs; cbn; lia. }
  set (l := c0 :: l0) in *. cbn [sp_items] in Hs. fold l in Hs. unfold sitem at 1 in Hs.
  destruct (lim_varuint l) as [[sid r1]|] eqn:Ev; [|discriminate].
  destruct (resolve_sid ctx sid) as [y|]; [|discriminate].
  destruct (lim_varuint_layout l sid r1 [] Ev Hb) as (ds0 & Q & _).
  assert (Hb1 : BY r1) by (unfold BY in *; rewrite Q in Hb; apply Forall_app in Hb; apply Hb).
  destruct (sl_value ts f ctx r1) as [[[v|] rest']|] eqn:E; [| |discriminate].
  - destruct (sp_items (sitem ts f ctx) k rest') as [fs'|] eqn:E2; [|discriminate]. inversion Hs; subst fs.
    destruct (sl_value_suffix _ _ _ _ _ _ Hb1 E) as (pre & Ep & Hne).
    assert (Hr : BY rest') by (unfold BY in *; rewrite Ep in Hb1; apply Forall_app in Hb1; apply Hb1).
    pose proof (HC ctx _ _ _ Hb1 E) as C1. pose proof (IH ctx rest' fs' Hr E2) as C2.
    cbn [fcost fold_right snd]. fold (fcost fs'). rewrite Q, Ep, !app_length in *. lia.
  - destruct (sl_value_suffix _ _ _ _ _ _ Hb1 E) as (pre & Ep & Hne).
    assert (Hr : BY rest') by (unfold BY in *; rewrite Ep in Hb1; apply Forall_app in Hb1; apply Hb1).
    pose proof (IH ctx rest' fs Hr Hs) as C2. rewrite Q, Ep, !app_length. lia.
Qed.

Lemma cost_all : forall f, COSTP f.
Proof.
  induction f as [|f IH]; intros ctx l v rest' Hb Hsp; [discriminate|].
  destruct l as [|tag r0]; [discriminate|].
  pose proof (Forall_inv_tail Hb) as Hr0. fold (BY r0) in Hr0.
  destruct (sl_value_cases ts Hts tot Htot f ctx tag r0 v rest' Hsp) as [(Hs & _)|(len & r1 & body & HH & Htk & C)].
  { destruct (sl_value_suffix _ _ _ _ _ _ Hb Hsp) as (pre & Ep & Hne).
    replace (cost v) with 1%nat by (destruct v; try destruct Hs; reflexivity). rewrite Ep, app_length.
    destruct pre; [contradiction|cbn [length]; lia]. }
  destruct (hdr_len ts Hts tot Htot tag r0 len r1 body rest' Hr0 HH Htk) as [Hl Hbb]. cbn [length].
  destruct C as [(Et & vs & -> & Hit)|[(Et & vs & -> & Hit)|[(Et & fs & -> & Hit)|
                 (_ & H3 & alen & r2 & ab & vb & ys & x & vt & vr & Ev & Ha0 & Etk2 & Hys & -> & Hvt & Hx & ->)]]].
  - pose proof (cost_items_L f IH _ ctx body vs Hbb Hit). cbn [cost]. fold (lcost vs). lia.
  - pose proof (cost_items_L f IH _ ctx body vs Hbb Hit). cbn [cost]. fold (lcost vs). lia.
  - pose proof (cost_items_S f IH _ ctx body fs Hbb Hit). cbn [cost]. fold (fcost fs). lia.
  - destruct (lim_varuint_layout body alen r2 [] Ev Hbb) as (ds & E0 & _).
    destruct (take_n_spec _ _ _ _ Etk2) as [E2 _].
    assert (Hbvb : BY (vt :: vr)).
    { unfold BY in *. rewrite E0, E2 in Hbb. apply Forall_app in Hbb. destruct Hbb as [_ Hbb]. apply Forall_app in Hbb. apply Hbb. }
    pose proof (IH ctx _ _ _ Hbvb Hx) as C1. cbn [cost]. rewrite E0, E2, !app_length in Hl. cbn [length] in *. lia.
Qed.

(* ---- streams -------------------------------------------------------------------------------------------------------------------- *)
Definition GATE (k : nat) (ctx : symctx) (v : value) (r : list N) : option (list value) :=
  match lst_gate ctx v with
  | None => None
  | Some None => option_map (cons v) (sl_stream ts k ctx r)
  | Some (Some ctx') => sl_stream ts k ctx' r
  end.

Lemma stream_cost k : forall ctx l vs, BY l -> sl_stream ts k ctx l = Some vs -> (lcost vs <= 2 * length l)%nat.
Proof.
  induction k as [|k IH]; intros ctx l vs Hb; [destruct l; cbn [sl_stream]; intros H; inversion H; cbn; lia|].
  rewrite sl_stream_S, bvm_match. fold (GATE k ctx).
  assert (G : match sl_value ts (S k) ctx l with
              | Some (None, r) => sl_stream ts k ctx r
              | Some (Some v, r) => GATE k ctx v r
              | None => None end = Some vs -> (lcost vs <= 2 * length l)%nat).
  { destruct (sl_value ts (S k) ctx l) as [[[v|] r]|] eqn:E; try discriminate.
    - destruct (sl_value_suffix _ _ _ _ _ _ Hb E) as (pre & Ep & Hne).
      assert (Hr : BY r) by (unfold BY in *; rewrite Ep in Hb; apply Forall_app in Hb; apply Hb).
      unfold GATE. destruct (lst_gate ctx v) as [[ctx'|]|]; [| |discriminate].
      + intros H. pose proof (IH _ _ _ Hr H). rewrite Ep, app_length. lia.
      + destruct (sl_stream ts k ctx r) as [vs'|] eqn:E2; [|discriminate].
        intros H. inversion H as [Hvs]. pose proof (IH _ _ _ Hr E2). pose proof (cost_all _ ctx _ _ _ Hb E).
        cbn [lcost fold_right]. fold (lcost vs'). rewrite Ep, app_length in *. lia.
    - destruct (sl_value_suffix _ _ _ _ _ _ Hb E) as (pre & Ep & Hne).
      assert (Hr : BY r) by (unfold BY in *; rewrite Ep in Hb; apply Forall_app in Hb; apply Hb).
      intros H. pose proof (IH _ _ _ Hr H). rewrite Ep, app_length. lia. }
  destruct l as [|c0 [|c1 [|c2 [|c3 r]]]]; try exact G; [intros H; inversion H; cbn; lia|].
  destruct (_ && _ && _ && _); [|exact G]. intros H.
  assert (Hr : BY r) by (exact (forall_tail4 _ _ _ _ _ _ Hb)).
  pose proof (IH _ _ _ Hr H). cbn [length]. lia.
Qed.

Lemma is_lst_shape v fs : is_lst v = Some fs -> exists ys, v = VAnn ys (VStruct fs).
Proof.
  destruct v; try discriminate. cbn [is_lst]. destruct a as [|[t|m] a]; try discriminate. destruct v; try discriminate.
  destruct (list_eqb t _); [|discriminate]. intros H. inversion H. eauto.
Qed.

Lemma stream_E k : forall ctx l vs, sl_stream ts k ctx l = Some vs -> BY l ->
  forall tab r acc m, INV tab ctx -> ctx_size ctx < two63 -> PRE2 ts tot (r_next_inner ts) tab r l [] [] -> RIO r ->
  exists r' toks tab', traverse_loop ts (lcost vs + m) r 0 acc = traverse_loop ts m r' 0 (rev toks ++ acc) /\
                       map proj_tok toks = flat_map (tsp_value None []) vs /\ PRE2 ts tot (r_next_inner ts) tab' r' [] [] [].
Proof.
  induction k as [|k IH]; intros ctx l vs Hsp Hb tab r acc m Hinv Hsz P Rio.
  { destruct l; cbn [sl_stream] in Hsp; inversion Hsp; subst. exists r, [], tab. cbn. auto. }
  rewrite sl_stream_S, bvm_match in Hsp. fold (GATE k ctx) in Hsp.
  pose proof (inv_tc tab ctx Hinv Hsz) as HTC.
  assert (G : match sl_value ts (S k) ctx l with
              | Some (None, r) => sl_stream ts k ctx r
              | Some (Some v, r) => GATE k ctx v r
              | None => None end = Some vs -> l <> [] ->
          exists r' toks tab', traverse_loop ts (lcost vs + m) r 0 acc = traverse_loop ts m r' 0 (rev toks ++ acc) /\
                       map proj_tok toks = flat_map (tsp_value None []) vs /\ PRE2 ts tot (r_next_inner ts) tab' r' [] [] []).
  { intros H Hne. destruct l as [|tag r0]; [contradiction|].
    destruct (sl_value ts (S k) ctx (tag :: r0)) as [[[v|] rest']|] eqn:E; try discriminate.
    - unfold GATE, lst_gate in H. destruct (lst_like v) eqn:Ell.
      + (* a local symbol table *)
        destruct (is_lst v) as [fs|] eqn:Eis; [|discriminate]. destruct (apply_lst ctx fs) as [ctx'|] eqn:Eap; [|discriminate].
        destruct (lst_ok fs ctx') eqn:Eok; [|discriminate].
        destruct (is_lst_shape v fs Eis) as (ys & ->).
        destruct (lst3 ts Hts tot Htot tab ctx k r tag r0 ys fs rest' Hinv HTC Hb E Ell ctx' Eap Eok P) as (tab' & Hinv' & Hsz' & P' & Hbr).
        exact (IH _ rest' vs H Hbr tab' r acc m Hinv' Hsz' P' Rio).
      + destruct (sl_stream ts k ctx rest') as [vs'|] eqn:E2; [|discriminate].
        inversion H; subst vs.
        destruct (proj1 (val_all ts Hts tot Htot (S k)) tab ctx (tag :: r0) v rest' [] [] None None r 0%nat acc (lcost vs' + m)%nat
                    HTC Logic.I Hb E ltac:(intros _; exact Ell) (to3 ts tot _ _ _ _ _ _ P eq_refl) Rio)
          as (r1 & toks1 & E1 & Ep1 & Rs1 & Rio1 & Hbr).
        destruct (IH ctx rest' vs' E2 Hbr tab r1 (rev toks1 ++ acc) m Hinv Hsz (RS_PRE2 ts tot _ _ _ _ _ _ Rs1 (proj2 Rio1)) Rio1)
          as (r' & toks2 & tab' & E3 & Ep2 & P').
        exists r', (toks1 ++ toks2), tab'. split; [|split; [|exact P']].
        * cbn [lcost fold_right]. fold (lcost vs'). rewrite <- Nat.add_assoc, E1, E3, rev_app_distr, <- app_assoc. reflexivity.
        * cbn [flat_map]. rewrite map_app, Ep1, Ep2. reflexivity.
    - destruct (pre2_pad ts Hts tot Htot (r_next_inner ts) tab ctx r k tag r0 rest' [] [] HTC eq_refl Hb E P) as (P1 & Hbr).
      exact (IH ctx rest' vs H Hbr tab r acc m Hinv Hsz P1 Rio). }
  destruct l as [|c0 [|c1 [|c2 [|c3 r3]]]]; try (apply G; [exact Hsp|discriminate]).
  { inversion Hsp; subst. exists r, [], tab. cbn. auto. }
  destruct ((c0 =? 224) && (c1 =? 1) && (c2 =? 0) && (c3 =? 234)) eqn:Eb; [|apply G; [exact Hsp|discriminate]].
  assert (c0 = 224 /\ c1 = 1 /\ c2 = 0 /\ c3 = 234) as (-> & -> & -> & ->) by lia.
  assert (Hr : BY r3) by (exact (forall_tail4 _ _ _ _ _ _ Hb)).
  exact (IH system_ctx r3 vs Hsp Hr LSys r acc m (or_introl (conj eq_refl eq_refl)) ltac:(vm_compute; reflexivity)
           (pre2_bvm ts Hts tot Htot (r_next_inner ts) tab r r3 P) Rio).
Qed.
End Stream.

Theorem agree_full ts bytes vs :
  (forall bs, ts bs <> Panic /\ ts bs <> OutOfFuel) -> sdecode_lim ts bytes = Some vs ->
  Forall (fun c => c < 256) bytes -> N.of_nat (length bytes) < two63 ->
  map proj_tok (fst (traverse ts bytes false)) = trace_of_spec vs.
Proof.
  intros Hts Hsd Hb Hlen. unfold sdecode_lim in Hsd. rewrite bvm_match in Hsd.
  destruct bytes as [|c0 [|c1 [|c2 [|c3 body]]]]; try discriminate.
  destruct ((c0 =? 224) && (c1 =? 1) && (c2 =? 0) && (c3 =? 234)) eqn:Eb; [|discriminate].
  assert (c0 = 224 /\ c1 = 1 /\ c2 = 0 /\ c3 = 234) as (-> & -> & -> & ->) by lia.
  assert (Hr : Forall (fun c => c < 256) body) by (exact (forall_tail4 _ _ _ _ _ _ Hb)).
  set (inp := 224 :: 1 :: 0 :: 234 :: body) in *.
  set (tot := 4 + N.of_nat (length body)).
  assert (Htot : tot < two63) by (subst tot inp; cbn [length] in Hlen; lia).
  destruct (start_next body) as (E1 & Ec & Es). destruct (start_bvm body) as (E2 & I2 & S2 & K2 & N2 & P2).
  pose proof (start_BS body tot eq_refl) as Hb2.
  set (b1 := fst (b_next (b_init (bvm ++ body) false))) in *. set (b2 := fst (b_read_bvm b1)) in *.
  assert (P0 : PRE2 ts tot (r_next_inner ts) LSys (r_init inp false) body [] []).
  { exists (S (length inp)), (rs_lst (rs_bits (rs_bits (r_clear (r_init inp false)) b1) b2) (Some LSys)),
           (S (S (length inp))), b2.
    split; [unfold NXT, r_next_with, input_fuel; cbn [r_init r_eof r_err orb r_bits b_init b_fuel];
            apply loop_false; apply raw_bvm; assumption|]. rsimpl.
    repeat (split; [solve [auto]|]). split; [rewrite app_nil_r; exact Hb2|]. split; [reflexivity|]. split; [exact Logic.I|].
    subst inp. rewrite app_nil_r. cbn [length]. lia. }
  assert (Rio0 : RIO (r_init inp false)) by (split; [subst inp; apply RInv_init|reflexivity]).
  assert (Hcnt : (lcost vs <= 2 * length body)%nat) by (eapply stream_cost; eauto).
  unfold traverse.
  assert (Efuel : exists m, (4 * length inp + 16 = lcost vs + S m)%nat).
  { exists (4 * length inp + 15 - lcost vs)%nat. subst inp. cbn [length]. lia. }
  destruct Efuel as [m Em]. rewrite Em.
  destruct (stream_E ts Hts tot Htot _ _ _ _ Hsd Hr LSys (r_init inp false) [] (S m) (or_introl (conj eq_refl eq_refl)) ltac:(vm_compute; reflexivity) P0 Rio0)
    as (r' & toks & tab' & E & Ep & P').
  rewrite E. destruct (finish2 ts tot Htot tab' r' m (rev toks ++ []) P') as (r4 & E4 & He4 & Hr4).
  rewrite E4. pose proof (tail_run ts r4 He4 Hr4) as Et.
  destruct (r_run ts r4 [OErr; ONext; OErr; ONext; OErr] []) as [r5 tl]. cbn [snd fst] in *. subst tl.
  rewrite rev_append_rev, !app_nil_r. cbn [rev]. rewrite rev_involutive.
  rewrite !map_app, Ep. unfold trace_of_spec. rewrite <- app_assoc. reflexivity.
Qed.

(* stage A is the special case of top-level scalars *)
Theorem agree_stageA ts bytes vs :
  (forall bs, ts bs <> Panic /\ ts bs <> OutOfFuel) -> sdecode_lim ts bytes = Some vs -> Forall is_scalar vs ->
  Forall (fun c => c < 256) bytes -> N.of_nat (length bytes) < two63 ->
  map proj_tok (fst (traverse ts bytes false)) = trace_of_spec vs.
Proof. intros Hts Hsd _. apply agree_full; assumption. Qed.

(* the headline: the reader model agrees with Bin/SpecBin.v wherever the restricted decoder does not give up *)
Theorem agree_C03 ts bytes vs :
  (forall bs, ts bs <> Panic /\ ts bs <> OutOfFuel) -> sdecode bytes = Some vs -> sdecode_lim ts bytes <> None ->
  Forall (fun c => c < 256) bytes -> N.of_nat (length bytes) < two63 ->
  map proj_tok (fst (traverse ts bytes false)) = trace_of_spec vs.
Proof.
  intros Hts Hsd Hlim Hb Hlen. destruct (sdecode_lim ts bytes) as [vs'|] eqn:E; [|contradiction].
  pose proof (sdecode_lim_sp _ _ _ E) as Hsd'. rewrite Hsd in Hsd'. inversion Hsd'; subst vs'.
  apply agree_full; assumption.
Qed.

