(* RejectFieldP.v — struct fields the restricted decoder rejects: a malformed field-name VarUInt, an undefined field ID,
   a field name that is not followed by a value; a tag 0xE0 inside a container. *)
From Coq Require Import String List NArith ZArith Bool Lia ZifyBool ZifyN ZifyNat.
From IonV Require Import Base.Wire Base.Utf8 Bin.Bits Bin.BitsP Data.Ion Num.Float Bin.BitStream Bin.BinReader
  Bin.BitStreamP Bin.BitStreamNextP Bin.BinWriter Bin.SpecBin Bin.RoundTripBin Bin.RoundTripBinS Bin.BitEvalP
  Bin.BitEvalAnnP Bin.ReaderTrace Bin.BinReaderInvP Bin.BinReaderP Bin.ReaderTraceP Bin.ReaderTopP
  Bin.ReaderLstP Bin.SpecLim Bin.SpecLimP Bin.SpecLimAppP Bin.BitEvalGenP Bin.SpecAgreeP Bin.BitEvalAnnGenP Bin.SpecAgreeTravP
  Bin.SpecAgreeContP Bin.Reject Bin.RejectP Bin.RejectVarP Bin.RejectHdrP.
Import ListNotations.
Open Scope N_scope.
Ltac Zify.zify_post_hook ::= Z.div_mod_to_equations.

Ltac bsimpl :=
  cbn [b_in b_ioerr b_pos b_state b_stack b_code b_null b_len b_alloc b_avail b_fuel
       upd_in upd_state upd_stack upd_cur upd_alloc b_clear done_value fst snd] in *.
Ltac rsimpl :=
  cbn [r_bits r_ctx r_eof r_err r_lst r_field r_annots r_type r_value
       rs_bits rs_ctx rs_eof rs_err rs_lst rs_field rs_annots rs_val r_clear fst snd] in *.
Ltac disp :=
  cbn [N.eqb Pos.eqb orb andb negb bcEOF bcBVM bcFieldID bcAnnotation bcNull bcFalse bcTrue bcInt bcNegInt bcFloat
       bcDecimal bcTimestamp bcSymbol bcString bcClob bcBlob bcList bcSexp bcStruct].

Section Field.
Variable ts : list N -> res unit.
Hypothesis Hts : forall bs, ts bs <> Panic /\ ts bs <> OutOfFuel.
Variable tot : N.
Hypothesis Htot : tot < two63.

(* about to call Next (PRE2): if the next raw item is an error, the traversal ends in error *)
Lemma pre2_errs tab r l outer stk :
  PRE2 ts tot (r_next_inner ts) tab r l outer stk ->
  (forall fuel r0 b1, BS b1 (l ++ outer) (sav stk) stk tot -> top_ok tot stk outer ->
     b_next (r_bits r0) = b_next b1 -> r_lst r0 = Some tab ->
     exists r1, r_next_raw ts (r_next_inner ts) fuel r0 = (r1, Err)) ->
  forall depth, ERRS ts r depth.
Proof.
  intros (K & r0 & fuel & b1 & En & He & Hfe & Hl & Hc & Ha & Hf & Hn & Hb1 & Hio1 & T & HK) Hraw depth.
  destruct (Hraw fuel r0 b1 Hb1 T Hn Hl) as (r1 & Eraw).
  destruct K as [|k]; [lia|].
  apply (next_err_errs ts r (rs_err r1 true)); [|reflexivity].
  rewrite (nxt_next ts), En. cbn [r_next_loop]. rewrite Eraw. reflexivity.
Qed.

Lemma field_pos b1 l' outer c e stk : l' <> [] -> BS b1 (l' ++ outer) bssBeforeFieldID ((c, e) :: stk) tot ->
  top_ok tot ((c, e) :: stk) outer -> b_pos b1 + N.of_nat (length l') = e.
Proof.
  intros Hne [I Ein St Es Nl Nw] T. pose proof (bcore_avail _ (proj1 I)) as A. unfold avail_ok in A. unfold top_ok in T.
  rewrite Ein, app_length in A. lia.
Qed.

Lemma raw_rej_field_varuint api fuel r b1 l' outer c e stk : Forall (fun x => x < 256) (l' ++ outer) -> l' <> [] ->
  lim_varuint l' = None ->
  BS b1 (l' ++ outer) bssBeforeFieldID ((c, e) :: stk) tot -> top_ok tot ((c, e) :: stk) outer ->
  b_next (r_bits r) = b_next b1 ->
  exists r1, r_next_raw ts api fuel r = (r1, Err).
Proof.
  intros Hby Hne Hlim Hb1 T Hn. pose proof (field_pos b1 l' outer c e stk Hne Hb1 T) as Hpos.
  assert (Hl : 0 < N.of_nat (length l')) by (destruct l'; [contradiction|cbn [length]; lia]).
  destruct (b_next_field tot Htot b1 _ c e stk Hb1 ltac:(lia)) as (b' & E1 & Hb' & Ec & Ep).
  rewrite <- Hn in E1. pose proof Hb' as [I' Ein' St' Es' _ _]. pose proof (bcore_avail _ (proj1 I')) as A'.
  unfold r_next_raw. rewrite E1. cbv zeta. rewrite Ec. disp. unfold lift, b_read_field_id. rewrite Ec.
  change (negb (bcFieldID =? bcFieldID)) with false. cbv iota.
  destruct (rem_ok b' (proj1 I')) as [Er _]. rewrite Er. unfold rem_of. rewrite Es'.
  destruct (read_varuint_rej b' l' outer (e - b_pos b') A' Ein' Hby ltac:(left; lia) Hlim) as (b'' & E). rewrite E.
  eexists; reflexivity.
Qed.

Lemma raw_rej_field_undef api fuel r b1 tab ctx l' sid r' outer c e stk : TC tab ctx ->
  Forall (fun x => x < 256) l' -> lim_varuint l' = Some (sid, r') -> resolve_sid ctx sid = None ->
  BS b1 (l' ++ outer) bssBeforeFieldID ((c, e) :: stk) tot -> top_ok tot ((c, e) :: stk) outer ->
  b_next (r_bits r) = b_next b1 -> r_lst r = Some tab ->
  exists r1, r_next_raw ts api fuel r = (r1, Err).
Proof.
  intros HTC Hby Hv Hy Hb1 T Hn Hl.
  destruct (lim_varuint_layout l' sid r' outer Hv Hby) as (ds & E0 & Hds & Hv64 & Hrd).
  assert (Hne : l' <> []) by (rewrite E0; destruct ds; [cbn [length] in Hds; lia|discriminate]).
  pose proof (field_pos b1 l' outer c e stk Hne Hb1 T) as Hpos.
  rewrite E0, <- app_assoc in Hb1. rewrite E0, app_length in Hpos.
  destruct (b_next_field tot Htot b1 _ c e stk Hb1 ltac:(lia)) as (b' & E1 & Hb' & Ec & Ep).
  rewrite <- Hn in E1.
  destruct (read_field_id_gen tot Htot b' ds sid (r' ++ outer) c e stk Hb' Ec Hrd ltac:(lia)) as (b'' & Er & Hb'').
  unfold r_next_raw. rewrite E1. cbv zeta. rewrite Ec. disp. unfold lift. rewrite Er. unfold cur_lst. rsimpl. rewrite Hl.
  assert (Hno : tok_by_sid tab sid = None) by (eapply resolve_none; eauto).
  rewrite Hno. eexists; reflexivity.
Qed.

(* a field name at the very end of the struct *)
Lemma b_next_rej_noval b1 outer e stk : BS b1 ([] ++ outer) bssBeforeValue ((bcStruct, e) :: stk) tot ->
  top_ok tot ((bcStruct, e) :: stk) outer -> b_next b1 = (b1, Err).
Proof.
  intros [I Ein St Es Nl Nw] T. pose proof (bcore_avail _ (proj1 I)) as A. unfold avail_ok in A. unfold top_ok in T.
  cbn [app] in Ein. rewrite Ein in A.
  unfold b_next. rewrite St.
  change ((bssBeforeValue =? bssOnValue) || (bssBeforeValue =? bssOnFieldID)) with false. cbv iota beta.
  rewrite Es, St. replace (b_pos b1 =? e) with true by lia. reflexivity.
Qed.

(* the tag 0xE0 inside a container *)
Lemma b_next_rej_e0 b1 rest stk : BS b1 (224 :: rest) bssBeforeValue stk tot -> room b1 1 -> stk <> [] ->
  exists b', b_next b1 = (b', Err).
Proof.
  intros [I Ein St Es Nl Nw] R Hne. pose proof (bcore_avail _ (proj1 I)) as A.
  destruct I as (C & Fv & L0). pose proof C as (Wk & _ & P & Sk).
  destruct stk as [|[c e] stk']; [contradiction|].
  assert (Rm : b_pos b1 + 1 <= e /\ e < two64).
  { unfold room in R. rewrite Es in R, Sk. cbn [stk_ok] in Sk. lia. }
  unfold b_next. rewrite St.
  change ((bssBeforeValue =? bssOnValue) || (bssBeforeValue =? bssOnFieldID)) with false. cbv iota beta.
  rewrite Es, St. change (bssBeforeValue =? bssBeforeFieldID) with false.
  replace (b_pos b1 =? e) with false by lia.
  unfold b_read. rewrite Ein. change 224 with (16 * 14 + 0). rewrite parse_tag_eq by lia. cbv iota beta.
  change (bitcode_of_high 14) with bcAnnotation. disp. bsimpl. rewrite Es. eexists; reflexivity.
Qed.
End Field.

(* a top-level 0xE0 that does not start a version marker *)
Section E0.
Variable ts : list N -> res unit.
Variable tot : N.
Hypothesis Htot : tot < two63.
Lemma raw_rej_e0_top api fuel r b1 r0 : BS b1 ((224 :: r0) ++ []) bssBeforeValue [] tot ->
  (forall r', r0 <> 1 :: 0 :: 234 :: r') -> b_next (r_bits r) = b_next b1 ->
  exists r1, r_next_raw ts api fuel r = (r1, Err).
Proof.
  rewrite app_nil_r. intros [I Ein St Es Nl Nw] Hnb Hn.
  destruct I as (C & Fv & L0). pose proof C as (Wk & _ & P & Sk).
  assert (E : b_next b1 = (upd_cur (upd_state (upd_in b1 r0 (wrap64 (b_pos b1 + 1)) (b_avail b1 - 1)) bssOnValue) bcBVM (b_null b1) 3, Ok tt)).
  { unfold b_next. rewrite St.
    change ((bssBeforeValue =? bssOnValue) || (bssBeforeValue =? bssOnFieldID)) with false. cbv iota beta.
    rewrite Es, St. change (bssBeforeValue =? bssBeforeFieldID) with false. cbv iota.
    unfold b_read. rewrite Ein. change 224 with (16 * 14 + 0). rewrite parse_tag_eq by lia. cbv iota beta.
    change (bitcode_of_high 14) with bcAnnotation. disp. bsimpl. rewrite Es. reflexivity. }
  rewrite <- Hn in E. unfold r_next_raw. rewrite E. cbv zeta. bsimpl. disp. unfold lift, b_read_bvm. bsimpl. disp.
  unfold b_read1, b_read. bsimpl.
  destruct r0 as [|a [|b [|c r']]]; bsimpl.
  - destruct (b_ioerr b1); eexists; reflexivity.
  - destruct (b_ioerr b1); eexists; reflexivity.
  - destruct (b_ioerr b1); eexists; reflexivity.
  - destruct (c =? 234) eqn:Ec; cbn [negb]; [|eexists; reflexivity].
    rsimpl. destruct ((a =? 1) && (b =? 0)) eqn:Eab; [|eexists; reflexivity].
    exfalso. apply (Hnb r'). f_equal; [lia|]. f_equal; [lia|]. f_equal. lia.
Qed.
End E0.
