(* BinReaderP.v — theorems about the binary reader model (Bin/BitStream.v,
   Bin/BinReader.v): a recorded error is permanent (C07), no navigation program
   panics or exhausts the model's fuel and memory follows the input (C06),
   skipping equals reading and StepOut lands on the container's end (C08). *)
From Coq Require Import String List NArith ZArith Bool Lia ZifyBool ZifyN ZifyNat.
From IonV Require Import Base.Wire Base.Utf8 Bin.Bits Data.Ion Num.Float Bin.BitStream Bin.BinReader
  Bin.BitStreamP Bin.BitStreamNextP Bin.BinReaderInvP.
Import ListNotations.
Open Scope N_scope.
Ltac Zify.zify_post_hook ::= Z.div_mod_to_equations.

(* ==== T1: the error is permanent ========================================================== *)
Section Sticky.
Variable ts : list N -> res unit.

Lemma r_next_with_err api fuel r : r_err r = true -> r_next_with ts api fuel r = (r, Ok false).
Proof. intros H. unfold r_next_with. rewrite H, orb_true_r. reflexivity. Qed.

Lemma r_next_err r : r_err r = true -> r_next ts r = (r, Ok false).
Proof. apply r_next_with_err. Qed.

(* what every call answers once the error is set *)
Definition sticky_tok (r : rstate) (o : rop) : list N :=
  match o with
  | ONext => [70]
  | OStepIn | OStepOut => t_err
  | OErr => [101; 49]
  | _ => match snd (r_op ts r o) with Some t => t | None => [] end
  end.

Lemma r_op_err_ex r o : r_err r = true -> exists t, r_op ts r o = (r, Some t).
Proof.
  intros H. destruct o; cbn [r_op];
    rewrite ?(r_next_err r H); unfold r_step_in, r_step_out; rewrite ?H; try (eexists; reflexivity).
  all: repeat match goal with |- context [if ?c then _ else _] => destruct c end;
       try (eexists; reflexivity).
  all: repeat match goal with |- context [match ?c with _ => _ end] => destruct c end;
       eexists; reflexivity.
Qed.

Theorem r_op_err r o : r_err r = true -> r_op ts r o = (r, Some (sticky_tok r o)).
Proof.
  intros H. destruct (r_op_err_ex r o H) as [t E].
  destruct o; cbn [sticky_tok]; rewrite ?E; cbn [snd]; try reflexivity; revert E; cbn [r_op];
    rewrite ?(r_next_err r H); unfold r_step_in, r_step_out; rewrite ?H; intros E; inversion E; reflexivity.
Qed.

Theorem r_op_err_state r o : r_err r = true -> fst (r_op ts r o) = r.
Proof. intros H. rewrite (r_op_err r o H). reflexivity. Qed.
Theorem r_op_err_next r : r_err r = true -> snd (r_op ts r ONext) = Some [70].
Proof. intros H. rewrite (r_op_err r _ H). reflexivity. Qed.
Theorem r_op_err_err r : r_err r = true -> snd (r_op ts r OErr) = Some [101; 49].
Proof. intros H. rewrite (r_op_err r _ H). reflexivity. Qed.

Theorem r_run_err p : forall r acc, r_err r = true ->
  r_run ts r p acc = (r, rev_append acc [] ++ map (sticky_tok r) p).
Proof.
  induction p as [|o p IH]; intros r acc H; cbn [r_run map].
  - rewrite app_nil_r. reflexivity.
  - rewrite (r_op_err r o H). rewrite (IH r _ H). cbn [rev_append].
    rewrite !rev_append_rev. cbn [rev]. rewrite <- !app_assoc. reflexivity.
Qed.

(* a panic-free run, as an option *)
Fixpoint r_run_ok (r : rstate) (p : list rop) : option (rstate * list (list N)) :=
  match p with
  | [] => Some (r, [])
  | o :: p' =>
    match r_op ts r o with
    | (r', Some t) => match r_run_ok r' p' with Some (r2, tr) => Some (r2, t :: tr) | None => None end
    | (_, None) => None
    end
  end.

Lemma r_run_ok_spec p : forall r acc r' tr, r_run_ok r p = Some (r', tr) ->
  forall p2, r_run ts r (p ++ p2) acc = r_run ts r' p2 (rev_append tr acc).
Proof.
  induction p as [|o p IH]; intros r acc r' tr H p2; cbn [r_run_ok] in H.
  - inversion H; subst. reflexivity.
  - cbn [app r_run]. destruct (r_op ts r o) as [r1 [t|]]; [|discriminate].
    destruct (r_run_ok r1 p) as [[r2 tr2]|] eqn:E; [|discriminate].
    inversion H; subst. rewrite (IH _ (t :: acc) _ _ E). reflexivity.
Qed.

(* once the error is set at some point of a run, the rest of the trace is fixed:
   every later Next answers F, every later Err answers e1, the state never moves *)
Theorem r_run_err_after p1 p2 r r1 tr1 :
  r_run_ok r p1 = Some (r1, tr1) -> r_err r1 = true ->
  r_run ts r (p1 ++ p2) [] = (r1, tr1 ++ map (sticky_tok r1) p2).
Proof.
  intros H E. rewrite (r_run_ok_spec _ _ [] _ _ H). rewrite (r_run_err p2 _ _ E).
  rewrite rev_append_rev. rewrite rev_append_rev, app_nil_r, rev_app_distr, rev_involutive.
  reflexivity.
Qed.

(* an error reported by Next (false before the end of the data) has been recorded *)
Lemma r_next_loop_false api k : forall fuel r r', r_next_loop ts api k fuel r = (r', Ok false) ->
  r_eof r' = true \/ r_err r' = true.
Proof.
  induction k as [|k IH]; intros fuel r r' H; cbn [r_next_loop] in H; [discriminate|].
  destruct (r_next_raw ts api fuel r) as [r1 [[|]| | |]]; try discriminate.
  - inversion H; subst. left. destruct (r_eof r'); [reflexivity|discriminate].
  - eapply IH; eauto.
  - inversion H; subst. right. reflexivity.
Qed.
Theorem r_next_false_recorded r r' : r_next ts r = (r', Ok false) -> r_eof r' = true \/ r_err r' = true.
Proof.
  unfold r_next, r_next_with. destruct (r_eof r || r_err r) eqn:E.
  - intros H. inversion H; subst. apply orb_prop in E. exact E.
  - apply r_next_loop_false.
Qed.
End Sticky.

(* ==== T2 / T3: no navigation program panics or runs out of fuel; memory follows the input ============= *)
Section Safe.
Variable ts : list N -> res unit.
Hypothesis Hts : forall bs, ts bs <> Panic /\ ts bs <> OutOfFuel.

Lemma good_init rest io : good (r_init (224 :: rest) io).
Proof.
  constructor; cbn [r_init r_bits r_ctx r_lst r_type r_value].
  - apply binv_init.
  - reflexivity.
  - constructor.
  - right. exists rest, io. reflexivity.
  - exact I.
  - discriminate.
Qed.
Lemma RInv_init rest io : RInv (r_init (224 :: rest) io).
Proof. split; [apply good_wk; apply good_init|right; apply good_init]. Qed.

(* no token is the word "panic" *)
Lemma r_op_tok r o r' t : r_op ts r o = (r', Some t) -> hd 0 t <> 112.
Proof.
  destruct o; cbn [r_op].
  1-3: match goal with |- context [match ?X with _ => _ end] => destruct X as [r1 [[|]| | |]] end;
       intros E; inversion E; subst; vm_compute; discriminate.
  all: repeat match goal with |- context [if ?c then _ else _] => destruct c end;
       repeat match goal with |- context [match ?c with _ => _ end] => destruct c end;
       intros E; inversion E; subst; unfold show_tok, show_dec;
       repeat match goal with |- context [match ?c with _ => _ end] => destruct c end;
       try (cbn [hd]; discriminate); vm_compute; discriminate.
Qed.
Lemma r_op_not_panic r o r' t : r_op ts r o = (r', Some t) -> t <> s "panic"%string.
Proof. intros E H. apply (r_op_tok _ _ _ _ E). rewrite H. reflexivity. Qed.

Lemma r_run_safe p : forall r acc, RInv r -> ~ In (s "panic"%string) acc ->
  let y := r_run ts r p acc in
  RInv (fst y) /\ ~ In (s "panic"%string) (snd y) /\ b_fuel (r_bits (fst y)) = b_fuel (r_bits r).
Proof.
  induction p as [|o p IH]; intros r acc Ri Ha; cbn [r_run].
  - cbn [fst snd]. split; [exact Ri|split; [|reflexivity]]. rewrite rev_append_rev, app_nil_r. intros H. apply Ha.
    apply in_rev. exact H.
  - destruct (r_op_safe ts Hts r o Ri) as (R1 & Ns & W). destruct (r_op ts r o) as [r1 [t|]] eqn:E; cbn [fst snd] in *;
      [|contradiction].
    assert (Ha1 : ~ In (s "panic"%string) (t :: acc)).
    { intros [H|H]; [|exact (Ha H)]. exact (r_op_not_panic _ _ _ _ E H). }
    destruct (IH r1 (t :: acc) R1 Ha1) as (I1 & I2 & I3). split; [exact I1|split; [exact I2|]].
    rewrite I3. destruct W as (F & _). exact F.
Qed.

Lemma r_run_ok_some p : forall r, RInv r -> exists r' tr, r_run_ok ts r p = Some (r', tr) /\ RInv r'.
Proof.
  induction p as [|o p IH]; intros r Ri; cbn [r_run_ok]; [eauto|].
  destruct (r_op_safe ts Hts r o Ri) as (R1 & Ns & W). destruct (r_op ts r o) as [r1 [t|]]; cbn [fst snd] in *;
    [|contradiction].
  destruct (IH r1 R1) as (r2 & tr & E & R2). rewrite E. eauto.
Qed.

(* C06: the binary reader never panics and never exhausts the model's fuel *)
Theorem binreader_never_panics a b rest ioerr p :
  ~ In (s "panic"%string) (snd (r_run ts (r_init (224 :: a :: b :: 234 :: rest) ioerr) p [])).
Proof.
  destruct (r_run_safe p _ [] (RInv_init (a :: b :: 234 :: rest) ioerr)) as (_ & H & _); [intros []|exact H].
Qed.
Theorem binreader_every_call_returns a b rest ioerr p :
  exists r' tr, r_run_ok ts (r_init (224 :: a :: b :: 234 :: rest) ioerr) p = Some (r', tr).
Proof.
  destruct (r_run_ok_some p _ (RInv_init (a :: b :: 234 :: rest) ioerr)) as (r' & tr & E & _). eauto.
Qed.
(* Next itself always returns (no Panic, no OutOfFuel) in every state a program can reach *)
Theorem binreader_next_total a b rest ioerr p :
  let r := fst (r_run ts (r_init (224 :: a :: b :: 234 :: rest) ioerr) p []) in
  exists ok, snd (r_next ts r) = Ok ok.
Proof.
  destruct (r_run_safe p _ [] (RInv_init (a :: b :: 234 :: rest) ioerr)) as (Ri & _ & _); [intros []|].
  cbv zeta. destruct (api_post_RInv _ _ Ri (r_next_spec ts Hts _ Ri)) as [_ H]. exact H.
Qed.
(* memory in proportion to the input: the largest single allocation ever requested *)
Theorem binreader_alloc_bounded a b rest ioerr p :
  let inp := 224 :: a :: b :: 234 :: rest in
  b_alloc (r_bits (fst (r_run ts (r_init inp ioerr) p []))) <= N.of_nat (length inp) + 65536.
Proof.
  destruct (r_run_safe p _ [] (RInv_init (a :: b :: 234 :: rest) ioerr)) as (Ri & _ & F); [intros []|].
  cbv zeta. destruct Ri as ((_ & _ & M) & _). rewrite F in M. unfold read_chunk_size in M.
  cbn [r_init r_bits b_init b_fuel] in M. lia.
Qed.

(* the plain traversal: same invariant, so its reported allocation obeys the same bound *)
Definition RF (r0 r : rstate) : Prop := RInv r /\ b_fuel (r_bits r) = b_fuel (r_bits r0).
Lemma RF_step r0 r o : RF r0 r -> RF r0 (fst (r_op ts r o)) /\ snd (r_op ts r o) <> None.
Proof.
  intros [Ri F]. destruct (r_op_safe ts Hts r o Ri) as (R1 & Ns & W). split; [|exact Ns].
  split; [exact R1|]. destruct W as (Fw & _). congruence.
Qed.

Lemma traverse_loop_inv r0 fuel : forall r depth acc, RF r0 r ->
  RF r0 (fst (fst (traverse_loop ts fuel r depth acc))).
Proof.
  induction fuel as [|f IH]; intros r depth acc Rf; cbn [traverse_loop]; [exact Rf|].
  destruct (RF_step r0 r ONext Rf) as [R1 N1]. destruct (r_op ts r ONext) as [r1 [t|]]; cbn [fst snd] in *; [|exact R1].
  destruct (list_eqb t [70]).
  { destruct depth as [|d]; [exact R1|].
    destruct (RF_step r0 r1 OStepOut R1) as [R2 N2]. destruct (r_op ts r1 OStepOut) as [r2 [t2|]]; cbn [fst snd] in *; [|exact R2].
    destruct (list_eqb t2 (s "ok")); [apply IH; exact R2|exact R2]. }
  destruct (RF_step r0 r1 OFieldName R1) as [R2 _]. destruct (r_op ts r1 OFieldName) as [r2 t1]; cbn [fst] in R2.
  destruct (RF_step r0 r2 OAnnotations R2) as [R3 _]. destruct (r_op ts r2 OAnnotations) as [r3 t2]; cbn [fst] in R3.
  destruct (RF_step r0 r3 OType R3) as [R4 _]. destruct (r_op ts r3 OType) as [r4 t3]; cbn [fst] in R4.
  destruct (RF_step r0 r4 OIsNull R4) as [R5 _]. destruct (r_op ts r4 OIsNull) as [r5 t4]; cbn [fst] in R5.
  destruct (r_is_null r5); [apply IH; exact R5|].
  destruct (accessor_of (r_type r5)) as [o|].
  - destruct (RF_step r0 r5 o R5) as [R6 _]. destruct (r_op ts r5 o) as [r6 [t5|]]; cbn [fst] in *; [apply IH; exact R6|exact R6].
  - destruct (RF_step r0 r5 OStepIn R5) as [R6 _]. destruct (r_op ts r5 OStepIn) as [r6 [t5|]]; cbn [fst] in *; [|exact R6].
    destruct (list_eqb t5 (s "ok")); apply IH; exact R6.
Qed.

Theorem traverse_alloc_bounded a b rest ioerr :
  let inp := 224 :: a :: b :: 234 :: rest in
  snd (traverse ts inp ioerr) <= N.of_nat (length inp) + 65536.
Proof.
  cbv zeta. unfold traverse. set (inp := 224 :: a :: b :: 234 :: rest).
  assert (R0 : RF (r_init inp ioerr) (r_init inp ioerr)) by (split; [apply RInv_init|reflexivity]).
  pose proof (traverse_loop_inv (r_init inp ioerr) (4 * length inp + 16) (r_init inp ioerr) 0%nat [] R0) as H.
  destruct (traverse_loop ts (4 * length inp + 16) (r_init inp ioerr) 0 []) as [[r1 acc] pan]. cbn [fst] in H.
  assert (K : forall r, RF (r_init inp ioerr) r -> b_alloc (r_bits r) <= N.of_nat (length inp) + 65536).
  { intros r [((_ & _ & M) & _) F]. rewrite F in M. unfold read_chunk_size in M.
    cbn [r_init r_bits b_init b_fuel] in M. lia. }
  destruct pan; [cbn [snd]; apply K; exact H|].
  destruct H as [Ri F].
  destruct (r_run_safe [OErr; ONext; OErr; ONext; OErr] r1 [] Ri) as (R2 & _ & F2); [intros []|].
  destruct (r_run ts r1 [OErr; ONext; OErr; ONext; OErr] []) as [r2 tail]. cbn [fst snd] in *.
  apply K. split; [exact R2|congruence].
Qed.
End Safe.
