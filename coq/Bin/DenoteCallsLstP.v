(* DenoteCallsLstP.v — C12's headline for the FIXED-TABLE binary Writer (NewBinaryWriterLST(out, lst)).
   The fixed-table writer keeps no datagram buffer: at top level it writes straight through to the
   io.Writer, the version marker and the given table are written (through the writer itself) in front of
   the first value of each batch, and text that is not in the table is an error that is recorded.
   Proof: a simulation.  As long as its calls succeed, the fixed-table writer over a never-failing sink
   does what the growing-table writer does whose builder already holds the table's symbols and whose
   buffer stack has one more buffer at the bottom — a datagram buffer [dg] receiving exactly the chunks
   that the fixed-table writer hands to the io.Writer.  The lock-step invariant [Rel] of
   Bin/DenoteCallsP.v is then used on the growing-table side. *)
From Coq Require Import String List NArith ZArith Bool Lia ZifyBool ZifyN ZifyNat.
From IonV Require Import Base.Wire Base.Utf8 Bin.Bits Bin.BitsP Data.Ion Num.Float
  Bin.BinWriter Bin.BinWriterP Bin.BinWriterP2 Bin.SpecBin Bin.RoundTripBin Bin.RoundTripBinS Bin.RoundTripBinW
  Bin.RoundTripBinP Bin.DenoteCalls Bin.DenoteCallsP Bin.DenoteCalls2P.
Import ListNotations.
Open Scope N_scope.
Ltac Zify.zify_post_hook ::= Z.div_mod_to_equations.
Arguments append_varuint : simpl never.

Lemma sink_none cs : forall k, sk_budget k = None ->
  sink_write_all k cs = ({| sk_writes := sk_writes k ++ cs; sk_budget := None |}, true).
Proof.
  induction cs as [|c cs IH]; intros k Hb; cbn [sink_write_all].
  - rewrite app_nil_r. destruct k as [ws b]. cbn in *. subst. reflexivity.
  - unfold sink_write. rewrite Hb. rewrite IH by reflexivity. cbn [sk_writes]. rewrite <- app_assoc. reflexivity.
Qed.

Lemma fbn_true_false L t i : find_by_name L true t = Some i -> find_by_name L false t = Some i.
Proof.
  unfold find_by_name. destruct (index_of t system_symbols 1); [auto|]. cbn [andb].
  destruct (list_eqb t []); [discriminate|auto].
Qed.

Section LST.
Variable locals : list text.
Variable k : sink.      (* the growing-table side's io.Writer: not touched between two Finish *)

(* the growing-table state that mirrors a fixed-table state *)
Definition toB (dg : bufseq) (w : wstate) : wstate :=
  {| w_out := k; w_ctx := w_ctx w; w_err := w_err w; w_field := w_field w; w_annots := w_annots w;
     w_bufs := w_bufs w ++ [dg]; w_lst := None; w_lstb := locals; w_wrote_lst := false |}.

Definition Lst (w : wstate) : Prop := w_lst w = Some locals /\ sk_budget (w_out w) = None.

(* [dg] has received [delta], the sink [pre ++ delta] *)
Definition advp (pre : list N) (w w' : wstate) (dg dg' : bufseq) : Prop :=
  bs_code dg' = bs_code dg /\
  exists delta, concat (bs_chunks dg') = concat (bs_chunks dg) ++ delta /\
                sink_bytes (w_out w') = sink_bytes (w_out w) ++ pre ++ delta.

Lemma advp_out w w' dg : w_out w' = w_out w -> advp [] w w' dg dg.
Proof. intros H. split; [reflexivity|]. exists []. rewrite H, !app_nil_r. split; reflexivity. Qed.
Lemma advp_trans pre a b c d1 d2 d3 : advp pre a b d1 d2 -> advp [] b c d2 d3 -> advp pre a c d1 d3.
Proof.
  intros (C1 & x & A1 & A2) (C2 & y & B1 & B2). split; [congruence|]. exists (x ++ y).
  rewrite B1, A1, B2, A2. cbn [app]. rewrite <- !app_assoc. split; reflexivity.
Qed.

Definition simrp (pre : list N) (w : wstate) (dg : bufseq) (rB : ret) (w' : wstate) : Prop :=
  Lst w' /\ exists dg', rB = (toB dg' w', true) /\ advp pre w w' dg dg'.
(* a stage that writes no table *)
Definition simr (w : wstate) (dg : bufseq) (rB : ret) (w' : wstate) : Prop :=
  simrp [] w dg rB w' /\ w_wrote_lst w' = w_wrote_lst w.

Lemma simr_same w dg : Lst w -> simr w dg (toB dg w, true) w.
Proof. intros H. split; [|reflexivity]. split; [exact H|]. exists dg. split; [reflexivity|apply advp_out; reflexivity]. Qed.

Lemma simr_trans pre w w1 w2 dg r1 r2 : simrp pre w dg r1 w1 ->
  (forall dg1, r1 = (toB dg1 w1, true) -> bs_code dg1 = bs_code dg -> simr w1 dg1 (r2 dg1) w2) ->
  exists dg1, r1 = (toB dg1 w1, true) /\ simrp pre w dg (r2 dg1) w2 /\ w_wrote_lst w2 = w_wrote_lst w1.
Proof.
  intros (L1 & dg1 & E1 & A1) H. exists dg1. split; [exact E1|].
  destruct (H dg1 E1 (proj1 A1)) as ((L2 & dg2 & E2 & A2) & W). split; [|exact W].
  split; [exact L2|]. exists dg2. split; [exact E2|]. eapply advp_trans; eassumption.
Qed.

(* ---- emit / write / endValue --------------------------------------------------------------------------- *)
Lemma emit_L w dg n w' ok : Lst w -> emit w n = (w', ok) -> ok = true /\ simr w dg (emit (toB dg w) n) w'.
Proof.
  intros [Hl Hb]. unfold emit. cbn [toB w_bufs]. destruct (w_bufs w) as [|q r] eqn:E; cbn [app].
  - rewrite (sink_none _ _ Hb). intros H; inversion H; subst. split; [reflexivity|].
    split; [|reflexivity]. split; [split; [exact Hl|reflexivity]|].
    exists (seq_append dg n). split; [unfold toB, set_bufs, set_out; cbn; rewrite E; reflexivity|].
    split; [reflexivity|]. exists (concat (nd_chunks n)). cbn [app]. split; [cbn; apply concat_app|].
    unfold sink_bytes; cbn. apply concat_app.
  - intros H; inversion H; subst. split; [reflexivity|]. split; [|reflexivity]. split; [split; [exact Hl|exact Hb]|].
    exists dg. split; [reflexivity|apply advp_out; reflexivity].
Qed.

Lemma write_L w dg b w' ok : Lst w -> write w b = (w', ok) -> ok = true /\ simr w dg (write (toB dg w) b) w'.
Proof. apply emit_L. Qed.

Lemma end_value_L w dg w' ok : Lst w -> bs_code dg = None -> end_value w = (w', ok) ->
  ok = true /\ simr w dg (end_value (toB dg w)) w'.
Proof.
  intros HL Hdg. unfold end_value. cbn [toB w_bufs]. destruct (w_bufs w) as [|q rest] eqn:E; cbn [app].
  - rewrite Hdg. intros H; inversion H; subst. split; [reflexivity|]. fold (toB dg w'). apply simr_same. exact HL.
  - destruct (bs_code q) as [c|].
    + destruct (c =? 224).
      * intros H. change (set_bufs _ (rest ++ [dg])) with (toB dg (set_bufs w rest)).
        exact (emit_L (set_bufs w rest) dg _ _ _ HL H).
      * intros H; inversion H; subst. split; [reflexivity|]. fold (toB dg w'). apply simr_same. exact HL.
    + intros H; inversion H; subst. split; [reflexivity|]. fold (toB dg w'). apply simr_same. exact HL.
Qed.

(* ---- symbols: whatever the table resolves, the pre-seeded builder resolves alike, without growing --------- *)
Lemma resolve_L w dg t w' id : Lst w -> resolve_from_table w t = (w', id, true) ->
  w' = w /\ resolve_from_table (toB dg w) t = (toB dg w, id, true).
Proof.
  intros [Hl _]. unfold resolve_from_table. rewrite Hl. cbn [toB w_lst w_lstb].
  destruct (find_by_name locals true t) eqn:E; intros H; inversion H; subst.
  rewrite (fbn_true_false _ _ _ E). split; reflexivity.
Qed.

Lemma id_of_tok_field_L w dg t w' id : Lst w -> id_of_tok_field w t = Some (w', id) ->
  w' = w /\ id_of_tok_field (toB dg w) t = Some (toB dg w, id).
Proof.
  intros HL. unfold id_of_tok_field. destruct (tk_text t) as [x|].
  - destruct (resolve_from_table w x) as [[w1 i] ok] eqn:E. destruct ok; [|discriminate].
    intros H; inversion H; subst. destruct (resolve_L _ dg _ _ _ HL E) as [-> ->]. split; reflexivity.
  - destruct (negb (tk_sid t =? -1)%Z); [|discriminate]. intros H; inversion H; subst. split; reflexivity.
Qed.
Lemma id_of_tok_annot_L w dg t w' id : Lst w -> id_of_tok_annot w t = Some (w', id) ->
  w' = w /\ id_of_tok_annot (toB dg w) t = Some (toB dg w, id).
Proof. exact (id_of_tok_field_L w dg t w' id). Qed.

Lemma annot_ids_L ts : forall w dg w' ids, Lst w -> annot_ids w ts = (w', Some ids) ->
  w' = w /\ annot_ids (toB dg w) ts = (toB dg w, Some ids).
Proof.
  induction ts as [|t ts IH]; intros w dg w' ids HL; cbn [annot_ids].
  - intros H; inversion H; subst. split; reflexivity.
  - destruct (id_of_tok_annot w t) as [[w1 i]|] eqn:E; [|discriminate].
    destruct (id_of_tok_annot_L _ dg _ _ _ HL E) as [-> ->].
    destruct (annot_ids w ts) as [w2 [ids2|]] eqn:E2; [|discriminate].
    destruct (IH _ dg _ _ HL E2) as [-> ->]. intros H; inversion H; subst. split; reflexivity.
Qed.

Lemma simrp_comp pre w w2 dg dg2 r w' : advp pre w w2 dg dg2 -> simrp [] w2 dg2 r w' -> simrp pre w dg r w'.
Proof.
  intros A (L' & dg' & E & A'). split; [exact L'|]. exists dg'. split; [exact E|]. eapply advp_trans; eassumption.
Qed.
Lemma simr_comp w w2 dg dg2 r w' : advp [] w w2 dg dg2 -> w_wrote_lst w2 = w_wrote_lst w ->
  simr w2 dg2 r w' -> simr w dg r w'.
Proof. intros A W [S W']. split; [eapply simrp_comp; eassumption|congruence]. Qed.

(* ---- beginValue once the table is written ------------------------------------------------------------------ *)
Lemma bv_field_L w dg nm w' : Lst w -> bv_field w nm = Ok (w', true) ->
  exists r, bv_field (toB dg w) nm = Ok r /\ simr w dg r w'.
Proof.
  intros HL. unfold bv_field. change (in_struct (toB dg w)) with (in_struct w). destruct (in_struct w).
  - destruct nm as [t|]; [|discriminate]. destruct (id_of_tok_field w t) as [[w1 id]|] eqn:E; [|discriminate].
    destruct (id_of_tok_field_L _ dg _ _ _ HL E) as [-> ->]. intros H.
    destruct (write w (append_varuint [] id)) as [w2 ok2] eqn:Ew. inversion H; subst.
    destruct (write_L _ dg _ _ _ HL Ew) as [_ S]. eexists. split; [reflexivity|exact S].
  - intros H; inversion H; subst. eexists; split; [reflexivity|apply simr_same; exact HL].
Qed.

Lemma bv_annots_L w dg a w' : Lst w -> bv_annots w a = Ok (w', true) ->
  exists r, bv_annots (toB dg w) a = Ok r /\ simr w dg r w'.
Proof.
  intros HL. destruct a as [|t a].
  - intros H; inversion H; subst. eexists; split; [reflexivity|apply simr_same; exact HL].
  - unfold bv_annots. destruct (annot_ids w (t :: a)) as [w1 [ids|]] eqn:E; [|discriminate].
    destruct (annot_ids_L _ _ dg _ _ HL E) as [-> ->]. cbv zeta.
    change (set_bufs (toB dg w) (new_seq (Some 224) :: w_bufs (toB dg w)))
      with (toB dg (set_bufs w (new_seq (Some 224) :: w_bufs w))).
    intros H. destruct (write (set_bufs w (new_seq (Some 224) :: w_bufs w)) _) as [w2 ok2] eqn:Ew. inversion H; subst.
    destruct (write_L (set_bufs w (new_seq (Some 224) :: w_bufs w)) dg _ _ _ HL Ew) as [_ S].
    eexists. split; [reflexivity|exact S].
Qed.

Lemma bv_tail1_L w dg nm a w' : Lst w -> bv_tail1 w true nm a = Ok (w', true) ->
  exists r, bv_tail1 (toB dg w) true nm a = Ok r /\ simr w dg r w'.
Proof.
  intros HL. unfold bv_tail1, bv_tail2. cbn [negb].
  destruct (bv_field w nm) as [[w2 ok2]| | |] eqn:E; cbn [bind]; try discriminate.
  destruct ok2; cbn [negb]; [|discriminate]. intros H.
  destruct (bv_field_L _ dg _ _ HL E) as (r & -> & ((L2 & dg2 & -> & A2) & W2)). cbn [bind negb].
  destruct (bv_annots_L _ dg2 _ _ L2 H) as (r3 & E3 & S3). exists r3. split; [exact E3|].
  eapply simr_comp; eassumption.
Qed.

Lemma begin_value_L1 run runB w dg w' : Lst w -> w_wrote_lst w = true -> begin_value run w = Ok (w', true) ->
  exists r, begin_value runB (toB dg w) = Ok r /\ simr w dg r w'.
Proof.
  intros HL Hw. rewrite !begin_value_eq. unfold bv_lst.
  change (w_lst (clear (toB dg w))) with (@None (list text)). change (w_lst (clear w)) with (w_lst w).
  rewrite (proj1 HL). change (w_wrote_lst (clear w)) with (w_wrote_lst w). rewrite Hw. cbn [negb bind].
  change (clear (toB dg w)) with (toB dg (clear w)). change (w_field (toB dg w)) with (w_field w).
  change (w_annots (toB dg w)) with (w_annots w). intros H.
  destruct (bv_tail1_L (clear w) dg _ _ _ HL H) as (r & E & S). exists r. split; [exact E|exact S].
Qed.

(* ---- the stages after beginValue ---------------------------------------------------------------------------- *)
Lemma ev_tail_L w dg w' : Lst w -> bs_code dg = None -> ev_tail w true = Ok (w', true) ->
  exists r, ev_tail (toB dg w) true = Ok r /\ simr w dg r w'.
Proof.
  intros HL Hdg. unfold ev_tail. cbn [negb]. destruct (end_value w) as [w1 ok1] eqn:E.
  destruct (end_value_L _ dg _ _ HL Hdg E) as [-> ((L1 & dg1 & E1 & A1) & W1)]. rewrite E1. cbn [negb].
  intros H; inversion H; subst. eexists; split; [reflexivity|].
  split; [|exact W1]. split; [exact L1|]. exists dg1. split; [reflexivity|exact A1].
Qed.

Lemma wv_tail_L w dg val w' : Lst w -> bs_code dg = None -> wv_tail w true val = Ok (w', true) ->
  exists r, wv_tail (toB dg w) true val = Ok r /\ simr w dg r w'.
Proof.
  intros HL Hdg. rewrite !wv_tail_eq. cbn [negb]. destruct (write w val) as [w1 ok1] eqn:E.
  destruct (write_L _ dg _ _ _ HL E) as [-> ((L1 & dg1 & E1 & A1) & W1)]. rewrite E1. intros H.
  destruct (ev_tail_L w1 dg1 _ L1 ltac:(rewrite (proj1 A1); exact Hdg) H) as (r & E2 & S2).
  exists r. split; [exact E2|]. eapply simr_comp; eassumption.
Qed.

Lemma write_chunks_L cs : forall w dg w' ok, Lst w -> write_chunks (w, true) cs = (w', ok) ->
  ok = true /\ simr w dg (write_chunks (toB dg w, true) cs) w'.
Proof.
  induction cs as [|c cs IH]; intros w dg w' ok HL; unfold write_chunks; cbn [fold_left].
  - intros H; inversion H; subst. split; [reflexivity|apply simr_same; exact HL].
  - destruct (write w c) as [w1 ok1] eqn:E.
    destruct (write_L _ dg _ _ _ HL E) as [-> ((L1 & dg1 & E1 & A1) & W1)]. rewrite E1. intros H.
    destruct (IH w1 dg1 w' ok L1 H) as [-> S]. split; [reflexivity|]. eapply simr_comp; eassumption.
Qed.

Lemma wvc_tail_L w dg cs w' : Lst w -> bs_code dg = None -> wvc_tail w true cs = Ok (w', true) ->
  exists r, wvc_tail (toB dg w) true cs = Ok r /\ simr w dg r w'.
Proof.
  intros HL Hdg. rewrite !wvc_tail_eq. cbn [negb]. destruct (write_chunks (w, true) cs) as [w1 ok1] eqn:E.
  destruct (write_chunks_L _ _ dg _ _ HL E) as [-> ((L1 & dg1 & E1 & A1) & W1)]. rewrite E1. intros H.
  destruct (ev_tail_L w1 dg1 _ L1 ltac:(rewrite (proj1 A1); exact Hdg) H) as (r & E2 & S2).
  exists r. split; [exact E2|]. eapply simr_comp; eassumption.
Qed.

Lemma bc_tail_L w dg t code w' : Lst w -> bc_tail w true t code = Ok (w', true) ->
  exists r, bc_tail (toB dg w) true t code = Ok r /\ simr w dg r w'.
Proof.
  intros HL. unfold bc_tail. cbn [negb]. intros H; inversion H; subst. eexists; split; [reflexivity|].
  exact (simr_same (set_bufs (set_ctx w (t :: w_ctx w)) (new_seq (Some code) :: w_bufs w)) dg HL).
Qed.

(* ---- End... ---------------------------------------------------------------------------------------------------- *)
Lemma ec_emit_L w dg w' ok : Lst w -> w_bufs w <> [] -> ec_emit w = (w', ok) ->
  ok = true /\ simr w dg (ec_emit (toB dg w)) w'.
Proof.
  intros HL Hne. unfold ec_emit. cbn [toB w_bufs]. destruct (w_bufs w) as [|q rest] eqn:E; [contradiction|]. cbn [app].
  intros H. change (set_bufs _ (rest ++ [dg])) with (toB dg (set_bufs w rest)).
  exact (emit_L (set_bufs w rest) dg _ _ _ HL H).
Qed.

Lemma ec_tail_L w dg w' : Lst w -> bs_code dg = None -> ec_tail w true = Ok (w', true) ->
  exists r, ec_tail (toB dg w) true = Ok r /\ simr w dg r w'.
Proof.
  intros HL Hdg. unfold ec_tail. cbn [negb]. change (w_ctx (clear (toB dg w))) with (w_ctx w).
  change (w_ctx (clear w)) with (w_ctx w). destruct (w_ctx w) as [|c0 c] eqn:Ec; [discriminate|].
  change (set_ctx (clear (toB dg w)) c) with (toB dg (set_ctx (clear w) c)).
  destruct (end_value (set_ctx (clear w) c)) as [w1 ok1] eqn:E.
  destruct (end_value_L (set_ctx (clear w) c) dg _ _ HL Hdg E) as [-> ((L1 & dg1 & E1 & A1) & W1)]. rewrite E1. cbn [negb].
  intros H; inversion H; subst. eexists; split; [reflexivity|].
  split; [|exact W1]. split; [exact L1|]. exists dg1. split; [reflexivity|exact A1].
Qed.

Lemma end_container_L w dg t w' : Lst w -> bs_code dg = None -> w_bufs w <> [] -> end_container w t = Ok (w', true) ->
  exists r, end_container (toB dg w) t = Ok r /\ simr w dg r w'.
Proof.
  intros HL Hdg Hne. rewrite !end_container_eq. change (w_err (toB dg w)) with (w_err w).
  change (ctx_peek (toB dg w)) with (ctx_peek w). destruct (w_err w); [discriminate|].
  destruct (negb (ctx_peek w =? t)); [discriminate|].
  destruct (ec_emit w) as [w1 ok1] eqn:E.
  destruct (ec_emit_L _ dg _ _ HL Hne E) as [-> ((L1 & dg1 & E1 & A1) & W1)]. rewrite E1. intros H.
  destruct (ec_tail_L w1 dg1 _ L1 ltac:(rewrite (proj1 A1); exact Hdg) H) as (r & E2 & S2).
  exists r. split; [exact E2|]. eapply simr_comp; eassumption.
Qed.

(* ---- the table written through the writer itself (lst.WriteTo(w)), fixed-table mode ----------------------------- *)
Definition mkL (out : sink) (ctx : list N) (bufs : list bufseq) (lb : list text) : wstate :=
  {| w_out := out; w_ctx := ctx; w_err := false; w_field := None; w_annots := []; w_bufs := bufs;
     w_lst := Some locals; w_lstb := lb; w_wrote_lst := true |}.

Lemma write_value_str f out q r lb val : bs_code q = Some 176 ->
  write_value (run_calls f) (mkL out [ctxList; ctxStruct] (q :: r) lb) val
  = Ok (mkL out [ctxList; ctxStruct] (seq_append q (atom val) :: r) lb, true).
Proof.
  intros Hq. unfold write_value, begin_value, end_value, write, emit. cbn. rewrite Hq. reflexivity.
Qed.

Lemma step_string run w t : step run w (CString t) = write_value run w (enc_tagged 128 t).
Proof. destruct t; reflexivity. Qed.

Definition str_atoms (ts : list text) : list node := map (fun t => atom (enc_tagged 128 t)) ts.

Lemma strings_run_L f ts : forall out q r lb rest, bs_code q = Some 176 ->
  run_calls (S f) (mkL out [ctxList; ctxStruct] (q :: r) lb) (map CString ts ++ rest)
  = run_calls (S f) (mkL out [ctxList; ctxStruct] (appends q (str_atoms ts) :: r) lb) rest.
Proof.
  induction ts as [|t ts IH]; intros out q r lb rest Hq; cbn [map app appends str_atoms]; [reflexivity|].
  rewrite RoundTripBinP.run_calls_cons, step_string, write_value_str by exact Hq. cbn [bind].
  apply IH. exact Hq.
Qed.

Lemma str_atoms_ndesc ts : Forall2 ndesc (str_atoms ts) (map (enc_tagged 128) ts).
Proof. induction ts as [|t ts IH]; cbn [str_atoms map]; constructor; [apply ndesc_atom|exact IH]. Qed.

Lemma end_list_L ws lb q' S W :
  end_container (mkL (osink ws) [ctxList; ctxStruct] [q'; S; W] lb) ctxList
  = Ok (mkL (osink ws) [ctxStruct] [seq_append S (node_of_seq q'); W] lb, true) \/ bs_code S = Some 224.
Proof.
  destruct (bs_code S) as [c|] eqn:Ec.
  - destruct (c =? 224) eqn:E224; [right; apply N.eqb_eq in E224; subst; reflexivity|left].
    unfold end_container, end_value, emit, ctx_peek. cbn. rewrite Ec, E224. reflexivity.
  - left. unfold end_container, end_value, emit, ctx_peek. cbn. rewrite Ec. reflexivity.
Qed.

Lemma end_struct_L ws lb S' W : bs_code W = Some 224 -> bs_code S' <> Some 224 ->
  end_container (mkL (osink ws) [ctxStruct] [S'; W] lb) ctxStruct
  = Ok (mkL (osink (ws ++ nd_chunks (node_of_seq (seq_append W (node_of_seq S'))))) [] [] lb, true).
Proof.
  intros HW HS. unfold end_container. cbn [w_err mkL]. unfold ctx_peek. cbn [w_ctx mkL].
  rewrite N.eqb_refl. cbn [negb w_bufs mkL].
  change (emit (set_bufs (mkL (osink ws) [ctxStruct] [S'; W] lb) [W]) (node_of_seq S'))
    with (mkL (osink ws) [ctxStruct] [seq_append W (node_of_seq S')] lb, true).
  cbn [negb].
  change (w_ctx (clear (mkL (osink ws) [ctxStruct] [seq_append W (node_of_seq S')] lb))) with [ctxStruct].
  cbv iota.
  change (set_ctx (clear (mkL (osink ws) [ctxStruct] [seq_append W (node_of_seq S')] lb)) [])
    with (mkL (osink ws) [] [seq_append W (node_of_seq S')] lb).
  unfold end_value. cbn [w_bufs mkL]. change (bs_code (seq_append W (node_of_seq S'))) with (bs_code W).
  rewrite HW. change (224 =? 224) with true. cbv iota.
  unfold emit. cbn [w_bufs mkL set_bufs w_out w_ctx w_err w_field w_annots w_lst w_lstb w_wrote_lst].
  rewrite sink_write_all_osink. reflexivity.
Qed.

Lemma lst_run_L ws lb : exists ws',
  run_calls 2 (mkL (osink ws) [] [] lb) (lst_calls locals) = Ok (mkL (osink ws') [] [] lb, true) /\
  concat ws' = concat ws ++ enc_lst locals.
Proof.
  destruct locals as [|t0 L0] eqn:EL.
  - exists ws. split; [reflexivity|]. cbn [enc_lst]. rewrite app_nil_r. reflexivity.
  - rewrite <- EL. assert (Hlc : lst_calls locals = [CAnnotation (tok_full (s "$ion_symbol_table"%string) 3); CBeginStruct;
          CFieldName (tok_full (s "symbols"%string) 7); CBeginList] ++ map CString locals ++ [CEndList; CEndStruct])
      by (rewrite EL; reflexivity).
    assert (Hel : enc_lst locals = enc [] (lst_value locals)) by (rewrite EL; reflexivity).
    rewrite Hlc, Hel. clear Hlc Hel.
    set (W224 := seq_append (new_seq (Some 224)) (atom [129; 131])).
    set (S208 := seq_append (new_seq (Some 208)) (atom [135])).
    assert (H4 : forall rest, run_calls 2 (mkL (osink ws) [] [] lb)
              ([CAnnotation (tok_full (s "$ion_symbol_table"%string) 3); CBeginStruct;
                CFieldName (tok_full (s "symbols"%string) 7); CBeginList] ++ rest)
            = run_calls 2 (mkL (osink ws) [ctxList; ctxStruct] [new_seq (Some 176); S208; W224] lb) rest).
    { intros rest. unfold mkL. rewrite EL. reflexivity. }
    rewrite H4. rewrite strings_run_L by reflexivity.
    set (q' := appends (new_seq (Some 176)) (str_atoms locals)).
    rewrite RoundTripBinP.run_calls_cons. cbn [step].
    destruct (end_list_L ws lb q' S208 W224) as [Hec|Hec]; [|discriminate Hec]. rewrite Hec. clear Hec.
    cbn [bind]. rewrite RoundTripBinP.run_calls_cons. cbn [step].
    rewrite end_struct_L by (try discriminate; reflexivity).
    cbn [bind]. eexists. split; [reflexivity|].
    rewrite concat_app. f_equal.
    pose proof (absq_appends (str_atoms locals) _ _ _ _ (absq_new (Some 176)) (str_atoms_ndesc locals)) as Hd.
    fold q' in Hd. cbn [app] in Hd. rewrite <- flat_map_concat_map in Hd.
    assert (HS : absq (seq_append S208 (node_of_seq q')) (Some 208) ([135] ++ enc_tagged 176 (flat_map (enc_tagged 128) locals))).
    { apply absq_append; [repeat split|]. apply ndesc_node_of_seq. exact Hd. }
    assert (HW : absq (seq_append W224 (node_of_seq (seq_append S208 (node_of_seq q')))) (Some 224)
                   ([129; 131] ++ enc_tagged 208 ([135] ++ enc_tagged 176 (flat_map (enc_tagged 128) locals)))).
    { apply absq_append; [repeat split|]. apply ndesc_node_of_seq. exact HS. }
    destruct (ndesc_node_of_seq _ _ _ HW) as [Hn _]. rewrite Hn.
    unfold lst_value. cbn [enc flat_map]. rewrite enc_strings, app_nil_r. reflexivity.
Qed.

Lemma preamble_L w : Lst w -> w_err w = false -> w_ctx w = [] -> w_bufs w = [] -> w_field w = None ->
  w_annots w = [] -> w_wrote_lst w = true ->
  exists out1, write_lst (run_calls 2) w locals = Ok (set_out w out1, true) /\ sk_budget out1 = None /\
               sink_bytes out1 = sink_bytes (w_out w) ++ bvm ++ enc_lst locals.
Proof.
  destruct w as [out ctx err fld ann bufs lst lb wl]. cbn [w_err w_ctx w_bufs w_field w_annots w_wrote_lst].
  intros [Hl Hb] -> -> -> -> -> ->. cbn [w_lst w_out] in Hl, Hb. subst lst.
  destruct out as [ws b]. cbn [sk_budget] in Hb. subst b. unfold write_lst.
  change (write _ [224; 1; 0; 234]) with (mkL (osink (ws ++ [bvm])) [] [] lb, true). cbn [negb].
  destruct (lst_run_L (ws ++ [bvm]) lb) as (ws' & E & C). rewrite E. exists (osink ws'). split; [reflexivity|].
  split; [reflexivity|]. unfold sink_bytes. cbn [sk_writes osink]. rewrite C, concat_app. cbn [concat].
  rewrite app_nil_r, <- app_assoc. reflexivity.
Qed.

Definition pre_ok (pre : list N) (w : wstate) : Prop :=
  (w_wrote_lst w = true /\ pre = []) \/ (w_wrote_lst w = false /\ pre = bvm ++ enc_lst locals).
Definition top_inv (w : wstate) : Prop := w_wrote_lst w = false -> w_ctx w = [] /\ w_bufs w = [].

Lemma advp_pre pre w w1 w' dg dg' : advp [] w1 w' dg dg' -> sink_bytes (w_out w1) = sink_bytes (w_out w) ++ pre ->
  advp pre w w' dg dg'.
Proof.
  intros (C & d & A & B) E. split; [exact C|]. exists d. split; [exact A|]. rewrite B, E. cbn [app].
  rewrite <- app_assoc. reflexivity.
Qed.

(* what a successful value call gives: the table first if this is the first value of the batch *)
Definition StepSim (w : wstate) (dg : bufseq) (rB : res ret) (w' : wstate) : Prop :=
  exists pre r, rB = Ok r /\ simrp pre w dg r w' /\ w_wrote_lst w' = true /\ pre_ok pre w.

Lemma begin_value_L runB w dg w' : Lst w -> w_err w = false -> top_inv w ->
  begin_value (run_calls 2) w = Ok (w', true) -> StepSim w dg (begin_value runB (toB dg w)) w'.
Proof.
  intros HL He Hinv H. destruct (w_wrote_lst w) eqn:Hw.
  - destruct (begin_value_L1 _ runB w dg w' HL Hw H) as (r & E & (S & W)).
    exists [], r. split; [exact E|]. split; [exact S|]. split; [congruence|left; split; [exact Hw|reflexivity]].
  - destruct (Hinv Hw) as [Hc Hb].
    rewrite begin_value_eq in H. unfold bv_lst in H. change (w_lst (clear w)) with (w_lst w) in H.
    rewrite (proj1 HL) in H. change (w_wrote_lst (clear w)) with (w_wrote_lst w) in H. rewrite Hw in H. cbn [negb] in H.
    destruct (preamble_L (set_wrote (clear w) true) HL He Hc Hb eq_refl eq_refl eq_refl) as (out1 & E & Hb1 & Hs1).
    rewrite E in H. cbn [bind] in H.
    set (w1 := set_out (set_wrote (clear w) true) out1) in *.
    assert (L1 : Lst w1) by (split; [exact (proj1 HL)|exact Hb1]).
    destruct (bv_tail1_L w1 dg _ _ _ L1 H) as (r & E2 & ((L' & dg' & Er & A) & W)).
    exists (bvm ++ enc_lst locals), r. split; [|split; [|split]].
    + rewrite begin_value_eq. unfold bv_lst. change (w_lst (clear (toB dg w))) with (@None (list text)). cbn [bind].
      exact E2.
    + split; [exact L'|]. exists dg'. split; [exact Er|]. eapply advp_pre; [exact A|exact Hs1].
    + rewrite W. reflexivity.
    + right. split; [exact Hw|reflexivity].
Qed.

Lemma StepSim_tail w dg w1 dg1 pre rB w' : advp pre w w1 dg dg1 -> w_wrote_lst w1 = true -> pre_ok pre w ->
  (exists r, rB = Ok r /\ simr w1 dg1 r w') -> StepSim w dg rB w'.
Proof.
  intros A W P (r & E & (S & W2)). exists pre, r. split; [exact E|]. split; [eapply simrp_comp; eassumption|].
  split; [congruence|exact P].
Qed.

Lemma write_value_L runB w dg val w' : Lst w -> bs_code dg = None -> top_inv w ->
  write_value (run_calls 2) w val = Ok (w', true) -> StepSim w dg (write_value runB (toB dg w) val) w'.
Proof.
  intros HL Hdg Hinv. rewrite !write_value_eq. change (w_err (toB dg w)) with (w_err w).
  destruct (w_err w) eqn:He; [discriminate|].
  destruct (begin_value (run_calls 2) w) as [[w1 ok1]| | |] eqn:Eb; cbn [bind]; try discriminate.
  destruct ok1; [|unfold wv_tail; cbn [negb]; discriminate]. intros H.
  destruct (begin_value_L runB w dg w1 HL He Hinv Eb) as (pre & r1 & E1 & (L1 & dg1 & -> & A1) & W1 & P).
  rewrite E1. cbn [bind]. eapply StepSim_tail; [exact A1|exact W1|exact P|].
  apply wv_tail_L; [exact L1|rewrite (proj1 A1); exact Hdg|exact H].
Qed.

Lemma write_value_chunks_L runB w dg cs w' : Lst w -> bs_code dg = None -> top_inv w ->
  write_value_chunks (run_calls 2) w cs = Ok (w', true) -> StepSim w dg (write_value_chunks runB (toB dg w) cs) w'.
Proof.
  intros HL Hdg Hinv. rewrite !write_value_chunks_eq. change (w_err (toB dg w)) with (w_err w).
  destruct (w_err w) eqn:He; [discriminate|].
  destruct (begin_value (run_calls 2) w) as [[w1 ok1]| | |] eqn:Eb; cbn [bind]; try discriminate.
  destruct ok1; [|unfold wvc_tail; cbn [negb]; discriminate]. intros H.
  destruct (begin_value_L runB w dg w1 HL He Hinv Eb) as (pre & r1 & E1 & (L1 & dg1 & -> & A1) & W1 & P).
  rewrite E1. cbn [bind]. eapply StepSim_tail; [exact A1|exact W1|exact P|].
  apply wvc_tail_L; [exact L1|rewrite (proj1 A1); exact Hdg|exact H].
Qed.

Lemma begin_container_L runB w dg t code w' : Lst w -> bs_code dg = None -> top_inv w ->
  begin_container (run_calls 2) w t code = Ok (w', true) -> StepSim w dg (begin_container runB (toB dg w) t code) w'.
Proof.
  intros HL Hdg Hinv. rewrite !begin_container_eq. change (w_err (toB dg w)) with (w_err w).
  destruct (w_err w) eqn:He; [discriminate|].
  destruct (begin_value (run_calls 2) w) as [[w1 ok1]| | |] eqn:Eb; cbn [bind]; try discriminate.
  destruct ok1; [|unfold bc_tail; cbn [negb]; discriminate]. intros H.
  destruct (begin_value_L runB w dg w1 HL He Hinv Eb) as (pre & r1 & E1 & (L1 & dg1 & -> & A1) & W1 & P).
  rewrite E1. cbn [bind]. eapply StepSim_tail; [exact A1|exact W1|exact P|].
  apply bc_tail_L; [exact L1|exact H].
Qed.

Lemma write_symbol_id_L runB w dg id w' : Lst w -> bs_code dg = None -> top_inv w ->
  write_symbol_id (run_calls 2) w id = Ok (w', true) -> StepSim w dg (write_symbol_id runB (toB dg w) id) w'.
Proof. unfold write_symbol_id. apply write_value_L. Qed.

(* ---- a whole value call -------------------------------------------------------------------------------------------- *)
Lemma step_value_L w dg c w' : Lst w -> bs_code dg = None -> top_inv w -> is_value_call c = true ->
  step (run_calls 2) w c = Ok (w', true) -> StepSim w dg (step (run_calls 2) (toB dg w) c) w'.
Proof.
  intros HL Hdg Hinv Hc. destruct c; try discriminate Hc; cbn [step]; change (w_err (toB dg w)) with (w_err w);
    try (apply write_value_L; assumption); try (apply write_value_chunks_L; assumption);
    try (apply begin_container_L; assumption).
  - (* NullType *) destruct (w_err w); [discriminate|]. destruct (14 <=? t); [discriminate|].
    destruct (binary_null t); cbn [bind]; try discriminate. apply write_value_L; assumption.
  - destruct (z =? 0)%Z; apply write_value_L; assumption.
  - destruct (n =? 0); apply write_value_L; assumption.
  - destruct (w_err w); [discriminate|]. destruct z as [z|]; [|discriminate].
    destruct (z =? 0)%Z; apply write_value_chunks_L; assumption.
  - destruct (f64_pos_zero bits); [apply write_value_L; assumption|].
    destruct (f64_is_nan bits); [apply write_value_L; assumption|].
    destruct (uses_f32 bits); apply write_value_L; assumption.
  - destruct (w_err w); [discriminate|]. destruct d as [d|]; [|discriminate].
    destruct (_ && _); apply write_value_L; assumption.
  - (* Symbol *) destruct (w_err w) eqn:He; [discriminate|]. destruct (tk_text t) as [x|].
    + destruct (resolve_from_table w x) as [[w1 id] ok] eqn:Er. destruct ok; cbn [negb]; [|discriminate].
      destruct (resolve_L _ dg _ _ _ HL Er) as [-> ->]. cbn [negb]. intros H.
      change (set_err (toB dg w) false) with (toB dg (set_err w false)).
      exact (write_symbol_id_L _ (set_err w false) dg id w' HL Hdg Hinv H).
    + destruct (negb (tk_sid t =? -1)%Z); [|discriminate]. apply write_symbol_id_L; assumption.
  - (* SymbolFromString *) destruct (w_err w) eqn:He; [discriminate|]. unfold resolve.
    destruct (symbol_identifier t) as [sid|].
    + cbn [negb]. intros H. change (set_err (toB dg w) false) with (toB dg (set_err w false)).
      exact (write_symbol_id_L _ (set_err w false) dg _ w' HL Hdg Hinv H).
    + destruct (resolve_from_table w t) as [[w1 id] ok] eqn:Er. destruct ok; cbn [negb]; [|discriminate].
      destruct (resolve_L _ dg _ _ _ HL Er) as [-> ->]. cbn [negb]. intros H.
      change (set_err (toB dg w) false) with (toB dg (set_err w false)).
      exact (write_symbol_id_L _ (set_err w false) dg id w' HL Hdg Hinv H).
  - destruct t; apply write_value_L; assumption.
Qed.

Lemma end_L w dg t w' : Lst w -> bs_code dg = None -> top_inv w -> t <> 0 -> (ctx_peek w <> 0 -> w_bufs w <> []) ->
  end_container w t = Ok (w', true) -> StepSim w dg (end_container (toB dg w) t) w'.
Proof.
  intros HL Hdg Hinv Ht Hne H.
  assert (Hp : ctx_peek w = t).
  { unfold end_container in H. destruct (w_err w); [discriminate|].
    destruct (ctx_peek w =? t) eqn:E; [apply N.eqb_eq; exact E|discriminate]. }
  assert (Hw : w_wrote_lst w = true).
  { destruct (w_wrote_lst w) eqn:Hw; [reflexivity|]. destruct (Hinv Hw) as [Hc _]. unfold ctx_peek in Hp.
    rewrite Hc in Hp. exfalso. apply Ht. symmetry. exact Hp. }
  destruct (end_container_L w dg t w' HL Hdg ltac:(apply Hne; rewrite Hp; exact Ht) H) as (r & E & (S & W)).
  exists [], r. split; [exact E|]. split; [exact S|]. split; [congruence|left; split; [exact Hw|reflexivity]].
Qed.
End LST.

(* ---- the lock-step invariant of the fixed-table writer ------------------------------------------------------------------ *)
Definition RelL (locals : list text) (w : wstate) (st : dstate) : Prop :=
  exists k dg bsL, Rel (toB locals k dg w) st /\ Lst locals w /\ top_inv w /\
    sink_bytes (w_out w) = flat_map batch_enc bsL ++
                           (if w_wrote_lst w then bvm ++ enc_lst locals ++ concat (bs_chunks dg) else []) /\
    (w_wrote_lst w = false -> concat (bs_chunks dg) = []) /\
    flat_map snd bsL = ds_flushed st /\ Forall batch_ok bsL /\ Forall (fun b => fst b = locals) bsL.

Lemma stk_rel_last L stack : forall done ctx bufs xf, stk_rel L done stack ctx bufs xf ->
  exists pre q, bufs = pre ++ [q] /\ bs_code q = None.
Proof.
  induction stack as [|fr rest IH]; intros done ctx bufs xf H; cbn [stk_rel] in H.
  - destruct H as (_ & q & -> & Hq). exists [], q. split; [reflexivity|]. exact (proj1 (Hq L (extends_refl L))).
  - destruct H as (qc & e & q1 & r & ctx' & pf & _ & -> & _ & _ & _ & _ & Hr).
    destruct (IH _ _ _ _ Hr) as (pre & q & E & Hq).
    destruct (fr_annots fr) as [|y a]; cbn [sbufs]; rewrite E.
    + exists (qc :: pre), q. split; [reflexivity|exact Hq].
    + exists (qc :: e :: pre), q. split; [reflexivity|exact Hq].
Qed.

(* what the growing-table side's invariant says about the fixed-table state it mirrors *)
Lemma rel_toB_shape locals k dg w st : Rel (toB locals k dg w) st ->
  bs_code dg = None /\ w_err w = false /\ (ctx_peek w <> 0 -> w_bufs w <> []) /\
  (ctx_peek w = 0 -> w_ctx w = [] /\ w_bufs w = [] /\ ds_stack st = []).
Proof.
  intros (ws & ctx & fld & a & bufs & L & Ew & _ & _ & _ & _ & _ & _ & _ & _ & Hstk).
  unfold toB, mkw in Ew. injection Ew as Ek Ec Ee Ef Ea Eb El.
  destruct (stk_rel_last _ _ _ _ _ _ Hstk) as (pre & q & E & Hq). rewrite <- Eb in E.
  apply app_inj_tail in E. destruct E as [Epre Edg]. subst q.
  destruct (stk_rel_head _ _ _ _ _ _ Hstk) as (q0 & r0 & Eb0 & _ & Htop).
  split; [exact Hq|]. split; [exact Ee|]. unfold ctx_peek. rewrite Ec. fold (ctx_top ctx). rewrite Htop.
  destruct (ds_stack st) as [|fr rest]; cbn [stack_top stk_rel] in *.
  - destruct Hstk as (Hc & q1 & Hb1 & _). split; [intros H; exfalso; apply H; reflexivity|]. intros _.
    rewrite <- Eb in Hb1. destruct (w_bufs w) as [|x [|y l]]; try discriminate Hb1. repeat split; assumption.
  - split.
    + intros _ Hn. destruct Hstk as (qc & e & q1 & r & ctx' & pf & _ & Hb1 & _). rewrite <- Eb, Hn in Hb1.
      destruct (fr_annots fr); cbn [sbufs app] in Hb1; discriminate Hb1.
    + intros H0. exfalso. destruct (fr_open fr); discriminate H0.
Qed.

Lemma dstep_flushed st c st' : dstep st c = Some st' -> c <> CFinish -> ds_flushed st' = ds_flushed st.
Proof.
  assert (PV : forall fl dn stack f v st', push_value fl dn stack f v = Some st' -> ds_flushed st' = fl)
    by (intros; eapply push_value_shape; eassumption).
  assert (SC : forall v, d_scalar st v = Some st' -> ds_flushed st' = ds_flushed st) by (intros v; apply PV).
  assert (BG : forall o, d_begin st o = Some st' -> ds_flushed st' = ds_flushed st).
  { intros o. unfold d_begin. destruct (place_ok _ _); [|discriminate]. intros H; inversion H; reflexivity. }
  assert (EN : forall c, d_end st c = Some st' -> ds_flushed st' = ds_flushed st).
  { intros c0. unfold d_end. destruct (ds_stack st) as [|fr rest]; [discriminate|].
    destruct (close (fr_open fr) c0); [apply PV|discriminate]. }
  intros H Hc. destruct c; cbn [dstep] in H; try (apply (BG _ H)); try (apply (EN _ H));
    try (match type of H with match ?x with _ => _ end = _ => destruct x eqn:Ex; [apply (SC _ H)|discriminate] end).
  - destruct (ds_stack st) as [|fr ?]; [discriminate|]. destruct (fr_open fr); try discriminate; inversion H; reflexivity.
  - inversion H; reflexivity.
  - inversion H; reflexivity.
  - exfalso. apply Hc. reflexivity.
Qed.

(* a successful call that is simulated keeps the invariant *)
Lemma relL_of_sim locals k dg bsL w st c w' : call_ok c -> c <> CFinish ->
  Rel (toB locals k dg w) st -> Lst locals w -> top_inv w ->
  sink_bytes (w_out w) = flat_map batch_enc bsL ++
                         (if w_wrote_lst w then bvm ++ enc_lst locals ++ concat (bs_chunks dg) else []) ->
  (w_wrote_lst w = false -> concat (bs_chunks dg) = []) ->
  flat_map snd bsL = ds_flushed st -> Forall batch_ok bsL -> Forall (fun b => fst b = locals) bsL ->
  StepSim locals k w dg (wstep (toB locals k dg w) c) w' ->
  exists st', dstep st c = Some st' /\ RelL locals w' st'.
Proof.
  intros Hok Hnf HR HL Hinv Hs Hd Hfl Hbo Hbl (pre & r & E & (L' & dg' & -> & (Hcode & delta & D1 & D2)) & W' & P).
  destruct (rel_step _ st c _ HR Hok Hnf E) as (st' & Hst & HR').
  exists st'. split; [exact Hst|]. exists k, dg', bsL. split; [exact HR'|]. split; [exact L'|].
  split; [intros H; rewrite W' in H; discriminate H|]. split; [|split; [|split; [|split]]].
  - rewrite W', D2, Hs, D1. destruct P as [[Pw ->]|[Pw ->]]; rewrite Pw.
    + cbn [app]. rewrite <- !app_assoc. reflexivity.
    + rewrite (Hd Pw). cbn [app]. rewrite app_nil_r, <- !app_assoc. reflexivity.
  - intros H; rewrite W' in H; discriminate H.
  - rewrite (dstep_flushed _ _ _ Hst Hnf). exact Hfl.
  - exact Hbo.
  - exact Hbl.
Qed.

Definition is_pending_call (c : wcall) : bool :=
  match c with CFieldName _ | CAnnotation _ | CAnnotations _ => true | _ => false end.

Lemma pending_L locals k dg run w c w' : is_pending_call c = true -> step run w c = Ok (w', true) ->
  step run (toB locals k dg w) c = Ok (toB locals k dg w', true) /\
  w_out w' = w_out w /\ w_wrote_lst w' = w_wrote_lst w /\ w_ctx w' = w_ctx w /\ w_bufs w' = w_bufs w /\ w_lst w' = w_lst w.
Proof.
  intros Hc. destruct c; try discriminate Hc; cbn [step]; change (w_err (toB locals k dg w)) with (w_err w);
    try change (in_struct (toB locals k dg w)) with (in_struct w); destruct (w_err w); try discriminate.
  - destruct (negb (in_struct w)); [discriminate|]. intros H; inversion H; subst. repeat split.
  - intros H; inversion H; subst. repeat split.
  - intros H; inversion H; subst. repeat split.
Qed.

Lemma relL_step locals w st c w' : RelL locals w st -> call_ok c -> c <> CFinish -> wstep w c = Ok (w', true) ->
  exists st', dstep st c = Some st' /\ RelL locals w' st'.
Proof.
  intros (k & dg & bsL & HR & HL & Hinv & Hs & Hd & Hfl & Hbo & Hbl) Hok Hnf Hstep.
  destruct (rel_toB_shape _ _ _ _ _ HR) as (Hdg & He & Hne & Htop0).
  destruct (is_pending_call c) eqn:Hp.
  - destruct (pending_L locals k dg _ w c w' Hp Hstep) as (EB & Eo & Ew & Ec & Eb & El).
    destruct (rel_step _ st c _ HR Hok Hnf EB) as (st' & Hst & HR').
    exists st'. split; [exact Hst|]. exists k, dg, bsL. split; [exact HR'|].
    split; [split; [rewrite El; exact (proj1 HL)|rewrite Eo; exact (proj2 HL)]|].
    split; [intros H; rewrite Ew in H; rewrite Ec, Eb; exact (Hinv H)|].
    split; [rewrite Eo, Ew; exact Hs|]. split; [rewrite Ew; exact Hd|].
    split; [rewrite (dstep_flushed _ _ _ Hst Hnf); exact Hfl|]. split; assumption.
  - apply (relL_of_sim locals k dg bsL w st c w'); try assumption. unfold wstep in *.
    destruct c; try discriminate Hp; try (apply step_value_L; [assumption|assumption|assumption|reflexivity|exact Hstep]).
    + cbn [step] in *. apply end_L; [assumption|assumption|assumption|discriminate|assumption|exact Hstep].
    + cbn [step] in *. apply end_L; [assumption|assumption|assumption|discriminate|assumption|exact Hstep].
    + cbn [step] in *. apply end_L; [assumption|assumption|assumption|discriminate|assumption|exact Hstep].
    + exfalso. apply Hnf. reflexivity.
Qed.

Lemma flat_enc_nil L vs : Forall wf_value vs -> flat_map (enc L) vs = [] -> vs = [].
Proof.
  intros Hw H. destruct vs as [|v vs]; [reflexivity|]. inversion Hw; subst. cbn [flat_map] in H.
  apply app_eq_nil in H. destruct H as [H _]. exfalso. eapply enc_nonempty; eassumption.
Qed.

Lemma relL_finish locals w st w' ok : RelL locals w st -> wstep w CFinish = Ok (w', ok) ->
  (ok = false /\ (w' = w \/ w_err w' = true)) \/
  (ok = true /\ w_wrote_lst w' = false /\ exists st', dstep st CFinish = Some st' /\ RelL locals w' st').
Proof.
  intros (k & dg & bsL & HR & HL & Hinv & Hs & Hd & Hfl & Hbo & Hbl) Hstep. destruct ok.
  2:{ left. split; [reflexivity|]. destruct (w_err w') eqn:E; [right; reflexivity|left].
      exact (proj1 (finish_false_sync _ _ Hstep E)). }
  right. split; [reflexivity|].
  destruct (rel_toB_shape _ _ _ _ _ HR) as (Hdg & He & Hne & Htop0).
  unfold wstep in Hstep. rewrite finish_eq in Hstep. rewrite He in Hstep.
  destruct (ctx_peek w =? 0) eqn:Ep; cbn [negb] in Hstep; [|discriminate]. apply N.eqb_eq in Ep.
  destruct (Htop0 Ep) as (Hc & Hb & Hstk0). rewrite Hb in Hstep. inversion Hstep; subst w'. clear Hstep.
  split; [reflexivity|].
  pose proof HR as HR0.
  destruct HR as (ws & ctx & fld & a & bufs & L & Ew & _ & _ & _ & _ & _ & HuL & _ & Hdwf & Hstk).
  unfold toB, mkw in Ew. injection Ew as Ek Ec Ee Ef Ea Eb El. subst L.
  rewrite Hstk0 in Hstk. cbn [stk_rel] in Hstk. destruct Hstk as (Hctx & q & Hbq & Hq).
  rewrite Hb in Eb. cbn [app] in Eb. rewrite <- Eb in Hbq. inversion Hbq; subst q. clear Hbq.
  destruct (Hq locals (extends_refl locals)) as (_ & Hbytes & _). cbn [fld_bytes] in Hbytes. rewrite app_nil_r in Hbytes.
  assert (EB : toB locals k dg w = mkw (osink ws) [] (option_map tok_text fld) (map tok_of a) [dg] locals false).
  { unfold toB, mkw. rewrite Ek, Hc, Ee, Ef, Ea, Hb. reflexivity. }
  destruct (finish_pending ws (option_map tok_text fld) (map tok_of a) dg locals Hdg) as (ws' & Hf & Hcat).
  rewrite <- EB in Hf.
  destruct (rel_finish _ st _ _ HR0 Hf) as [[Hx _]|(_ & _ & st' & Hst & HR')]; [discriminate Hx|].
  exists st'. split; [exact Hst|].
  assert (EB' : mkw (osink ws') [] None [] [new_seq None] locals false
                = toB locals (osink ws') (new_seq None) (set_wrote (clear w) false)).
  { unfold toB, mkw. cbn. rewrite Hc, Ee, Hb. reflexivity. }
  rewrite EB' in HR'.
  cbn [dstep] in Hst. rewrite Hstk0 in Hst. inversion Hst; subst st'. clear Hst.
  destruct Hdwf as (A & B & _ & _).
  exists (osink ws'), (new_seq None), (if w_wrote_lst w then bsL ++ [(locals, ds_done st)] else bsL).
  split; [exact HR'|]. split; [exact HL|]. split; [intros _; split; [exact Hc|exact Hb]|].
  cbn [ds_flushed]. change (w_out (set_wrote (clear w) false)) with (w_out w).
  change (w_wrote_lst (set_wrote (clear w) false)) with false. cbv iota.
  destruct (w_wrote_lst w) eqn:Hw.
  - split; [|split; [reflexivity|split; [|split]]].
    + rewrite Hs, flat_map_app. cbn [flat_map]. unfold batch_enc at 3. cbn [fst snd]. rewrite Hbytes, !app_nil_r. reflexivity.
    + rewrite flat_map_app, Hfl. cbn [flat_map snd]. rewrite app_nil_r. reflexivity.
    + apply Forall_app. split; [exact Hbo|]. constructor; [|constructor]. split; [exact A|]. split; [exact HuL|exact B].
    + apply Forall_app. split; [exact Hbl|]. constructor; [reflexivity|constructor].
  - assert (Hdn : ds_done st = []).
    { apply (flat_enc_nil locals); [exact A|]. rewrite <- Hbytes. apply Hd. reflexivity. }
    split; [|split; [reflexivity|split; [|split]]].
    + rewrite Hs, !app_nil_r. reflexivity.
    + rewrite Hdn, app_nil_r. exact Hfl.
    + exact Hbo.
    + exact Hbl.
Qed.

(* ---- whole call sequences ------------------------------------------------------------------------------------------------ *)
Lemma relL_run locals cs : forall w st w' oks, RelL locals w st -> Forall call_ok cs ->
  drive_results w cs = Ok (w', oks) -> w_err w' = false ->
  exists st', denote_from st cs oks = Some st' /\ RelL locals w' st'.
Proof.
  induction cs as [|c cs IH]; intros w st w' oks HR Hok Hd He; cbn [drive_results] in Hd.
  - inversion Hd; subst. exists st. split; [reflexivity|exact HR].
  - destruct (wstep w c) as [[w1 ok]| | |] eqn:Es; cbn [bind] in Hd; try discriminate.
    destruct (drive_results w1 cs) as [[w2 oks2]| | |] eqn:Ed; cbn [bind] in Hd; try discriminate.
    inversion Hd; subst w2 oks. clear Hd. inversion Hok as [|? ? Hc Hcs]; subst.
    destruct (wcall_eq_finish c) as [->|Hnf].
    + destruct (relL_finish locals w st w1 ok HR Es) as [[-> [->|He1]]|(-> & _ & st1 & Hs1 & HR1)].
      * destruct (IH w st w' oks2 HR Hcs Ed He) as (st' & Hdn & HR').
        exists st'. split; [cbn [denote_from]; exact Hdn|exact HR'].
      * exfalso. destruct (bw_sticky_seq cs w1 w' oks2 He1 Ed) as [-> _]. rewrite He in He1. discriminate He1.
      * destruct (IH w1 st1 w' oks2 HR1 Hcs Ed He) as (st' & Hdn & HR').
        exists st'. split; [cbn [denote_from]; rewrite Hs1; exact Hdn|exact HR'].
    + destruct ok.
      * destruct (relL_step locals w st c w1 HR Hc Hnf Es) as (st1 & Hs1 & HR1).
        destruct (IH w1 st1 w' oks2 HR1 Hcs Ed He) as (st' & Hdn & HR').
        exists st'. split; [cbn [denote_from]; rewrite Hs1; exact Hdn|exact HR'].
      * exfalso. pose proof (bw_error_recorded _ w c w1 Es Hnf) as He1.
        destruct (bw_sticky_seq cs w1 w' oks2 He1 Ed) as [-> _]. rewrite He in He1. discriminate He1.
Qed.

Lemma relL_init locals : Forall utf8_ok locals -> RelL locals (new_writer_lst None locals) d_init.
Proof.
  intros Hu. exists (osink []), (new_seq None), [].
  split; [|split; [split; reflexivity|split; [intros _; split; reflexivity|]]].
  - exists [], [], None, [], [new_seq None], locals. split; [reflexivity|]. split; [reflexivity|]. split; [reflexivity|].
    split; [constructor|]. split; [exact I|]. split; [intros H; exfalso; apply H; reflexivity|].
    split; [exact Hu|]. split; [exists []; repeat split; constructor|]. split.
    + repeat split; constructor.
    + cbn [stk_rel d_init ds_done ds_stack]. split; [reflexivity|]. exists (new_seq None). split; [reflexivity|].
      intros F _. apply absq_new.
  - split; [reflexivity|]. split; [intros _; reflexivity|]. split; [reflexivity|]. split; constructor.
Qed.

Lemma split_last_ok (o1 oks0 : list bool) okf : o1 ++ [okf] = oks0 ++ [true] -> o1 = oks0 /\ okf = true.
Proof. intros H. apply app_inj_tail in H. exact H. Qed.

(* the writer side of the headline, never-failing io.Writer: the sink holds one (version marker, the GIVEN table,
   values) batch per Finish that closed a non-empty batch, and the values are the denoted values *)
Theorem denote_writer_lst locals cs w oks : Forall utf8_ok locals -> Forall call_ok cs ->
  drive_results (new_writer_lst None locals) cs = Ok (w, oks) -> final_finish_ok cs oks ->
  exists vs bs, denote cs oks = Some vs /\ denote_flushed cs oks = Some vs /\
    sink_bytes (w_out w) = flat_map batch_enc bs /\ vs = flat_map snd bs /\ Forall batch_ok bs /\
    Forall (fun b => fst b = locals) bs.
Proof.
  intros Hu Hok Hd Hff. destruct (final_finish_split cs oks Hff) as (cs0 & oks0 & -> & -> & Hl).
  rewrite drive_app in Hd.
  destruct (drive_results (new_writer_lst None locals) cs0) as [[w1 o1]| | |] eqn:E1; cbn [bind] in Hd; try discriminate.
  cbn [drive_results] in Hd.
  destruct (wstep w1 CFinish) as [[w2 okf]| | |] eqn:Ef; cbn [bind] in Hd; try discriminate.
  inversion Hd as [[Hw Ho]]. subst w2. destruct (split_last_ok _ _ _ Ho) as [-> ->].
  apply Forall_app in Hok. destruct Hok as [Hok0 _].
  assert (He1 : w_err w1 = false).
  { destruct (w_err w1) eqn:E; [|reflexivity]. unfold wstep in Ef. rewrite (bw_sticky _ w1 CFinish E) in Ef. discriminate. }
  destruct (relL_run locals cs0 _ _ _ _ (relL_init locals Hu) Hok0 E1 He1) as (st1 & Hdn & HR1).
  destruct (relL_finish locals w1 st1 w true HR1 Ef) as [[Hx _]|(_ & Hwr & st2 & Hs2 & HR2)]; [discriminate|].
  assert (Hdn2 : denote_from d_init (cs0 ++ [CFinish]) (oks0 ++ [true]) = Some st2).
  { rewrite denote_from_app by exact Hl. rewrite Hdn. cbn [denote_from]. rewrite Hs2. reflexivity. }
  cbn [dstep] in Hs2. destruct (ds_stack st1); [|discriminate]. inversion Hs2; subst st2. clear Hs2.
  destruct HR2 as (k & dg & bsL & _ & _ & _ & Hs & _ & Hfl & Hbo & Hbl).
  rewrite Hwr in Hs. rewrite app_nil_r in Hs. cbn [ds_flushed] in Hfl.
  exists (ds_flushed st1 ++ ds_done st1), bsL. unfold denote, denote_flushed. rewrite Hdn2.
  cbn [ds_stack ds_flushed ds_done option_map]. rewrite app_nil_r.
  split; [reflexivity|]. split; [reflexivity|]. split; [exact Hs|]. split; [symmetry; exact Hfl|]. split; assumption.
Qed.

(* the headline, never-failing io.Writer.  When no value was written the fixed-table writer writes nothing at all
   (not even a version marker): the empty byte sequence, which holds no values *)
Theorem denote_sound_lst locals cs w oks : Forall utf8_ok locals -> Forall call_ok cs ->
  drive_results (new_writer_lst None locals) cs = Ok (w, oks) -> final_finish_ok cs oks ->
  exists vs, denote cs oks = Some vs /\ Forall wf_value vs /\
    (Forall (fun v => is_lst v = None) vs -> N.of_nat (length (sink_bytes (w_out w))) < two63 ->
     (vs = [] /\ sink_bytes (w_out w) = []) \/ sdecode (sink_bytes (w_out w)) = Some vs).
Proof.
  intros Hu Hok Hd Hff. destruct (denote_writer_lst locals cs w oks Hu Hok Hd Hff) as (vs & bs & H1 & _ & H3 & H4 & H5 & _).
  exists vs. split; [exact H1|]. split; [rewrite H4; apply batch_wf_of; exact H5|].
  intros Htop Hlen. rewrite H3 in *. rewrite H4 in *. destruct bs as [|b bs]; [left; split; reflexivity|right].
  apply sdecode_batches; [discriminate|exact H5|apply batch_top_of; exact Htop|exact Hlen].
Qed.

(* ---- every budget -------------------------------------------------------------------------------------------------------- *)
Lemma new_writer_lst_unl budget locals : unl (new_writer_lst budget locals) = new_writer_lst None locals.
Proof. reflexivity. Qed.

Theorem bw_fault_split_lst budget locals cs w1 r1 w2 r2 :
  drive_results (new_writer_lst budget locals) cs = Ok (w1, r1) ->
  drive_results (new_writer_lst None locals) cs = Ok (w2, r2) ->
  (w2 = unl w1 /\ r2 = r1) \/ fault_at (new_writer_lst budget locals) cs w1 r1 w2 r2.
Proof. apply (drive_sim_split cs (new_writer_lst budget locals)). Qed.

Theorem denote_sound_lst_budget budget locals cs w oks : Forall utf8_ok locals -> Forall call_ok cs ->
  drive_results (new_writer_lst budget locals) cs = Ok (w, oks) -> final_finish_ok cs oks ->
  drive_results (new_writer_lst None locals) cs = Ok (unl w, oks) /\
  exists vs, denote cs oks = Some vs /\ Forall wf_value vs /\
    (Forall (fun v => is_lst v = None) vs -> N.of_nat (length (sink_bytes (w_out w))) < two63 ->
     (vs = [] /\ sink_bytes (w_out w) = []) \/ sdecode (sink_bytes (w_out w)) = Some vs).
Proof.
  intros Hu Hok Hd Hff. destruct (bw_no_panic_lst cs None locals) as (w2 & r2 & H2 & _).
  destruct (bw_fault_split_lst budget locals cs w oks w2 r2 Hd H2) as [[-> ->]|F].
  - split; [exact H2|]. exact (denote_sound_lst locals cs (unl w) oks Hu Hok H2 Hff).
  - exfalso. destruct F as (cs0 & c0 & cs1 & wm & r0 & r2t & _ & _ & _ & _ & _ & _ & E & _).
    destruct (final_finish_split cs oks Hff) as (csa & oksa & _ & E2 & _). rewrite E2 in E.
    symmetry in E. exact (fault_last_false _ _ _ E).
Qed.

Corollary denote_sound_lst_budget_vals budget locals cs w oks : Forall utf8_ok locals -> Forall call_ok cs ->
  drive_results (new_writer_lst budget locals) cs = Ok (w, oks) -> final_finish_ok cs oks ->
  exists vs, denote cs oks = Some vs /\ Forall wf_value vs /\
    (Forall (fun v => is_lst v = None) vs -> N.of_nat (length (sink_bytes (w_out w))) < two63 ->
     (vs = [] /\ sink_bytes (w_out w) = []) \/ sdecode (sink_bytes (w_out w)) = Some vs).
Proof. intros H1 H2 H3 H4. exact (proj2 (denote_sound_lst_budget budget locals cs w oks H1 H2 H3 H4)). Qed.
Corollary denote_sound_lst_budget_sync budget locals cs w oks : Forall utf8_ok locals -> Forall call_ok cs ->
  drive_results (new_writer_lst budget locals) cs = Ok (w, oks) -> final_finish_ok cs oks ->
  drive_results (new_writer_lst None locals) cs = Ok (unl w, oks).
Proof. intros H1 H2 H3 H4. exact (proj1 (denote_sound_lst_budget budget locals cs w oks H1 H2 H3 H4)). Qed.
Corollary relL_lockstep locals cs w oks : Forall utf8_ok locals -> Forall call_ok cs ->
  drive_results (new_writer_lst None locals) cs = Ok (w, oks) -> w_err w = false ->
  exists st, denote_from d_init cs oks = Some st /\ RelL locals w st.
Proof. intros H1 H2 H3 H4. exact (relL_run locals cs _ _ _ _ (relL_init locals H1) H2 H3 H4). Qed.

(* a call naming text that the table does not hold fails and the error is recorded; with
   [C12_binary_final_finish_enough] (which holds from any state) the final Finish then cannot return nil *)
Theorem lst_unknown_symbol_fails locals w x : w_lst w = Some locals -> find_by_name locals true x = None ->
  w_err w = false ->
  exists w', wstep w (CSymbol (tok_text x)) = Ok (w', false) /\ w_err w' = true /\ w_out w' = w_out w /\
             (symbol_identifier x = None -> wstep w (CSymbolFromString x) = Ok (w', false)).
Proof.
  intros Hl Hf He. exists (set_err w true). unfold wstep. cbn [step tk_text tok_text]. rewrite He.
  unfold resolve, resolve_from_table. rewrite Hl, Hf. cbn [negb]. split; [reflexivity|]. split; [reflexivity|].
  split; [reflexivity|]. intros ->. reflexivity.
Qed.
