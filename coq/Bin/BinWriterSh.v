(* BinWriterSh.v — the binary Writer WITH symbol tables that have imports:
   NewBinaryWriter(out, sts...) (a symbolTableBuilder over the shared tables:
   Add looks the text up in the imports first, then in the locals, else appends
   a local) and NewBinaryWriterLST(out, lst) for any lst (imports + locals).

   The machine is Bin/BinWriter.v's: the state is a BinWriter.wstate (sink,
   context stack, buffers, pending field name/annotations, error, wroteLST;
   its w_lst/w_lstb fields are unused) next to the symbol table of
   Sym/SymTab.v, and every function that does not touch symbols (emit, write,
   end_value, the setters) is BinWriter's own.  The functions that resolve a
   symbol or write the table (resolveFromSymbolTable, beginValue, writeLST,
   lst.WriteTo with its imports list, Finish) are transcribed here over the
   SymTab table.  No proofs in this file. *)
From Coq Require Import String List NArith ZArith Bool.
From IonV Require Import Base.Wire Sym.SymTab.
From IonV Require Import Bin.Bits Data.Ion Num.Float Bin.BinWriter.
Import ListNotations.
Open Scope N_scope.

Record shw := { sw_w : wstate;
                sw_fixed : bool;        (* w.lst != nil (NewBinaryWriterLST) *)
                sw_tab : lst }.         (* w.lst, or the state of w.lstb *)
Definition upd (x : shw) (w : wstate) : shw :=
  {| sw_w := w; sw_fixed := sw_fixed x; sw_tab := sw_tab x |}.
Definition upd_tab (x : shw) (t : lst) : shw :=
  {| sw_w := sw_w x; sw_fixed := sw_fixed x; sw_tab := t |}.

(* NewBinaryWriter(out, sts...) / NewBinaryWriterLST(out, NewLocalSymbolTable(imports, locals)) *)
Definition new_writer_sh (budget : option nat) (sts : list shared) : shw :=
  {| sw_w := new_writer budget; sw_fixed := false; sw_tab := builder_new sts |}.
Definition new_writer_lst_sh (budget : option nat) (imports : list shared) (locals : list SymTab.text) : shw :=
  {| sw_w := new_writer_lst budget locals; sw_fixed := true; sw_tab := lst_new imports locals |}.

Definition sret := (shw * bool)%type.

(* resolveFromSymbolTable: id, new state, ok *)
Definition resolve_from_table_sh (x : shw) (t : SymTab.text) : shw * N * bool :=
  if sw_fixed x then
    match lst_find_by_name (sw_tab x) t with
    | Some id => (x, id, true)
    | None => (x, 0, false)
    end
  else
    let '(b, id, _) := builder_add (sw_tab x) t in (upd_tab x b, id, true).
(* resolve: "$n" text is taken as SID n, unchecked *)
Definition resolve_sh (x : shw) (t : SymTab.text) : shw * N * bool :=
  match BinWriter.symbol_identifier t with
  | Some sid => (x, of_i64 sid, true)
  | None => resolve_from_table_sh x t
  end.

(* ---- lst.WriteTo(w) as the calls it issues ------------------------------------------------ *)
(* NewSymbolToken(t, text): never fails *)
Definition st_tok (t : lst) (name : string) : tok :=
  match new_token t (s name) with
  | Ok k => {| tk_text := SymTab.tk_text k; tk_sid := SymTab.tk_sid k |}
  | _ => tok_text (s name)
  end.
Definition import_calls (t : lst) (imp : shared) : list wcall :=
  [CBeginStruct; CFieldName (st_tok t "name"); CString (sh_name imp);
   CFieldName (st_tok t "version"); CInt (sh_ver imp);
   CFieldName (st_tok t "max_id"); CUint (sh_max imp); CEndStruct].
Definition lst_calls_sh (t : lst) : list wcall :=
  if (lenN (l_imports t) =? 1) && (lenN (l_syms t) =? 0) then [] else
  [CAnnotation (tok_full (s "$ion_symbol_table"%string) 3); CBeginStruct]
  ++ (if 1 <? lenN (l_imports t)
      then [CFieldName (st_tok t "imports"); CBeginList]
           ++ flat_map (import_calls t) (tl (l_imports t)) ++ [CEndList]
      else [])
  ++ (if 0 <? lenN (l_syms t)
      then [CFieldName (st_tok t "symbols"); CBeginList] ++ map CString (l_syms t) ++ [CEndList]
      else [])
  ++ [CEndStruct].

(* ---- value framing ---------------------------------------------------------------------------- *)
Definition id_of_tok_sh (x : shw) (t : tok) : option (shw * N) :=
  match tk_text t with
  | Some tx => let '(x', id, ok) := resolve_from_table_sh x tx in if ok then Some (x', id) else None
  | None => if negb (tk_sid t =? -1)%Z then Some (x, of_i64 (tk_sid t)) else None
  end.
Fixpoint annot_ids_sh (x : shw) (ts : list tok) : shw * option (list N) :=
  match ts with
  | [] => (x, Some [])
  | t :: r => match id_of_tok_sh x t with
              | None => (x, None)
              | Some (x', id) => match annot_ids_sh x' r with
                                 | (x'', None) => (x'', None)
                                 | (x'', Some ids) => (x'', Some (id :: ids))
                                 end
              end
  end.

Definition lw (x : shw) (r : ret) : sret := (upd x (fst r), snd r).

Section MachineSh.
Variable run_lst : shw -> list wcall -> res sret.

(* writeLST(lst): BVM atom, then lst.WriteTo(w) *)
Definition write_lst_sh (x : shw) (t : lst) : res sret :=
  let '(w1, ok) := write (sw_w x) [224; 1; 0; 234] in
  if negb ok then Ok (upd x w1, false) else run_lst (upd x w1) (lst_calls_sh t).

(* beginValue *)
Definition begin_value_sh (x : shw) : res sret :=
  let name := w_field (sw_w x) in
  let annots := w_annots (sw_w x) in
  let x := upd x (clear (sw_w x)) in
  do '(x, ok) <- (if sw_fixed x && negb (w_wrote_lst (sw_w x))
                  then write_lst_sh (upd x (set_wrote (sw_w x) true)) (sw_tab x)
                  else Ok (x, true));
  if negb ok then Ok (x, false) else
  do '(x, ok) <- (if in_struct (sw_w x) then
                    match name with
                    | None => Ok (x, false)
                    | Some nm =>
                      match id_of_tok_sh x nm with
                      | None => Ok (x, false)
                      | Some (x', id) => Ok (lw x' (write (sw_w x') (append_varuint [] id)))
                      end
                    end
                  else Ok (x, true));
  if negb ok then Ok (x, false) else
  match annots with
  | [] => Ok (x, true)
  | _ =>
    match annot_ids_sh x annots with
    | (x', None) => Ok (x', false)
    | (x', Some ids) =>
      let idlen := fold_left (fun a id => a + varuint_len id) ids 0 in
      let buf := fold_left (fun b id => append_varuint b id) ids (append_varuint [] idlen) in
      Ok (lw x' (write (set_bufs (sw_w x') (new_seq (Some 224) :: w_bufs (sw_w x'))) buf))
    end
  end.

Definition serr (x : shw) (e : bool) : shw := upd x (set_err (sw_w x) e).

(* writeValue *)
Definition write_value_sh (x : shw) (val : list N) : res sret :=
  if w_err (sw_w x) then Ok (x, false) else
  do '(x, ok) <- begin_value_sh x;
  if negb ok then Ok (serr x true, false) else
  let '(x, ok) := lw x (write (sw_w x) val) in
  if negb ok then Ok (serr x true, false) else
  let '(x, ok) := lw x (end_value (sw_w x)) in
  Ok (serr x (negb ok), ok).

Definition write_value_chunks_sh (x : shw) (chunks : list (list N)) : res sret :=
  if w_err (sw_w x) then Ok (x, false) else
  do '(x, ok) <- begin_value_sh x;
  if negb ok then Ok (serr x true, false) else
  let '(w, ok) := fold_left (fun (st : ret) c => let '(w0, ok0) := st in
                               if ok0 then write w0 c else st) chunks (sw_w x, true) in
  let x := upd x w in
  if negb ok then Ok (serr x true, false) else
  let '(x, ok) := lw x (end_value (sw_w x)) in
  Ok (serr x (negb ok), ok).

Definition begin_container_sh (x : shw) (t code : N) : res sret :=
  if w_err (sw_w x) then Ok (x, false) else
  do '(x, ok) <- begin_value_sh x;
  if negb ok then Ok (serr x true, false) else
  Ok (upd x (set_bufs (set_ctx (sw_w x) (t :: w_ctx (sw_w x))) (new_seq (Some code) :: w_bufs (sw_w x))), true).

Definition end_container_sh (x : shw) (t : N) : res sret :=
  match end_container (sw_w x) t with
  | Ok r => Ok (lw x r)
  | Err => Err | Panic => Panic | OutOfFuel => OutOfFuel
  end.

Definition write_symbol_id_sh (x : shw) (id : N) : res sret :=
  write_value_sh x (append_uint (append_tag [] 112 (uint_len id)) id).

Definition step_sh (x : shw) (c : wcall) : res sret :=
  let w := sw_w x in
  match c with
  | CFieldName t =>
    if w_err w then Ok (x, false)
    else if negb (in_struct w) then Ok (serr x true, false)
    else Ok (upd x (set_pending w (Some t) (w_annots w)), true)
  | CAnnotation t =>
    if w_err w then Ok (x, false) else Ok (upd x (set_pending w (w_field w) (w_annots w ++ [t])), true)
  | CAnnotations ts =>
    if w_err w then Ok (x, false) else Ok (upd x (set_pending w (w_field w) (w_annots w ++ ts)), true)
  | CNull => write_value_sh x [15]
  | CNullType t =>
    if w_err w then Ok (x, false) else
    if 14 <=? t then Ok (serr x true, false)
    else do b <- binary_null t; write_value_sh x [b]
  | CBool b => write_value_sh x [if b then 17 else 16]
  | CInt z =>
    if (z =? 0)%Z then write_value_sh x [32] else
    let code := if (z <? 0)%Z then 48 else 32 in
    let mag := mag64 z in
    write_value_sh x (append_uint (append_tag [] code (uint_len mag)) mag)
  | CUint n =>
    if n =? 0 then write_value_sh x [32] else
    write_value_sh x (append_uint (append_tag [] 32 (uint_len n)) n)
  | CBigInt oz =>
    if w_err w then Ok (x, false) else
    match oz with
    | None => Ok (serr x true, false)
    | Some z =>
      if (z =? 0)%Z then write_value_chunks_sh x [[32]] else
      let code := if (z <? 0)%Z then 48 else 32 in
      let bs := big_bytes (Z.to_N (Z.abs z)) in
      let bl := N.of_nat (List.length bs) in
      write_value_chunks_sh x (if bl <? 64 then [append_tag [] code bl ++ bs] else [append_tag [] code bl; bs])
    end
  | CFloat bits =>
    if f64_pos_zero bits then write_value_sh x [64]
    else if f64_is_nan bits then write_value_sh x [68; 127; 192; 0; 0]
    else if uses_f32 bits then write_value_sh x (68 :: be_fixed 4 (narrow bits))
    else write_value_sh x (72 :: be_fixed 8 bits)
  | CDecimal od =>
    if w_err w then Ok (x, false) else
    match od with
    | None => Ok (serr x true, false)
    | Some d =>
      if (d_coef d =? 0)%Z && (d_exp d =? 0)%Z && negb (d_negzero d) then write_value_sh x [80] else
      let vlength := varint_len (d_exp d) + (if d_negzero d then 1 else bigint_len (d_coef d)) in
      let buf := append_varint (append_tag [] 80 vlength) (d_exp d) in
      write_value_sh x (if d_negzero d then buf ++ [128] else append_bigint buf (d_coef d))
    end
  | CTimestamp len body => write_value_sh x (append_tag [] 96 len ++ body)
  | CSymbol t =>
    if w_err w then Ok (x, false) else
    match tk_text t with
    | Some tx =>
      let '(x', id, ok) := resolve_from_table_sh x tx in
      let x' := serr x' (negb ok) in
      if negb ok then Ok (x', false) else write_symbol_id_sh x' id
    | None =>
      if negb (tk_sid t =? -1)%Z then write_symbol_id_sh x (of_i64 (tk_sid t))
      else Ok (serr x true, false)
    end
  | CSymbolFromString tx =>
    if w_err w then Ok (x, false) else
    let '(x', id, ok) := resolve_sh x tx in
    let x' := serr x' (negb ok) in
    if negb ok then Ok (x', false) else write_symbol_id_sh x' id
  | CString tx =>
    match tx with
    | [] => write_value_sh x [128]
    | _ => write_value_sh x (append_tag [] 128 (N.of_nat (List.length tx)) ++ tx)
    end
  | CClob b => write_value_chunks_sh x (lob_chunks 144 b)
  | CBlob b => write_value_chunks_sh x (lob_chunks 160 b)
  | CBeginList => begin_container_sh x ctxList 176
  | CEndList => end_container_sh x ctxList
  | CBeginSexp => begin_container_sh x ctxSexp 192
  | CEndSexp => end_container_sh x ctxSexp
  | CBeginStruct => begin_container_sh x ctxStruct 208
  | CEndStruct => end_container_sh x ctxStruct
  | CFinish =>
    if w_err w then Ok (x, false) else
    if negb (ctx_peek w =? 0) then Ok (x, false) else
    let w := set_wrote (clear w) false in
    match w_bufs w with
    | [] => Ok (upd x w, true)
    | q :: rest =>
      match rest with
      | _ :: _ => Panic
      | [] =>
        let x := upd x (set_bufs w []) in
        (* lst := w.lstb.Build(); w.err = writeLST(lst) *)
        do '(x, ok) <- write_lst_sh x (builder_build (sw_tab x));
        if negb ok then Ok (serr x true, false) else
        let '(x, ok) := lw x (emit (sw_w x) (node_of_seq q)) in
        if negb ok then Ok (serr x true, false) else
        Ok (upd x (set_bufs (sw_w x) [new_seq None]), true)
      end
    end
  end.
End MachineSh.

Fixpoint run_calls_sh (fuel : nat) : shw -> list wcall -> res sret :=
  match fuel with
  | O => fun _ _ => OutOfFuel
  | S f =>
    fix go (x : shw) (cs : list wcall) : res sret :=
      match cs with
      | [] => Ok (x, true)
      | c :: r =>
        do '(x', ok) <- step_sh (run_calls_sh f) x c;
        if ok then go x' r else Ok (x', false)
      end
  end.
Definition wstep_sh (x : shw) (c : wcall) : res sret := step_sh (run_calls_sh 2) x c.

Fixpoint drive_sh (x : shw) (cs : list wcall) (acc : list bool) : res (shw * list bool) :=
  match cs with
  | [] => Ok (x, rev_append acc [])
  | c :: r => do '(x', ok) <- wstep_sh x c; drive_sh x' r (ok :: acc)
  end.
