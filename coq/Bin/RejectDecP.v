(* RejectDecP.v — decimals: inversion of the stream's VarInt reader against the restricted decoder's [lim_varint]; a decimal
   whose exponent is malformed or outside int32 is an error. *)
From Coq Require Import String List NArith ZArith Bool Lia ZifyBool ZifyN ZifyNat.
From IonV Require Import Base.Wire Base.Utf8 Bin.Bits Bin.BitsP Data.Ion Num.Float Bin.BitStream Bin.BinReader
  Bin.BitStreamP Bin.BitStreamNextP Bin.BinWriter Bin.SpecBin Bin.RoundTripBin Bin.RoundTripBinS Bin.BitEvalP
  Bin.BitEvalAnnP Bin.ReaderTrace Bin.BinReaderInvP Bin.BinReaderP Bin.ReaderTraceP Bin.ReaderTopP
  Bin.ReaderLstP Bin.SpecLim Bin.SpecLimP Bin.SpecLimAppP Bin.BitEvalGenP Bin.SpecAgreeP Bin.RejectVarP.
Import ListNotations.
Open Scope N_scope.
Ltac Zify.zify_post_hook ::= Z.div_mod_to_equations.

Ltac bsimpl :=
  cbn [b_in b_ioerr b_pos b_state b_stack b_code b_null b_len b_alloc b_avail b_fuel
       upd_in upd_state upd_stack upd_cur upd_alloc b_clear done_value fst snd] in *.

Lemma i64_roundtrip z : (- 9223372036854775808 < z < 9223372036854775808)%Z -> to_i64 (of_i64 z) = z.
Proof.
  intros H. unfold to_i64, of_i64, two63, two64.
  destruct (Z.to_N (z mod Z.of_N 18446744073709551616) <? 9223372036854775808) eqn:E; lia.
Qed.

Lemma varint_loop_inv fuel : forall b max val len neg b' v ng n,
  b_varint_loop fuel b max val len neg = (b', Ok (v, ng, n)) -> Forall (fun c => c < 256) (b_in b) ->
  exists m, sp_varuint (b_in b) val = Some (m, b_in b') /\ v = (if neg then - Z.of_N m else Z.of_N m)%Z /\ ng = neg /\
            n <= max /\ len < n /\ N.of_nat (length (b_in b)) = N.of_nat (length (b_in b')) + (n - len).
Proof.
  induction fuel as [|f IH]; intros b max val len neg b' v ng n; cbn [b_varint_loop]; [discriminate|].
  destruct (max <=? len) eqn:E0; [discriminate|].
  unfold b_read1, b_read. destruct (b_in b) as [|c r] eqn:Ein.
  { destruct (b_ioerr b); discriminate. }
  destruct (max_i64_shr7 <? val) eqn:Em; [discriminate|]. intros H Hb. inversion Hb as [|? ? Hc Hr]; subst.
  unfold max_i64_shr7 in Em. cbn [sp_varuint].
  assert (Ew : wrap64 (val * 128) + c mod 128 = val * 128 + c mod 128) by (rewrite wrap_small; [reflexivity|unfold two64; lia]).
  rewrite Ew in H. destruct (128 <=? c) eqn:Es.
  - inversion H; subst. bsimpl. replace (c - 128) with (c mod 128) by lia.
    exists (val * 128 + c mod 128). split; [reflexivity|]. split.
    { rewrite (to_i64_small (val * 128 + c mod 128)) by (unfold two63; lia). rewrite i64_roundtrip by (destruct ng; lia). destruct ng; lia. }
    split; [reflexivity|]. split; [lia|]. split; [lia|]. cbn [length]. lia.
  - replace (c mod 128) with c in H by lia.
    destruct (IH _ _ _ _ _ _ _ _ _ H) as (m & Q1 & Q2 & Q3 & Q4 & Q5 & Q6); [bsimpl; exact Hr|]. bsimpl.
    exists m. split; [exact Q1|]. split; [exact Q2|]. split; [exact Q3|]. split; [exact Q4|]. split; [lia|]. cbn [length]. lia.
Qed.

Lemma read_varint_inv b max b' v ng n : b_read_varint b max = (b', Ok (v, ng, n)) -> Forall (fun c => c < 256) (b_in b) ->
  sp_varint (b_in b) = Some (v, ng, b_in b') /\ n <= max /\ n <= 10 /\
  N.of_nat (length (b_in b)) = N.of_nat (length (b_in b')) + n.
Proof.
  unfold b_read_varint. destruct (max =? 0) eqn:E0; [discriminate|].
  unfold b_read1, b_read. destruct (b_in b) as [|c r] eqn:Ein.
  { destruct (b_ioerr b); discriminate. }
  intros H Hb. inversion Hb as [|? ? Hc Hr]; subst. cbn [sp_varint].
  destruct (128 <=? c) eqn:Es.
  - inversion H; subst. bsimpl. split; [reflexivity|]. split; [lia|]. split; [lia|]. cbn [length]. lia.
  - destruct (varint_loop_inv _ _ _ _ _ _ _ _ _ _ H) as (m & Q1 & Q2 & Q3 & Q4 & Q5 & Q6); [bsimpl; exact Hr|]. bsimpl.
    rewrite Q1. subst v ng. split; [reflexivity|]. split; [lia|]. split; [lia|]. cbn [length]. lia.
Qed.

Lemma sp_varint_prefix l z v ng r' : sp_varint (l ++ z) = Some (v, ng, r') ->
  (length (l ++ z) - length r' <= length l)%nat -> exists r, sp_varint l = Some (v, ng, r) /\ r' = r ++ z.
Proof.
  destruct l as [|c l]; intros H Hl.
  - cbn [app] in *. exfalso. unfold sp_varint in H. destruct z as [|c z']; [discriminate|].
    destruct (128 <=? c).
    + inversion H; subst. cbn [length] in Hl. lia.
    + destruct (sp_varuint z' (c mod 64)) as [[m r0]|] eqn:E; [|discriminate]. inversion H; subst.
      destruct (sp_varuint_suffix _ _ _ _ E) as (ds & E1 & _ & _). rewrite E1 in Hl. cbn [length] in Hl. rewrite app_length in Hl. lia.
  - cbn [app sp_varint] in *. destruct (128 <=? c).
    + inversion H; subst. exists l. auto.
    + destruct (sp_varuint (l ++ z) (c mod 64)) as [[m r0]|] eqn:E; [|discriminate]. inversion H; subst.
      destruct (sp_varuint_prefix l z _ _ _ E) as (r & Er & Ez).
      { destruct (sp_varuint_suffix _ _ _ _ E) as (ds & E1 & _ & _). cbn [length] in Hl. rewrite E1, app_length in *. lia. }
      rewrite Er. exists r. auto.
Qed.

Section Dec.
Variable tot : N.
Hypothesis Htot : tot < two63.

Lemma read_decimal_rej b body rest stk : Forall (fun c => c < 256) (body ++ rest) -> body <> [] ->
  lim_varint body = None ->
  BS b (body ++ rest) bssOnValue stk tot -> b_len b = N.of_nat (length body) -> b_code b = bcDecimal ->
  exists b', b_read_decimal b = (b', Err).
Proof.
  intros Hby Hne Hlim Hb El Ec. pose proof Hb as [I Ein St Es Nl Nw]. pose proof (bcore_avail _ (proj1 I)) as A.
  assert (Hpos : 0 < b_len b) by (rewrite El; destruct body; [contradiction|cbn [length]; lia]).
  unfold b_read_decimal. rewrite Ec. change (negb (bcDecimal =? bcDecimal)) with false. cbv iota.
  unfold b_read_decimal_len. replace (0 <? b_len b) with true by lia.
  destruct (b_read_varint_spec b (b_len b) A) as [(_ & Np & _) Nf].
  destruct (b_read_varint b (b_len b)) as [b1 [[[v ng] vlen]| | |]] eqn:E; cbn [snd] in *; try contradiction;
    [|eexists; reflexivity].
  destruct (read_varint_inv _ _ _ _ _ _ E ltac:(rewrite Ein; exact Hby)) as (Q1 & Q2 & Q3 & Q4).
  rewrite Ein in Q1, Q4.
  destruct (sp_varint_prefix body rest v ng (b_in b1) Q1 ltac:(lia)) as (r & Er & Ez).
  unfold lim_varint in Hlim. rewrite Er in Hlim.
  assert (Hn : N.of_nat (length body - length r) = vlen).
  { rewrite Ez, !app_length in Q4.
    assert (length r <= length body)%nat.
    { clear - Er. unfold sp_varint in Er. destruct body as [|c l]; [discriminate|]. destruct (128 <=? c).
      - inversion Er; subst. cbn [length]. lia.
      - destruct (sp_varuint l (c mod 64)) as [[m r0]|] eqn:E; [|discriminate]. inversion Er; subst.
        destruct (sp_varuint_suffix _ _ _ _ E) as (ds & E1 & _ & _). rewrite E1. cbn [length]. rewrite app_length. lia. }
    lia. }
  rewrite Hn in Hlim. replace (vlen <=? 10) with true in Hlim by lia. cbn [andb] in Hlim.
  destruct ((-2147483648 <=? v)%Z && (v <=? 2147483647)%Z) eqn:Er2; [discriminate|].
  replace ((2147483647 <? v)%Z || (v <? -2147483648)%Z) with true by lia. eexists; reflexivity.
Qed.

Lemma raw_rej_decimal ts api fuel r b1 ctx f tag r0 outer stk len r1 body rest :
  Forall (fun c => c < 256) (tag :: r0) -> Forall (fun c => c < 256) outer -> tag / 16 = 5 -> tag mod 16 <> 15 ->
  (if (tag mod 16 =? 14) || ((tag / 16 =? 13) && (tag mod 16 =? 1)) then lim_varuint r0 else Some (tag mod 16, r0)) = Some (len, r1) ->
  take_n len r1 = Some (body, rest) -> sl_value ts (S f) ctx (tag :: r0) = None ->
  BS b1 ((tag :: r0) ++ outer) bssBeforeValue stk tot -> top_ok tot stk outer -> b_next (r_bits r) = b_next b1 ->
  exists r1, r_next_raw ts api fuel r = (r1, Err).
Proof.
  intros Hb Hbo Ht Hlo Elen Etk Hsp Hb1 T Hn. inversion Hb as [|? ? Htag Hr0]; subst.
  assert (Es0 : ((tag / 16 =? 13) && (tag mod 16 =? 1)) && (len =? 0) = false) by lia.
  destruct (hdr_spec ts tot Htot b1 tag r0 len r1 body rest outer stk Htag Hr0 ltac:(lia) Hlo ltac:(lia) Elen Es0 Etk ltac:(lia) Hb1 T)
    as (b' & E1 & Hb' & Ec & El & Elb & Hbb & Hbr).
  rewrite <- Hn in E1. pose proof (bs_null _ _ _ _ _ Hb') as Nl.
  cbn [sl_value] in Hsp. cbv zeta in Hsp.
  replace (tag / 16 =? 15) with false in Hsp by lia. replace (tag mod 16 =? 15) with false in Hsp by lia.
  replace (tag / 16 =? 1) with false in Hsp by lia. rewrite Elen in Hsp. rewrite Es0, Etk in Hsp.
  rewrite Ht in Hsp, Ec. cbn [N.eqb Pos.eqb] in Hsp. cbn [bitcode_of_high N.eqb Pos.eqb] in Ec.
  destruct body as [|c0 body']; [discriminate|].
  destruct (lim_varint (c0 :: body')) as [[[e ng] cb]|] eqn:Ev; [destruct (sp_int cb); discriminate|].
  destruct (read_decimal_rej b' (c0 :: body') (rest ++ outer) stk) as (b'' & Er); auto; [|discriminate|].
  { apply Forall_app; split; [exact Hbb|apply Forall_app; split; assumption]. }
  unfold r_next_raw. rewrite E1. cbv zeta. rewrite Nl, Ec.
  cbn [N.eqb Pos.eqb orb andb negb bcEOF bcBVM bcFieldID bcAnnotation bcNull bcFalse bcTrue bcInt bcNegInt bcFloat bcDecimal].
  unfold lift. rewrite Er. eexists; reflexivity.
Qed.
End Dec.
