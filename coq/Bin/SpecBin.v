(* SpecBin.v — SPECIFICATION: a strict decoder of Ion 1.0 binary written from the
   format description (T/L tags, VarUInt lengths, exact filling of containers, the
   BVM, local symbol tables), sharing nothing with the reader model.  It judges
   the writer's output in C04/C11/C12 and is the reference in C03/C07.  No proofs. *)
From Coq Require Import String List NArith ZArith Bool.
From IonV Require Import Base.Wire Base.Utf8 Data.Ion Num.Float.
Import ListNotations.
Open Scope N_scope.

(* ---- primitive fields, by the book ----------------------------------------------------- *)
(* the first n bytes and the rest; None when fewer than n are left (n may be astronomically large) *)
Fixpoint take_n_aux (l : list N) (n : N) (acc : list N) : option (list N * list N) :=
  if n =? 0 then Some (rev_append acc [], l) else
  match l with
  | [] => None
  | x :: r => take_n_aux r (n - 1) (x :: acc)
  end.
Definition take_n (n : N) (l : list N) : option (list N * list N) := take_n_aux l n [].

(* VarUInt: big-endian 7-bit groups, the last one flagged; any number of groups *)
Fixpoint sp_varuint (l : list N) (acc : N) : option (N * list N) :=
  match l with
  | [] => None
  | c :: r => if 128 <=? c then Some (acc * 128 + (c - 128), r) else sp_varuint r (acc * 128 + c)
  end.
(* VarInt: sign in bit 6 of the first group *)
Definition sp_varint (l : list N) : option (Z * bool * list N) :=
  match l with
  | [] => None
  | c :: r =>
    let neg := 64 <=? c mod 128 in
    let first := c mod 64 in
    if 128 <=? c then Some ((if neg then - Z.of_N first else Z.of_N first)%Z, neg, r)
    else match sp_varuint r first with
         | Some (m, r') => Some ((if neg then - Z.of_N m else Z.of_N m)%Z, neg, r')
         | None => None
         end
  end.
Definition sp_uint (l : list N) : N := fold_left (fun a b => a * 256 + b) l 0.
(* Int: sign-magnitude, sign in the top bit of the first octet; returns value and "is negative zero" *)
Definition sp_int (l : list N) : Z * bool :=
  match l with
  | [] => (0%Z, false)
  | c :: r => let neg := 128 <=? c in
              let m := sp_uint (c mod 128 :: r) in
              ((if neg then - Z.of_N m else Z.of_N m)%Z, neg && (m =? 0))
  end.

(* ---- symbol context ----------------------------------------------------------------------- *)
(* a context is a sequence of segments: explicit slots (None = a slot whose text is unknown), or a run of n slots
   of unknown text (what an import leaves that no catalog resolves; n may be astronomically large, so it is
   never spelled out).  Slot i (0-based) is SID i+1. *)
Inductive seg := Slots (l : list (option text)) | Gap (n : N).
Definition symctx := list seg.
Definition system_ctx : symctx := [Slots (map Some system_symbols)].
Definition seg_size (g : seg) : N := match g with Slots l => N.of_nat (length l) | Gap n => n end.
Definition ctx_size (ctx : symctx) : N := fold_right (fun g a => seg_size g + a) 0 ctx.
Fixpoint ctx_slot (ctx : symctx) (i : N) : option (option text) :=
  match ctx with
  | [] => None                                         (* SID not defined by any table so far *)
  | g :: r =>
    if i <? seg_size g then match g with Slots l => nth_error l (N.to_nat i) | Gap _ => Some None end
    else ctx_slot r (i - seg_size g)
  end.
Definition resolve_sid (ctx : symctx) (sid : N) : option symv :=
  if sid =? 0 then Some (SymSid 0)
  else match ctx_slot ctx (sid - 1) with
       | Some (Some t) => Some (SymText t)
       | Some None => Some (SymSid sid)
       | None => None
       end.

(* ---- values ------------------------------------------------------------------------------------ *)
Definition null_type (t : N) : option N :=
  if t =? 0 then Some 1 else if t =? 1 then Some 2 else if t =? 2 then Some 3 else if t =? 4 then Some 4
  else if t =? 5 then Some 5 else if t =? 6 then Some 6 else if t =? 7 then Some 7 else if t =? 8 then Some 8
  else if t =? 9 then Some 9 else if t =? 10 then Some 10 else if t =? 11 then Some 11 else if t =? 12 then Some 12
  else if t =? 13 then Some 13 else None.            (* 3 (negative int) has no null; 14, 15 invalid *)

(* repeat a one-item decoder until the slice is used up exactly *)
Fixpoint sp_items {A} (item : list N -> option (option A * list N)) (k : nat) (l : list N)
  : option (list A) :=
  match l with
  | [] => Some []
  | _ => match k with
         | O => None
         | S k' => match item l with
                   | Some (Some a, r) => option_map (cons a) (sp_items item k' r)
                   | Some (None, r) => sp_items item k' r
                   | None => None
                   end
         end
  end.

Fixpoint sp_annots (ctx : symctx) (k : nat) (l : list N) : option (list symv) :=
  match l with
  | [] => Some []
  | _ => match k with
         | O => None
         | S k' => match sp_varuint l 0 with
                   | Some (sid, r) =>
                     match resolve_sid ctx sid, sp_annots ctx k' r with
                     | Some y, Some ys => Some (y :: ys)
                     | _, _ => None
                     end
                   | None => None
                   end
         end
  end.

(* one value (or one NOP pad = [None]) from the front of [l]; [top] allows nothing special here *)
Fixpoint sp_value (fuel : nat) (ctx : symctx) (l : list N) : option (option value * list N) :=
  match fuel with
  | O => None
  | S f =>
    match l with
    | [] => None
    | tag :: r0 =>
      let t := tag / 16 in
      let lo := tag mod 16 in
      if t =? 15 then None else
      if lo =? 15 then
        match null_type t with Some ty => Some (Some (VNull ty), r0) | None => None end
      else if (t =? 1) then                                 (* bool: L is the value *)
        if lo =? 0 then Some (Some (VBool false), r0)
        else if lo =? 1 then Some (Some (VBool true), r0) else None
      else
      (* length: inline, or VarUInt when L = 14 (and always for a struct with L = 1) *)
      let sorted := (t =? 13) && (lo =? 1) in
      match (if (lo =? 14) || sorted then sp_varuint r0 0 else Some (lo, r0)) with
      | None => None
      | Some (len, r1) =>
        if sorted && (len =? 0) then None else
        match take_n len r1 with
        | None => None
        | Some (body, rest) =>
          let ret v := Some (Some v, rest) in
          let blen := length body in
          if t =? 0 then Some (None, rest)                  (* NOP pad *)
          else if t =? 2 then ret (VInt (Z.of_N (sp_uint body)))
          else if t =? 3 then
            (if sp_uint body =? 0 then None else ret (VInt (- Z.of_N (sp_uint body))))
          else if t =? 4 then
            (if len =? 0 then ret (VFloat 0)
             else if len =? 4 then ret (VFloat (widen (sp_uint body)))   (* binary32: exact widening (Num/Float.v, tied by K10) *)
             else if len =? 8 then ret (VFloat (sp_uint body)) else None)
          else if t =? 5 then
            (match body with
             | [] => ret (VDecimal {| d_coef := 0; d_exp := 0; d_negzero := false |})
             | _ => match sp_varint body with
                    | Some (e, _, cb) =>
                      let '(c, nz) := sp_int cb in
                      ret (VDecimal {| d_coef := c; d_exp := e; d_negzero := nz |})
                    | None => None
                    end
             end)
          else if t =? 6 then ret (VTimestamp body)
          else if t =? 7 then
            (match resolve_sid ctx (sp_uint body) with Some y => ret (VSymbol y) | None => None end)
          else if t =? 8 then (if utf8_valid body then ret (VString body) else None)
          else if t =? 9 then ret (VClob body)
          else if t =? 10 then ret (VBlob body)
          else if t =? 11 then option_map (fun vs => (Some (VList vs), rest)) (sp_items (sp_value f ctx) blen body)
          else if t =? 12 then option_map (fun vs => (Some (VSexp vs), rest)) (sp_items (sp_value f ctx) blen body)
          else if t =? 13 then
            option_map (fun fs => (Some (VStruct fs), rest))
              (sp_items (fun l' =>
                 match sp_varuint l' 0 with
                 | None => None
                 | Some (sid, r') =>
                   match sp_value f ctx r' with
                   | Some (Some v, r'') =>
                     match resolve_sid ctx sid with
                     | Some y => Some (Some (y, v), r'')
                     | None => None
                     end
                   | Some (None, r'') => Some (None, r'')     (* NOP pad inside a struct: any field id *)
                   | None => None
                   end
                 end) blen body)
          else if t =? 14 then
            (* annotation wrapper: annot_length, annotations, exactly one value that is
               neither a wrapper nor a NOP pad *)
            (if len <? 3 then None else
             match sp_varuint body 0 with
             | None => None
             | Some (alen, r2) =>
               if alen =? 0 then None else
               match take_n alen r2 with
               | None => None
               | Some (ab, vb) =>
                 match sp_annots ctx (length ab) ab, vb with
                 | Some ys, vt :: _ =>
                   if (vt / 16 =? 14) then None else
                   match sp_value f ctx vb with
                   | Some (Some v, []) => ret (VAnn ys v)
                   | _ => None
                   end
                 | _, _ => None
                 end
               end
             end)
          else None
        end
      end
    end
  end.

(* ---- local symbol tables --------------------------------------------------------------------------- *)
Definition is_lst (v : value) : option (list (symv * value)) :=
  match v with
  | VAnn (SymText t :: _) (VStruct fs) =>
    if list_eqb t (s "$ion_symbol_table"%string) then Some fs else None
  | _ => None
  end.
Definition field_is (y : symv) (name : string) : bool :=
  match y with SymText t => list_eqb t (s name) | SymSid _ => false end.
Fixpoint find_field (fs : list (symv * value)) (name : string) : option value :=
  match fs with
  | [] => None
  | (y, v) :: r => if field_is y name then Some v else find_field r name
  end.
Definition strip_ann (v : value) : value := match v with VAnn _ x => x | _ => v end.
Definition count_field (fs : list (symv * value)) (name : string) : nat :=
  length (filter (fun p => field_is (fst p) name) fs).
Definition lst_symbols (v : option value) : list (option text) :=
  match option_map strip_ann v with
  | Some (VList l) => map (fun x => match strip_ann x with VString t => Some t | _ => None end) l
  | _ => []
  end.
(* one import declaration when there is no catalog; None = the stream is invalid.  Of repeated fields the first
   counts; null and ill-typed fields count as absent, except max_id: null.int, which is an error; the version
   plays no role without a catalog *)
Definition import_slots (v : value) : option symctx :=
  match strip_ann v with
  | VStruct fs =>
    let name := match option_map strip_ann (find_field fs "name") with Some (VString nm) => nm | _ => [] end in
    let maxid := option_map strip_ann (find_field fs "max_id") in
    if match maxid with Some (VNull t) => t =? TInt | _ => false end then None      (* max_id: null.int *)
    else if list_eqb name (s "$ion"%string) || list_eqb name [] then Some []        (* ignored *)
    else match maxid with
         | Some (VInt m) => if (m <? 0)%Z then None else Some [Gap (Z.to_N m)]      (* placeholder slots *)
         | _ => None                               (* no usable max_id and no catalog: an error *)
         end
  | _ => Some []                                 (* not a declaration (also null.struct): ignored *)
  end.
Fixpoint imports_slots (l : list value) : option symctx :=
  match l with
  | [] => Some []
  | d :: r => match import_slots d, imports_slots r with Some a, Some b => Some (a ++ b) | _, _ => None end
  end.
(* the context a table struct installs; None = the stream is invalid.  Fields whose name has no text take no
   part; a repeated symbols or imports field is an error *)
Definition apply_lst (ctx : symctx) (fs : list (symv * value)) : option symctx :=
  if (1 <? count_field fs "symbols")%nat || (1 <? count_field fs "imports")%nat then None else
  let syms := [Slots (lst_symbols (find_field fs "symbols"))] in
  match option_map strip_ann (find_field fs "imports") with
  | Some (VSymbol (SymText t)) =>
    if list_eqb t (s "$ion_symbol_table"%string) then Some (ctx ++ syms) else Some (system_ctx ++ syms)
  | Some (VList imps) => option_map (fun i => system_ctx ++ i ++ syms) (imports_slots imps)
  | _ => Some (system_ctx ++ syms)
  end.

(* ---- streams -------------------------------------------------------------------------------------------- *)
Fixpoint sp_stream (k : nat) (ctx : symctx) (l : list N) : option (list value) :=
  match l with
  | [] => Some []
  | _ =>
    match k with
    | O => None
    | S k' =>
      match l with
      | 224 :: 1 :: 0 :: 234 :: r => sp_stream k' system_ctx r         (* version marker: reset *)
      | _ =>
        match sp_value k ctx l with      (* k >= bytes left >= nesting depth *)
        | Some (None, r) => sp_stream k' ctx r
        | Some (Some v, r) =>
          match is_lst v with
          | Some fs => match apply_lst ctx fs with Some ctx' => sp_stream k' ctx' r | None => None end
          | None => option_map (cons v) (sp_stream k' ctx r)
          end
        | None => None
        end
      end
    end
  end.

(* a binary stream must open with the version marker *)
Definition sdecode (l : list N) : option (list value) :=
  match l with
  | 224 :: 1 :: 0 :: 234 :: r => sp_stream (length l) system_ctx r
  | _ => None
  end.
