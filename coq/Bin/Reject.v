(* Reject.v — definitions for the rejection half of C07 on the binary models: "a byte string the specification
   decoder rejects is not traversed to a clean end".
   * [ends_in_error] / [ends_clean]: the last token of the full traversal's trace is the final Err() call (e1 / e0);
   * [sj_stream] / [sjudge]: the guarded specification decoder of Bin/SpecLim.v as a three-valued judge:
       VAcc vs  the stream is accepted with values vs (exactly [sdecode_lim] = Some vs),
       VRej     every item up to some top-level item is accepted (values, pads, version markers, local symbol tables
                within the limits of C03) and that item is rejected by the decoder AND lies in the covered class [cov],
       VOut     the first rejected item is outside the covered class, or a value the reader takes for a local symbol
                table is outside the limits of C03 ([lst_gate] = None: the known findings of C03/C07/C10 and
                $ion_symbol_table::null.struct);
   * the classes [cov_*] of malformed top-level items.
   No proofs. *)
From Coq Require Import String List NArith ZArith Bool.
From IonV Require Import Base.Wire Base.Utf8 Bin.Bits Data.Ion Num.Float Bin.SpecBin Bin.BitStream Bin.BinReader Bin.SpecLim.
Import ListNotations.
Open Scope N_scope.

Definition ends_in_error (t : list (list N)) : Prop := last t [] = [101; 49].
Definition ends_clean (t : list (list N)) : Prop := last t [] = [101; 48].

Inductive verdict := VAcc (vs : list value) | VRej | VOut.
Definition vcons (v : value) (x : verdict) : verdict := match x with VAcc vs => VAcc (v :: vs) | o => o end.

Section Judge.
Variable ts : list N -> res unit.
(* the covered class; its first argument is the decoder's fuel at the item *)
Variable cov : nat -> symctx -> list N -> bool.

Fixpoint sj_stream (k : nat) (ctx : symctx) (l : list N) : verdict :=
  match l with
  | [] => VAcc []
  | _ =>
    match k with
    | O => VOut
    | S k' =>
      match l with
      | 224 :: 1 :: 0 :: 234 :: r => sj_stream k' system_ctx r
      | _ =>
        match sl_value ts k ctx l with
        | Some (None, r) => sj_stream k' ctx r
        | Some (Some v, r) =>
          match lst_gate ctx v with
          | None => VOut
          | Some None => vcons v (sj_stream k' ctx r)
          | Some (Some ctx') => sj_stream k' ctx' r
          end
        | None => if cov k ctx l then VRej else VOut
        end
      end
    end
  end.
(* the binary reader is only created for an input that opens with the version marker (NewReader dispatches on it) *)
Definition sjudge (l : list N) : verdict :=
  match l with
  | 224 :: 1 :: 0 :: 234 :: r => sj_stream (length l) system_ctx r
  | _ => VOut
  end.
End Judge.

(* ---- covered classes of malformed items ------------------------------------------------------------------------------ *)
(* the item's tag alone is illegal: high nibble 15, 0x3F (null for the negative int type), 0xEF, a bool whose low
   nibble is neither 0, 1 nor 15 *)
Definition bad_tag (tag : N) : bool :=
  let t := tag / 16 in let lo := tag mod 16 in
  (t =? 15) || ((lo =? 15) && ((t =? 3) || (t =? 14))) || ((t =? 1) && negb ((lo =? 0) || (lo =? 1) || (lo =? 15))).
(* header (tag, length) and body of an item with a length, when both are present in [l] *)
Definition hdr_of (l : list N) : option (N * list N * list N) :=
  match l with
  | [] => None
  | tag :: r0 =>
    match (if tag mod 16 =? 14 then lim_varuint r0 else Some (tag mod 16, r0)) with
    | Some (len, r1) => match take_n len r1 with Some (body, rest) => Some (len, body, rest) | None => None end
    | None => None
    end
  end.
(* a scalar (int, float, timestamp, symbol, string, lob — not a decimal) whose length field and body are present *)
Definition scalar_present (l : list N) : bool :=
  match l with
  | [] => false
  | tag :: _ =>
    let t := tag / 16 in
    negb (tag mod 16 =? 15) && (2 <=? t) && (t <=? 10) && negb (t =? 5) &&
    match hdr_of l with Some _ => true | None => false end
  end.
(* class S1: a top-level item with an illegal tag, or a scalar with its body present that the decoder rejects
   (negative zero, a float of length other than 0/4/8, a timestamp body the body parser rejects, a symbol value of more
   than 8 octets or with an undefined symbol ID, a string that is not UTF-8) *)
Definition cov_scalar (f : nat) (ctx : symctx) (l : list N) : bool :=
  match l with
  | [] => false
  | tag :: _ => bad_tag tag || scalar_present l
  end.

(* class S2 (contains S1): an S1 item, or a list / s-expression whose length field and body are present and whose first
   rejected element — found by decoding the elements before it, which may be values of any shape — is again in S2 *)
Section Deep.
Variable ts : list N -> res unit.
Fixpoint first_bad (item : list N -> option (option value * list N)) (bad : list N -> bool) (k : nat) (l : list N) : bool :=
  match l with
  | [] => false
  | _ => match k with
         | O => false
         | S k' => match item l with
                   | Some (_, r) => first_bad item bad k' r
                   | None => bad l
                   end
         end
  end.
Fixpoint cov_deep (f : nat) (ctx : symctx) (l : list N) : bool :=
  match f with
  | O => false
  | S f' =>
    match l with
    | [] => false
    | tag :: _ =>
      bad_tag tag || scalar_present l ||
      (((tag / 16 =? 11) || (tag / 16 =? 12)) && negb (tag mod 16 =? 15) &&
       match hdr_of l with
       | Some (_, body, _) => first_bad (sl_value ts f' ctx) (cov_deep f' ctx) (length body) body
       | None => false
       end)
    end
  end.
End Deep.

(* ---- class S3 = [cov_all]: every way the restricted decoder rejects an item, minus named exclusions ------------------------------ *)
(* [cov_code f top ctx l] follows [sl_value ts f ctx l] to the point where it gives up and answers 0 when that point is
   covered by the rejection theorem, or the number of a named exclusion:
     1  top-level container or annotation wrapper whose declared length exceeds the input (the reader finds out only
        after traversing what is there)
     2  top-level annotation wrapper whose first annotation is $ion_symbol_table around a struct: a malformed local
        symbol table (known finding C07: parts of it are skipped by length)
     3  annotation wrapper whose annotations are fine and whose annotated value is itself rejected by the decoder (this
        includes the illegal tag 0xEF as the annotated value): not proved yet
     4  (never met by [sj_stream], which takes version markers first) a version marker
     9  (not an exclusion) the decoder does not reject the item at this point.
   [top] = the item is at top level. *)
Section All.
Variable ts : list N -> res unit.

Fixpoint first_code {A} (item : list N -> option (option A * list N)) (bad : list N -> N) (k : nat) (l : list N) : N :=
  match l with
  | [] => 9
  | _ => match k with
         | O => 9
         | S k' => match item l with
                   | Some (_, r) => first_code item bad k' r
                   | None => bad l
                   end
         end
  end.

(* one field of a struct body, as [sl_value] decodes it *)
Definition sfield (f : nat) (ctx : symctx) (l' : list N) : option (option (symv * value) * list N) :=
  match lim_varuint l' with
  | None => None
  | Some (sid, r') =>
    match resolve_sid ctx sid with
    | None => None
    | Some y =>
      match sl_value ts f ctx r' with
      | Some (Some v, r'') => Some (Some (y, v), r'')
      | Some (None, r'') => Some (None, r'')
      | None => None
      end
    end
  end.

Definition lst_first (ys : list symv) : bool :=
  match ys with SymText t :: _ => list_eqb t (s "$ion_symbol_table"%string) | _ => false end.

(* an annotation wrapper whose length field and body are present; [inner] decodes the annotated value *)
Definition wrap_code (top : bool) (ctx : symctx) (body : list N) (inner : list N -> option (option value * list N)) : N :=
  match lim_varuint body with
  | None => 0                                                   (* malformed annot_length (also: an empty wrapper) *)
  | Some (alen, r2) =>
    if alen =? 0 then 0 else
    match take_n alen r2 with
    | None => 0                                                 (* annot_length overruns the wrapper *)
    | Some (ab, vb) =>
      match vb with
      | [] => 0                                                 (* no value *)
      | vt :: _ =>
        match sl_annots ctx (length ab) ab with
        | None => 0                                             (* malformed / undefined annotation ID *)
        | Some ys =>
          if vt / 16 =? 14 then (if vt mod 16 =? 15 then 3 else 0) else    (* wrapper around a wrapper; 0xEF: see 3 *)
          if top && lst_first ys && (vt / 16 =? 13) then 2 else
          match inner vb with
          | Some (None, _) => 0                                 (* wrapper around a pad *)
          | Some (Some _, _ :: _) => 0                          (* the value does not fill the wrapper *)
          | Some (Some _, []) => 9
          | None => 3
          end
        end
      end
    end
  end.

Fixpoint cov_code (f : nat) (top : bool) (ctx : symctx) (l : list N) : N :=
  match f with
  | O => 9
  | S f' =>
    match l with
    | [] => 9
    | tag :: r0 =>
      let t := tag / 16 in
      let lo := tag mod 16 in
      if bad_tag tag then 0 else
      if (lo =? 15) || (t =? 1) then 9 else
      if (t =? 14) && (lo =? 0) then (if top then match r0 with 1 :: 0 :: 234 :: _ => 4 | _ => 0 end else 0) else
      let sorted := (t =? 13) && (lo =? 1) in
      match (if (lo =? 14) || sorted then lim_varuint r0 else Some (lo, r0)) with
      | None => 0                                              (* malformed length field *)
      | Some (len, r1) =>
        if sorted && (len =? 0) then 0 else
        match take_n len r1 with
        | None => if top && (11 <=? t) then 1 else 0            (* the length overruns the container / the input *)
        | Some (body, rest) =>
          if t <=? 10 then 0                                   (* a scalar body, decimals included *)
          else if t <=? 12 then first_code (sl_value ts f' ctx) (cov_code f' false ctx) (length body) body
          else if t =? 13 then
            first_code (sfield f' ctx)
              (fun l' => match lim_varuint l' with
                         | None => 0                            (* malformed field name *)
                         | Some (sid, r') =>
                           match resolve_sid ctx sid with
                           | None => 0                          (* undefined field ID *)
                           | Some _ => match r' with
                                       | [] => 0                (* field name without value *)
                                       | _ => cov_code f' false ctx r'
                                       end
                           end
                         end) (length body) body
          else wrap_code top ctx body (sl_value ts f' ctx)
        end
      end
    end
  end.

Definition cov_all (f : nat) (ctx : symctx) (l : list N) : bool := cov_code f true ctx l =? 0.
End All.
