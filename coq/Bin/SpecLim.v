(* SpecLim.v — definitions for C03 (the binary reader agrees with the specification decoder on
   every spec-valid stream):
   * [sl_value] / [sl_stream] / [sdecode_lim]: the specification decoder of Bin/SpecBin.v restricted
     by the implementation limits and the known divergences of the reader, one guard each
     (marked G1..G8 below; G4, the decimal +0 read as -0, was repaired in ion-go 2deb55e);
     [sdecode_lim ts l = Some vs] implies [sdecode l = Some vs] (Bin/SpecLimP.v), so "within the limits" is
     [within_limits ts l := sdecode_lim ts l <> None];
   * [trace_of_spec]: the trace of the plain traversal for spec-decoded values (symbols by text,
     or $sid when the text is unknown);
   * [proj_tok]: drops the symbol ID from the reader's tokens whose text is known.
   No proofs. *)
From Coq Require Import String List NArith ZArith Bool.
From IonV Require Import Base.Wire Base.Utf8 Bin.Bits Data.Ion Num.Float Bin.SpecBin Bin.BitStream Bin.BinReader.
Import ListNotations.
Open Scope N_scope.

(* G1: a VarUInt field of at most 10 octets whose value fits uint64 (readVarUintLen) *)
Definition lim_varuint (l : list N) : option (N * list N) :=
  match sp_varuint l 0 with
  | Some (v, r) => if (N.of_nat (length l - length r) <=? 10) && (v <? two64) then Some (v, r) else None
  | None => None
  end.
(* G2: a decimal exponent of at most 10 octets within int32 (readDecimal) *)
Definition lim_varint (l : list N) : option (Z * bool * list N) :=
  match sp_varint l with
  | Some (v, neg, r) =>
    if (N.of_nat (length l - length r) <=? 10) && ((-2147483648 <=? v) && (v <=? 2147483647))%Z
    then Some (v, neg, r) else None
  | None => None
  end.

Fixpoint sl_annots (ctx : symctx) (k : nat) (l : list N) : option (list symv) :=
  match l with
  | [] => Some []
  | _ => match k with
         | O => None
         | S k' => match lim_varuint l with
                   | Some (sid, r) =>
                     match resolve_sid ctx sid, sl_annots ctx k' r with
                     | Some y, Some ys => Some (y :: ys)
                     | _, _ => None
                     end
                   | None => None
                   end
         end
  end.

Section Lim.
(* G3: the timestamp bodies are accepted by the timestamp reader (SpecBin treats them as opaque) *)
Variable ts : list N -> res unit.

Fixpoint sl_value (fuel : nat) (ctx : symctx) (l : list N) : option (option value * list N) :=
  match fuel with
  | O => None
  | S f =>
    match l with
    | [] => None
    | tag :: r0 =>
      let t := tag / 16 in
      let lo := tag mod 16 in
      if t =? 15 then None else
      if lo =? 15 then
        match null_type t with Some ty => Some (Some (VNull ty), r0) | None => None end
      else if (t =? 1) then
        if lo =? 0 then Some (Some (VBool false), r0)
        else if lo =? 1 then Some (Some (VBool true), r0) else None
      else
      let sorted := (t =? 13) && (lo =? 1) in
      match (if (lo =? 14) || sorted then lim_varuint r0 else Some (lo, r0)) with
      | None => None
      | Some (len, r1) =>
        if sorted && (len =? 0) then None else
        match take_n len r1 with
        | None => None
        | Some (body, rest) =>
          let ret v := Some (Some v, rest) in
          let blen := length body in
          if t =? 0 then Some (None, rest)
          else if t =? 2 then ret (VInt (Z.of_N (sp_uint body)))
          else if t =? 3 then
            (if sp_uint body =? 0 then None else ret (VInt (- Z.of_N (sp_uint body))))
          else if t =? 4 then
            (if len =? 0 then ret (VFloat 0)
             else if len =? 4 then ret (VFloat (widen (sp_uint body)))
             else if len =? 8 then ret (VFloat (sp_uint body)) else None)
          else if t =? 5 then
            (match body with
             | [] => ret (VDecimal {| d_coef := 0; d_exp := 0; d_negzero := false |})
             | _ => match lim_varint body with
                    | Some (e, _, cb) =>
                      let '(c, nz) := sp_int cb in
                      ret (VDecimal {| d_coef := c; d_exp := e; d_negzero := nz |})
                    | None => None
                    end
             end)
          else if t =? 6 then (match ts body with Ok _ => ret (VTimestamp body) | _ => None end)
          else if t =? 7 then
            (* G5: a symbol ID of at most 8 octets (ReadSymbolID) *)
            (if 8 <? len then None else
             match resolve_sid ctx (sp_uint body) with Some y => ret (VSymbol y) | None => None end)
          else if t =? 8 then (if utf8_valid body then ret (VString body) else None)
          else if t =? 9 then ret (VClob body)
          else if t =? 10 then ret (VBlob body)
          else if t =? 11 then option_map (fun vs => (Some (VList vs), rest)) (sp_items (sl_value f ctx) blen body)
          else if t =? 12 then option_map (fun vs => (Some (VSexp vs), rest)) (sp_items (sl_value f ctx) blen body)
          else if t =? 13 then
            option_map (fun fs => (Some (VStruct fs), rest))
              (sp_items (fun l' =>
                 match lim_varuint l' with
                 | None => None
                 | Some (sid, r') =>
                   (* G6: the field name of a NOP pad must be a defined symbol ID too (readFieldName
                      resolves it before the value is looked at) *)
                   match resolve_sid ctx sid with
                   | None => None
                   | Some y =>
                     match sl_value f ctx r' with
                     | Some (Some v, r'') => Some (Some (y, v), r'')
                     | Some (None, r'') => Some (None, r'')
                     | None => None
                     end
                   end
                 end) blen body)
          else if t =? 14 then
            (if len <? 3 then None else
             match lim_varuint body with
             | None => None
             | Some (alen, r2) =>
               if alen =? 0 then None else
               match take_n alen r2 with
               | None => None
               | Some (ab, vb) =>
                 match sl_annots ctx (length ab) ab, vb with
                 | Some ys, vt :: _ =>
                   if (vt / 16 =? 14) then None else
                   match sl_value f ctx vb with
                   | Some (Some v, []) => ret (VAnn ys v)
                   | _ => None
                   end
                 | _, _ => None
                 end
               end
             end)
          else None
        end
      end
    end
  end.

(* what the reader takes for a symbol table at top level: a struct OR null.struct whose first annotation
   is $ion_symbol_table (G7: the latter is a value for SpecBin) *)
Definition lst_like (v : value) : bool :=
  match v with
  | VAnn (SymText t :: _) (VStruct _) | VAnn (SymText t :: _) (VNull 13) => list_eqb t (s "$ion_symbol_table"%string)
  | _ => false
  end.

(* G8: the shapes of a local symbol table that Bin/SpecBin.v accepts and on which the reader is known to deviate from
   it or to have a limit; one conjunct per shape:
   - every field name of the table struct and of every import struct has known text (the reader fails on a field
     name without text: known finding C10/field-unknown-text-error),
   - the entries of a symbols list are strings (the reader gives any other entry the empty text: known finding
     C10/symbols-nonstring-empty-text),
   - an import struct has at most one field named name, one named version and one named max_id (of repeated fields
     the reader takes the last, SpecBin the first),
   - an int version of an import lies within int32 and an int max_id within int64 (reader limits; the reader checks
     them even for an import it then ignores),
   - the resulting table has fewer than 2^63 symbols (limit; covers known finding C10/maxid-overflow). *)
Definition names_known (fs : list (symv * value)) : bool :=
  forallb (fun p => match fst p with SymText _ => true | SymSid _ => false end) fs.
Definition symbols_ok (v : option value) : bool :=
  match option_map strip_ann v with
  | Some (VList l) => forallb (fun x => match strip_ann x with VString _ => true | _ => false end) l
  | _ => true
  end.
Definition int_within (v : option value) (lo hi : Z) : bool :=
  match option_map strip_ann v with Some (VInt z) => (lo <=? z)%Z && (z <=? hi)%Z | _ => true end.
Definition import_ok (d : value) : bool :=
  match strip_ann d with
  | VStruct fs =>
    names_known fs
    && (count_field fs "name" <=? 1)%nat && (count_field fs "version" <=? 1)%nat && (count_field fs "max_id" <=? 1)%nat
    && int_within (find_field fs "version") (-2147483648) 2147483647
    && int_within (find_field fs "max_id") (-9223372036854775808) 9223372036854775807
  | _ => true
  end.
Definition imports_ok (v : option value) : bool :=
  match option_map strip_ann v with
  | Some (VList l) => forallb import_ok l
  | _ => true
  end.
Definition lst_ok (fs : list (symv * value)) (ctx' : symctx) : bool :=
  names_known fs
  && symbols_ok (find_field fs "symbols")
  && imports_ok (find_field fs "imports")
  && (ctx_size ctx' <? two63).

(* what a top-level value is: None = invalid or outside the limits, Some None = a user value, Some (Some ctx') =
   a local symbol table, with the context it installs *)
Definition lst_gate (ctx : symctx) (v : value) : option (option symctx) :=
  if lst_like v then
    match is_lst v with
    | Some fs =>
      match apply_lst ctx fs with
      | Some ctx' => if lst_ok fs ctx' then Some (Some ctx') else None
      | None => None
      end
    | None => None                          (* G7: $ion_symbol_table::null.struct *)
    end
  else Some None.

(* streams: version markers, pads, local symbol tables and values *)
Fixpoint sl_stream (k : nat) (ctx : symctx) (l : list N) : option (list value) :=
  match l with
  | [] => Some []
  | _ =>
    match k with
    | O => None
    | S k' =>
      match l with
      | 224 :: 1 :: 0 :: 234 :: r => sl_stream k' system_ctx r
      | _ =>
        match sl_value k ctx l with
        | Some (None, r) => sl_stream k' ctx r
        | Some (Some v, r) =>
          match lst_gate ctx v with
          | None => None
          | Some None => option_map (cons v) (sl_stream k' ctx r)
          | Some (Some ctx') => sl_stream k' ctx' r
          end
        | None => None
        end
      end
    end
  end.
Definition sdecode_lim (l : list N) : option (list value) :=
  match l with
  | 224 :: 1 :: 0 :: 234 :: r => sl_stream (length l) system_ctx r
  | _ => None
  end.
(* the side condition of C03bin: the restricted decoder does not give up *)
Definition within_limits (l : list N) : Prop := sdecode_lim l <> None.
End Lim.

(* ---- the trace of spec-decoded values ---------------------------------------------------------------------------- *)
Definition tsp_sym (y : symv) : list N :=
  match y with SymText t => 107 :: hex_of_bytes t | SymSid n => 117 :: 46 :: dec_of_Z (Z.of_N n) end.
Definition tsp_field (fld : option symv) : list N := match fld with None => t_nil | Some y => tsp_sym y end.
Definition tsp_annots (a : list symv) : list N := 97 :: 91 :: concat (map (fun y => tsp_sym y ++ [59]) a) ++ [93].
Definition tsp_head (fld : option symv) (a : list symv) (ty : N) (isnull : bool) : list (list N) :=
  [ [84]; tsp_field fld; tsp_annots a; 121 :: dec_of_N ty; [110; if isnull then 49 else 48] ].

Fixpoint tsp_value (fld : option symv) (a : list symv) (v : value) : list (list N) :=
  match v with
  | VAnn a' x => tsp_value fld a' x
  | VNull t => tsp_head fld a t true
  | VBool b => tsp_head fld a TBool false ++ [[98; if b then 49 else 48]]
  | VInt z => tsp_head fld a TInt false ++ [73 :: dec_of_Z z]
  | VFloat b => tsp_head fld a TFloat false ++ [70 :: dec_of_N (canon_float b)]
  | VDecimal d => tsp_head fld a TDecimal false ++ [show_dec d]
  | VTimestamp body => tsp_head fld a TTimestamp false ++ [84 :: hex_of_bytes body]
  | VSymbol y => tsp_head fld a TSymbol false ++ [tsp_sym y]
  | VString t => tsp_head fld a TString false ++ [83 :: xhex t]
  | VClob b => tsp_head fld a TClob false ++ [66 :: xhex b]
  | VBlob b => tsp_head fld a TBlob false ++ [66 :: xhex b]
  | VList l => tsp_head fld a TList false ++ [s "ok"%string] ++
               flat_map (tsp_value None []) l ++ [[70]; s "ok"%string]
  | VSexp l => tsp_head fld a TSexp false ++ [s "ok"%string] ++
               flat_map (tsp_value None []) l ++ [[70]; s "ok"%string]
  | VStruct fs => tsp_head fld a TStruct false ++ [s "ok"%string] ++
               flat_map (fun '(n, x) => tsp_value (Some n) [] x) fs ++ [[70]; s "ok"%string]
  end.
Definition trace_of_spec (vs : list value) : list (list N) :=
  flat_map (tsp_value None []) vs ++ [[70]; [101; 48]; [70]; [101; 48]; [70]; [101; 48]].

(* ---- projection of the reader's tokens: k<hex>.<sid> -> k<hex> (also inside a[...]) ------------------------------- *)
Fixpoint upto_dot (l : list N) : list N :=
  match l with [] => [] | c :: r => if c =? 46 then [] else c :: upto_dot r end.
(* inside a[ ... ]: mode 0 = at the start of a piece, 1 = copying a known-text piece, 2 = skipping its ".sid",
   3 = copying a piece verbatim *)
Fixpoint proj_pieces (mode : N) (l : list N) : list N :=
  match l with
  | [] => []
  | c :: r =>
    if c =? 59 then 59 :: proj_pieces 0 r
    else if mode =? 0 then (if c =? 107 then c :: proj_pieces 1 r else c :: proj_pieces 3 r)
    else if mode =? 1 then (if c =? 46 then proj_pieces 2 r else c :: proj_pieces 1 r)
    else if mode =? 2 then proj_pieces 2 r
    else c :: proj_pieces 3 r
  end.
Definition proj_tok (t : list N) : list N :=
  match t with
  | 107 :: r => 107 :: upto_dot r
  | 97 :: 91 :: r => 97 :: 91 :: proj_pieces 0 r
  | _ => t
  end.
