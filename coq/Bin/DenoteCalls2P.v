(* DenoteCalls2P.v — C12's headline for the binary Writer (growing symbol table) over a FAILING io.Writer.
   The sink accepts a given number of Write calls and then refuses every write (Bin/BinWriter.v).
   The C19 step simulation (Bin/BinWriterP2.v: a call over the failing and over the never-failing sink
   either does the same thing or has just had a write refused) is sharpened to: the two runs are
   identical, or there is a first call at which a write is refused — that call returns an error, the
   error is recorded, every later call fails, and what was accepted is a prefix of the fault-free
   output.  Hence a final Finish that returns nil means no write was refused, and the headline of
   Bin/DenoteCallsP.v holds for every budget. *)
From Coq Require Import String List NArith ZArith Bool Lia ZifyBool ZifyN ZifyNat.
From IonV Require Import Base.Wire Base.Utf8 Bin.Bits Data.Ion Num.Float
  Bin.BinWriter Bin.BinWriterP Bin.BinWriterP2 Bin.SpecBin Bin.RoundTripBin Bin.RoundTripBinW
  Bin.DenoteCalls Bin.DenoteCallsP.
Import ListNotations.
Open Scope N_scope.

(* a Finish that fails without recording an error did nothing at all, whatever the sink *)
Lemma finish_false_sync w w' : wstep w CFinish = Ok (w', false) -> w_err w' = false ->
  w' = w /\ wstep (unl w) CFinish = Ok (unl w, false).
Proof.
  unfold wstep. rewrite !finish_eq. rewrite unl_err, unl_ctx_peek, unl_bufs.
  destruct (w_err w); [intros H _; inversion H; split; reflexivity|].
  destruct (ctx_peek w =? 0); cbn [negb]; [|intros H _; inversion H; split; reflexivity].
  destruct (w_bufs w) as [|q [|q2 rest]]; try discriminate.
  destruct (write_lst _ _ _) as [[w1 ok]| | |]; cbn [bind]; try discriminate.
  unfold fin_tail. destruct ok; cbn [negb].
  - destruct (emit w1 _) as [w2 ok2]. destruct ok2; cbn [negb]; intros H He; inversion H; subst; cbn in He; discriminate He.
  - intros H He; inversion H; subst; cbn in He; discriminate He.
Qed.

Lemma all_false_repeat l : Forall (fun b => b = false) l -> l = repeat false (length l).
Proof. induction 1 as [|b l Hb _ IH]; [reflexivity|]. cbn [length repeat]. rewrite Hb, <- IH. reflexivity. Qed.

(* the run over the failing sink [w1 -> w1', r1] against the run over the never-failing one [-> w2', r2]:
   a first call [c] at which they part.  Up to it the two runs are the same; the call returns an error on the
   failing side, records it, the sink's budget is exhausted; every later call fails; the writes accepted are
   a prefix of the fault-free ones *)
Definition fault_at (w1 : wstate) (cs : list wcall) (w1' : wstate) (r1 : list bool) (w2' : wstate) (r2 : list bool) : Prop :=
  exists cs0 c cs1 wm r0 r2t,
    cs = cs0 ++ c :: cs1 /\
    drive_results w1 cs0 = Ok (wm, r0) /\ drive_results (unl w1) cs0 = Ok (unl wm, r0) /\
    wstep wm c = Ok (w1', false) /\ w_err w1' = true /\ sk_budget (w_out w1') = Some O /\
    r1 = r0 ++ false :: repeat false (length cs1) /\ r2 = r0 ++ r2t /\
    is_prefix (sk_writes (w_out w1')) (sk_writes (w_out w2')).

Theorem drive_sim_split cs : forall w1 w1' r1 w2' r2,
  drive_results w1 cs = Ok (w1', r1) -> drive_results (unl w1) cs = Ok (w2', r2) ->
  (w2' = unl w1' /\ r2 = r1) \/ fault_at w1 cs w1' r1 w2' r2.
Proof.
  induction cs as [|c cs IH]; intros w1 w1' r1 w2' r2; cbn [drive_results].
  - intros H1 H2. inversion H1; inversion H2; subst. left. split; reflexivity.
  - pose proof (wstep_sim w1 c) as S.
    destruct (wstep w1 c) as [[wa oka]| | |] eqn:E1; cbn [bind]; try discriminate.
    destruct (wstep (unl w1) c) as [[wb okb]| | |] eqn:E2; cbn [bind]; try discriminate.
    destruct (drive_results wa cs) as [[wa' ra]| | |] eqn:Ea; cbn [bind]; try discriminate.
    destruct (drive_results wb cs) as [[wb' rb]| | |] eqn:Eb; cbn [bind]; try discriminate.
    intros H1 H2. inversion H1; inversion H2; subst. clear H1 H2.
    assert (SYNC : wb = unl wa /\ okb = oka ->
                   (w2' = unl w1' /\ okb :: rb = oka :: ra) \/ fault_at w1 (c :: cs) w1' (oka :: ra) w2' (okb :: rb)).
    { intros [-> ->]. destruct (IH _ _ _ _ _ Ea Eb) as [[-> ->]|F].
      - left. split; reflexivity.
      - right. destruct F as (cs0 & c0 & cs1 & wm & r0 & r2t & -> & D1 & D2 & St & He & Hb & -> & -> & P).
        exists (c :: cs0), c0, cs1, wm, (oka :: r0), r2t. cbn [app drive_results]. rewrite E1, E2. cbn [bind].
        rewrite D1, D2. cbn [bind]. repeat split; try assumption; reflexivity. }
    destruct S as [[S1 S2]|[S1 [SB SP]]]; cbn [fst snd] in *.
    + apply SYNC. split; assumption.
    + subst oka.
      assert (HE : w_err wa = true \/ (wb = unl wa /\ okb = false)).
      { destruct (wcall_eq_finish c) as [->|Hc].
        - destruct (w_err wa) eqn:He; [left; reflexivity|right].
          destruct (finish_false_sync _ _ E1 He) as [-> E3]. rewrite E3 in E2. inversion E2; split; reflexivity.
        - left. exact (bw_error_recorded _ w1 c wa E1 Hc). }
      destruct HE as [He|Hs]; [|apply SYNC; exact Hs].
      right. destruct (bw_sticky_seq cs wa w1' ra He Ea) as [-> Hf].
      pose proof (drive_results_length _ _ _ _ Ea) as Hl.
      exists [], c, cs, w1, [], (okb :: rb). cbn [app drive_results].
      split; [reflexivity|]. split; [reflexivity|]. split; [reflexivity|]. split; [exact E1|]. split; [exact He|].
      split; [exact SB|]. split; [f_equal; rewrite <- Hl; apply all_false_repeat; exact Hf|]. split; [reflexivity|].
      apply drive_mono in Eb. destruct Eb as [P2 _]. eapply is_prefix_trans; eassumption.
Qed.

(* from a fresh writer *)
Theorem bw_fault_split budget cs w1 r1 w2 r2 :
  drive_results (new_writer budget) cs = Ok (w1, r1) -> drive_results (new_writer None) cs = Ok (w2, r2) ->
  (w2 = unl w1 /\ r2 = r1) \/ fault_at (new_writer budget) cs w1 r1 w2 r2.
Proof. apply (drive_sim_split cs (new_writer budget)). Qed.

(* a final Finish that returned nil: no error is recorded *)
Lemma drive_last_ok cs : forall w w' oks, builder w -> Inv w -> NZ w ->
  drive_results w cs = Ok (w', oks) -> final_finish_ok cs oks -> w_err w' = false.
Proof.
  induction cs as [|c cs IH]; intros w w' oks HB HI HN Hd Hff; [destruct Hff|].
  cbn [drive_results] in Hd.
  destruct (wstep w c) as [[w1 ok]| | |] eqn:Es; cbn [bind] in Hd; try discriminate.
  destruct (drive_results w1 cs) as [[w2 oks2]| | |] eqn:Ed; cbn [bind] in Hd; try discriminate.
  inversion Hd; subst w2 oks. clear Hd.
  destruct cs as [|c2 cs].
  - cbn [drive_results] in Ed. inversion Ed; subst w1 oks2. cbn [final_finish_ok] in Hff.
    destruct c; try contradiction. destruct ok; [|contradiction].
    exact (proj1 (bw_finish_clean w w' HB HI HN Es)).
  - assert (H' : final_finish_ok (c2 :: cs) oks2) by (destruct c; exact Hff).
    destruct (wstep_inv w c HB HI HN) as (w1' & ok' & Es' & I1 & B1 & N1). rewrite Es in Es'. inversion Es'; subst w1' ok'.
    exact (IH w1 w' oks2 B1 I1 N1 Ed H').
Qed.

Lemma fault_last_false r0 n : forall l, r0 ++ false :: repeat false n = l ++ [true] -> False.
Proof.
  assert (R : forall l, repeat false n = l ++ [true] -> False).
  { intros l H. assert (I : In true (repeat false n)) by (rewrite H; apply in_or_app; right; left; reflexivity).
    apply repeat_spec in I. discriminate I. }
  induction r0 as [|a r0 IH]; intros l H; cbn [app] in H.
  - destruct l as [|b l]; cbn [app] in H; [discriminate H|]. inversion H. eapply R; eassumption.
  - destruct l as [|b l]; cbn [app] in H.
    + inversion H. destruct r0; discriminate.
    + inversion H. eapply IH; eassumption.
Qed.

(* the headline for every budget: a final Finish that returned nil means that no write was refused — the run
   IS the fault-free run — and the bytes decode to the denoted values *)
Theorem denote_sound_budget budget cs w oks : Forall call_ok cs ->
  drive_results (new_writer budget) cs = Ok (w, oks) -> final_finish_ok cs oks ->
  drive_results (new_writer None) cs = Ok (unl w, oks) /\
  exists vs, denote cs oks = Some vs /\ Forall wf_value vs /\
    (Forall (fun v => is_lst v = None) vs -> N.of_nat (length (sink_bytes (w_out w))) < two63 ->
     sdecode (sink_bytes (w_out w)) = Some vs).
Proof.
  intros Hok Hd Hff. destruct (bw_no_panic cs None) as (w2 & r2 & H2 & _).
  destruct (bw_fault_split budget cs w oks w2 r2 Hd H2) as [[-> ->]|F].
  - split; [exact H2|]. exact (denote_sound cs (unl w) oks Hok H2 Hff).
  - exfalso. destruct F as (cs0 & c0 & cs1 & wm & r0 & r2t & _ & _ & _ & _ & _ & _ & E & _).
    destruct (final_finish_split cs oks Hff) as (csa & oksa & _ & E2 & _). rewrite E2 in E.
    symmetry in E. exact (fault_last_false _ _ _ E).
Qed.

Corollary denote_sound_budget_vals budget cs w oks : Forall call_ok cs ->
  drive_results (new_writer budget) cs = Ok (w, oks) -> final_finish_ok cs oks ->
  exists vs, denote cs oks = Some vs /\ Forall wf_value vs /\
    (Forall (fun v => is_lst v = None) vs -> N.of_nat (length (sink_bytes (w_out w))) < two63 ->
     sdecode (sink_bytes (w_out w)) = Some vs).
Proof. intros H1 H2 H3. exact (proj2 (denote_sound_budget budget cs w oks H1 H2 H3)). Qed.
Corollary denote_sound_budget_sync budget cs w oks : Forall call_ok cs ->
  drive_results (new_writer budget) cs = Ok (w, oks) -> final_finish_ok cs oks ->
  drive_results (new_writer None) cs = Ok (unl w, oks).
Proof. intros H1 H2 H3. exact (proj1 (denote_sound_budget budget cs w oks H1 H2 H3)). Qed.

(* the failing-sink side: if a write is refused the call that hit it answers an error, the error is recorded
   (so every later call fails, C12_binary_sticky), and the bytes accepted are a prefix of the fault-free output *)
Theorem bw_fault_split_bytes (k : nat) cs w1 r1 w2 r2 :
  drive_results (new_writer (Some k)) cs = Ok (w1, r1) -> drive_results (new_writer None) cs = Ok (w2, r2) ->
  (sink_bytes (w_out w1) = sink_bytes (w_out w2) /\ r1 = r2) \/
  (w_err w1 = true /\ length (sk_writes (w_out w1)) = k /\
   (exists r0 n, r1 = r0 ++ false :: repeat false n /\ firstn (length r0) r2 = r0) /\
   exists tl, sink_bytes (w_out w2) = sink_bytes (w_out w1) ++ tl).
Proof.
  intros H1 H2. destruct (bw_fault_split (Some k) cs w1 r1 w2 r2 H1 H2) as [[-> ->]|F].
  - left. split; reflexivity.
  - right. destruct F as (cs0 & c0 & cs1 & wm & r0 & r2t & _ & _ & _ & _ & He & Hb & E1 & E2 & P).
    split; [exact He|]. split; [|split].
    + apply drive_mono in H1. destruct H1 as [_ (n' & Hn & L)]. rewrite Hb in Hn. inversion Hn; subst n'.
      cbn [new_writer w_out sk_writes sk_budget length] in L. lia.
    + exists r0, (length cs1). split; [exact E1|]. rewrite E2. rewrite firstn_app, Nat.sub_diag, firstn_all. cbn [firstn]. apply app_nil_r.
    + apply is_prefix_concat. exact P.
Qed.

(* whole-sequence totality, to make the statements above non-vacuous *)
Theorem bw_budget_total budget cs : exists w1 r1 w2 r2,
  drive_results (new_writer budget) cs = Ok (w1, r1) /\ drive_results (new_writer None) cs = Ok (w2, r2).
Proof.
  destruct (bw_no_panic cs budget) as (w1 & r1 & H1 & _). destruct (bw_no_panic cs None) as (w2 & r2 & H2 & _).
  exists w1, r1, w2, r2. split; assumption.
Qed.
