(* RoundTripBin.v — definitions needed to STATE the binary round trip (C04/C01):
   the canonical call sequence that writes a value through the Writer API, the byte
   encoding the writer model produces for it (relative to a local symbol list), the
   well-formedness predicates under which "write then decode with the specification
   decoder" gives the value back.  No proofs in this file. *)
From Coq Require Import String List NArith ZArith Bool.
From IonV Require Import Base.Wire Base.Utf8 Bin.Bits Data.Ion Num.Float Bin.BinWriter Bin.SpecBin.
Import ListNotations.
Open Scope N_scope.

(* ---- the API calls that write a value ------------------------------------------------------ *)
Definition tok_of (y : symv) : tok :=
  match y with SymText t => tok_text t | SymSid n => tok_sid (Z.of_N n) end.

(* the calls for one value, without the FieldName call that precedes it inside a struct.
   Ints go through WriteBigInt (any magnitude); a timestamp is written with its body length. *)
Fixpoint calls_body (v : value) : list wcall :=
  match v with
  | VNull t => [CNullType t]
  | VBool b => [CBool b]
  | VInt z => [CBigInt (Some z)]
  | VFloat b => [CFloat b]
  | VDecimal d => [CDecimal (Some d)]
  | VTimestamp body => [CTimestamp (N.of_nat (length body)) body]
  | VSymbol y => [CSymbol (tok_of y)]
  | VString t => [CString t]
  | VClob b => [CClob b]
  | VBlob b => [CBlob b]
  | VList l => CBeginList :: flat_map calls_body l ++ [CEndList]
  | VSexp l => CBeginSexp :: flat_map calls_body l ++ [CEndSexp]
  | VStruct fs => CBeginStruct :: flat_map (fun '(n, x) => CFieldName (tok_of n) :: calls_body x) fs ++ [CEndStruct]
  | VAnn a x => CAnnotations (map tok_of a) :: calls_body x
  end.

Definition calls_of_value (fld : option symv) (v : value) : list wcall :=
  match fld with Some n => [CFieldName (tok_of n)] | None => [] end ++ calls_body v.

(* a whole stream: the values at top level, then Finish *)
Definition calls_of_forest (vs : list value) : list wcall := flat_map calls_body vs ++ [CFinish].

(* ---- the local symbols the builder collects ---------------------------------------------------- *)
Definition symtext (y : symv) : text := match y with SymText t => t | SymSid _ => [] end.

(* the builder's Add: a text that is neither a system symbol nor already local is appended *)
Definition intern (L : list text) (t : text) : list text :=
  match find_by_name L false t with Some _ => L | None => L ++ [t] end.
(* the symbol ID of a text under the local list L (0 when absent) *)
Definition sid (L : list text) (t : text) : N :=
  match find_by_name L false t with Some i => i | None => 0 end.
Definition known (L : list text) (t : text) : Prop := exists i, find_by_name L false t = Some i.

(* the texts of a value in the order in which the writer resolves them; [pre] = the pending
   field name and annotations (a symbol value resolves its own text first: WriteSymbol resolves,
   then beginValue resolves the field name and the annotations) *)
Fixpoint texts (pre : list text) (v : value) : list text :=
  match v with
  | VSymbol y => symtext y :: pre
  | VList l => pre ++ flat_map (texts []) l
  | VSexp l => pre ++ flat_map (texts []) l
  | VStruct fs => pre ++ flat_map (fun '(n, x) => texts [symtext n] x) fs
  | VAnn a x => texts (pre ++ map symtext a) x
  | _ => pre
  end.
(* the local symbol list after writing the forest [vs] with a fresh NewBinaryWriter *)
Definition locals_of (vs : list value) : list text := fold_left intern (flat_map (texts []) vs) [].

(* ---- the bytes the writer produces --------------------------------------------------------------- *)
Definition enc_tagged (code : N) (body : list N) : list N :=
  append_tag [] code (N.of_nat (length body)) ++ body.

Definition null_byte (t : N) : N := match binary_null t with Ok b => b | _ => 15 end.

Definition enc_annots (L : list text) (a : list symv) : list N :=
  let ids := map (fun y => sid L (symtext y)) a in
  let idlen := fold_left (fun a id => a + varuint_len id) ids 0 in
  fold_left (fun b id => append_varuint b id) ids (append_varuint [] idlen).

Definition enc_dec (d : dec) : list N :=
  if (d_coef d =? 0)%Z && (d_exp d =? 0)%Z && negb (d_negzero d) then [80] else
  let vlength := varint_len (d_exp d) + (if d_negzero d then 1 else bigint_len (d_coef d)) in
  let buf := append_varint (append_tag [] 80 vlength) (d_exp d) in
  if d_negzero d then buf ++ [128] else append_bigint buf (d_coef d).

Definition enc_float (bits : N) : list N :=
  if f64_pos_zero bits then [64]
  else if f64_is_nan bits then [68; 127; 192; 0; 0]
  else if uses_f32 bits then 68 :: be_fixed 4 (narrow bits)
  else 72 :: be_fixed 8 bits.

(* one value under the local symbol list L: exactly the bytes the Writer model buffers for
   [calls_body v] (theorem [value_run] of RoundTripBinP.v) *)
Fixpoint enc (L : list text) (v : value) : list N :=
  match v with
  | VNull t => [null_byte t]
  | VBool b => [if b then 17 else 16]
  | VInt z => if (z =? 0)%Z then [32]
              else enc_tagged (if (z <? 0)%Z then 48 else 32) (big_bytes (Z.to_N (Z.abs z)))
  | VFloat b => enc_float b
  | VDecimal d => enc_dec d
  | VTimestamp body => enc_tagged 96 body
  | VSymbol y => let id := sid L (symtext y) in append_uint (append_tag [] 112 (uint_len id)) id
  | VString t => enc_tagged 128 t
  | VClob b => enc_tagged 144 b
  | VBlob b => enc_tagged 160 b
  | VList l => enc_tagged 176 (flat_map (enc L) l)
  | VSexp l => enc_tagged 192 (flat_map (enc L) l)
  | VStruct fs => enc_tagged 208 (flat_map (fun '(n, x) => append_varuint [] (sid L (symtext n)) ++ enc L x) fs)
  | VAnn a x => enc_tagged 224 (enc_annots L a ++ enc L x)
  end.

(* the local symbol table as a value: $ion_symbol_table::{symbols:[...]} *)
Definition lst_value (L : list text) : value :=
  VAnn [SymText (s "$ion_symbol_table"%string)]
       (VStruct [(SymText (s "symbols"%string), VList (map VString L))]).
Definition enc_lst (L : list text) : list N :=
  match L with [] => [] | _ => enc [] (lst_value L) end.

Definition bvm : list N := [224; 1; 0; 234].
(* the whole output of  write vs; Finish  on a fresh writer *)
Definition enc_forest (vs : list value) : list N :=
  let L := locals_of vs in bvm ++ enc_lst L ++ flat_map (enc L) vs.

(* ---- well-formedness: what can come back unchanged -------------------------------------------------- *)
Definition wf_sym (y : symv) : Prop := exists t, y = SymText t /\ utf8_valid t = true.
Definition not_ann (v : value) : Prop := match v with VAnn _ _ => False | _ => True end.
Definition wf_float (b : N) : Prop := b < two64 /\ (f64_is_nan b = true -> b = canonical_nan64).
Definition wf_dec (d : dec) : Prop :=
  (-2147483648 <= d_exp d <= 2147483647)%Z /\ (d_negzero d = true -> d_coef d = 0%Z).

Inductive wf_value : value -> Prop :=
| wf_null t : 1 <= t <= 13 -> wf_value (VNull t)
| wf_bool b : wf_value (VBool b)
| wf_int z : wf_value (VInt z)
| wf_flt b : wf_float b -> wf_value (VFloat b)
| wf_decimal d : wf_dec d -> wf_value (VDecimal d)
| wf_ts body : wf_value (VTimestamp body)
| wf_symbol y : wf_sym y -> wf_value (VSymbol y)
| wf_string t : utf8_valid t = true -> wf_value (VString t)
| wf_clob b : wf_value (VClob b)
| wf_blob b : wf_value (VBlob b)
| wf_list l : Forall wf_value l -> wf_value (VList l)
| wf_sexp l : Forall wf_value l -> wf_value (VSexp l)
| wf_struct fs : Forall (fun p => wf_sym (fst p) /\ wf_value (snd p)) fs -> wf_value (VStruct fs)
| wf_ann a x : a <> [] -> Forall wf_sym a -> not_ann x -> wf_value x -> wf_value (VAnn a x).

(* at top level a struct annotated first with $ion_symbol_table IS a symbol table, not a value *)
Definition wf_top (v : value) : Prop := wf_value v /\ is_lst v = None.
Definition wf_values (vs : list value) : Prop := Forall wf_top vs.

(* ---- the stages ------------------------------------------------------------------------------------------ *)
(* S1: scalars that carry no symbol *)
Definition scalar_nosym (v : value) : Prop :=
  match v with
  | VSymbol _ | VList _ | VSexp _ | VStruct _ | VAnn _ _ => False
  | _ => True
  end.
Definition wf_S1 (vs : list value) : Prop := Forall (fun v => wf_value v /\ scalar_nosym v) vs.

(* S2: + lists and s-expressions, any depth *)
Inductive seq_nosym : value -> Prop :=
| sn_scalar v : scalar_nosym v -> seq_nosym v
| sn_list l : Forall seq_nosym l -> seq_nosym (VList l)
| sn_sexp l : Forall seq_nosym l -> seq_nosym (VSexp l).
Definition wf_S2 (vs : list value) : Prop := Forall (fun v => wf_value v /\ seq_nosym v) vs.

(* S3: + symbols, structs and annotations whose texts are all system symbols (no table is emitted) *)
Definition is_system (t : text) : Prop := In t system_symbols.
Definition wf_S3 (vs : list value) : Prop :=
  Forall wf_top vs /\ Forall is_system (flat_map (texts []) vs).

(* ---- the same forest written with WriteInt where the value fits an int64 ----------------------------------- *)
Definition in_i64 (z : Z) : bool := ((-9223372036854775808 <=? z) && (z <=? 9223372036854775807))%Z.
Definition narrow_call (c : wcall) : wcall :=
  match c with
  | CBigInt (Some z) => if in_i64 z then CInt z else c
  | _ => c
  end.
Definition calls_of_forest64 (vs : list value) : list wcall := map narrow_call (calls_of_forest vs).
