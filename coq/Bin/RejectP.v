(* RejectP.v — the rejection half of C07 on the binary models (partial): a stream whose first rejected top-level item
   lies in a covered class is traversed to an error, never to a clean end. *)
From Coq Require Import String List NArith ZArith Bool Lia ZifyBool ZifyN ZifyNat.
From IonV Require Import Base.Wire Base.Utf8 Bin.Bits Bin.BitsP Data.Ion Num.Float Bin.BitStream Bin.BinReader
  Bin.BitStreamP Bin.BitStreamNextP Bin.BinWriter Bin.SpecBin Bin.RoundTripBin Bin.RoundTripBinS Bin.BitEvalP
  Bin.BitEvalAnnP Bin.ReaderTrace Bin.BinReaderInvP Bin.BinReaderP Bin.ReaderTraceP Bin.ReaderTopP
  Bin.ReaderLstP Bin.SpecLim Bin.SpecLimP Bin.SpecLimAppP Bin.BitEvalGenP Bin.SpecAgreeP Bin.BitEvalAnnGenP Bin.SpecAgreeTravP
  Bin.SpecAgreeContP Bin.SpecAgreeTabP Bin.SpecAgreeLstP Bin.SpecAgreeStreamP Bin.Reject.
Import ListNotations.
Open Scope N_scope.
Ltac Zify.zify_post_hook ::= Z.div_mod_to_equations.

Ltac bsimpl :=
  cbn [b_in b_ioerr b_pos b_state b_stack b_code b_null b_len b_alloc b_avail b_fuel
       upd_in upd_state upd_stack upd_cur upd_alloc b_clear done_value fst snd] in *.
Ltac rsimpl :=
  cbn [r_bits r_ctx r_eof r_err r_lst r_field r_annots r_type r_value
       rs_bits rs_ctx rs_eof rs_err rs_lst rs_field rs_annots rs_val r_clear fst snd] in *.
Ltac disp :=
  cbn [N.eqb Pos.eqb orb andb negb bcEOF bcBVM bcFieldID bcAnnotation bcNull bcFalse bcTrue bcInt bcNegInt bcFloat
       bcDecimal bcTimestamp bcSymbol bcString bcClob bcBlob bcList bcSexp bcStruct].

(* ---- the end of a traversal that has met an error ------------------------------------------------------------------------ *)
Lemma tail_run_err ts r : r_err r = true ->
  snd (r_run ts r [OErr; ONext; OErr; ONext; OErr] []) = [[101; 49]; [70]; [101; 49]; [70]; [101; 49]].
Proof.
  intros Hr. assert (En : r_next ts r = (r, Ok false)) by (unfold r_next, r_next_with; rewrite Hr, orb_true_r; reflexivity).
  do 6 (cbn [r_run r_op]; rewrite ?En, ?Hr). reflexivity.
Qed.

Section Rej.
Variable ts : list N -> res unit.
Hypothesis Hts : forall bs, ts bs <> Panic /\ ts bs <> OutOfFuel.
Variable tot : N.
Hypothesis Htot : tot < two63.

(* from [r], at any depth, the traversal loop stops without a panic in a state whose error is set *)
Definition ERRS (r : rstate) (depth : nat) : Prop :=
  forall m acc, exists r' acc', traverse_loop ts (S m) r depth acc = (r', acc', false) /\ r_err r' = true.

(* the same with a lower bound on the loop budget *)
Definition STOPSD (r : rstate) (depth n : nat) : Prop :=
  forall M acc, (n < M)%nat -> exists r' acc', traverse_loop ts M r depth acc = (r', acc', false) /\ r_err r' = true.
Lemma errs_stopsd r depth n : ERRS r depth -> STOPSD r depth n.
Proof. clear Hts Htot. intros H M acc HM. destruct M as [|m]; [lia|]. apply H. Qed.

Lemma next_err_errs r r1 depth : r_next ts r = (r1, Ok false) -> r_err r1 = true -> ERRS r depth.
Proof.
  intros En He m acc. cbn [traverse_loop r_op]. rewrite En. cbn [list_eqb N.eqb Pos.eqb andb].
  destruct depth as [|d]; [eexists _, _; split; [reflexivity|exact He]|].
  cbn [r_op]. unfold r_step_out. rewrite He.
  replace (list_eqb t_err (s "ok"%string)) with false by reflexivity.
  eexists _, _; split; [reflexivity|exact He].
Qed.

(* in the middle of a Next, about to read a value: if that raw item is an error, the traversal ends in error *)
Lemma pre3_errs tab r l outer stk fld an :
  PRE3 ts tot (r_next_inner ts) tab r l outer stk fld an ->
  (forall fuel r0 b1, BS b1 (l ++ outer) bssBeforeValue stk tot -> top_ok tot stk outer ->
     b_next (r_bits r0) = b_next b1 -> r_lst r0 = Some tab -> r_annots r0 = an -> r_ctx r0 = ctx_of_stk stk ->
     exists r1, r_next_raw ts (r_next_inner ts) fuel r0 = (r1, Err)) ->
  forall depth, ERRS r depth.
Proof.
  intros (K & r0 & fuel & b1 & En & He & Hfe & Hl & Hc & Hf & Ha & Hn & Hb1 & Hio1 & T & HK) Hraw depth.
  destruct (Hraw fuel r0 b1 Hb1 T Hn Hl Ha Hc) as (r1 & Eraw).
  destruct K as [|k]; [lia|].
  apply (next_err_errs r (rs_err r1 true)); [|reflexivity].
  rewrite (nxt_next ts), En. cbn [r_next_loop]. rewrite Eraw. reflexivity.
Qed.

(* ---- an illegal tag -------------------------------------------------------------------------------------------------------- *)
Lemma b_next_bad_tag b tag rest stk : BS b (tag :: rest) bssBeforeValue stk tot -> room b 1 -> tag < 256 ->
  bad_tag tag = true -> exists b', b_next b = (b', Err).
Proof.
  intros [I Ein St Es Nl Nw] R Htag Hbad. pose proof (bcore_avail _ (proj1 I)) as A.
  destruct (tag_split tot Htot tag Htag) as (Etag & Ht & Hlo). unfold bad_tag in Hbad. cbv zeta in Hbad.
  set (t := tag / 16) in *. set (lo := tag mod 16) in *.
  destruct I as (C & Fv & L0). pose proof C as (Wk & _ & P & Sk).
  assert (Rm : match stk with [] => True | (_, e) :: _ => b_pos b + 1 <= e /\ e < two64 end).
  { unfold room in R. rewrite Es in R, Sk. destruct stk as [|[c e] stk']; [exact Logic.I|]. cbn [stk_ok] in Sk. lia. }
  unfold b_next. rewrite St.
  change ((bssBeforeValue =? bssOnValue) || (bssBeforeValue =? bssOnFieldID)) with false. cbv iota beta.
  rewrite Es, St. change (bssBeforeValue =? bssBeforeFieldID) with false.
  replace (match stk with [] => false | (_, e) :: _ => b_pos b =? e end) with false
    by (destruct stk as [|[c e] stk']; [reflexivity|lia]).
  unfold b_read. rewrite Ein, Etag. rewrite parse_tag_eq by lia. cbv iota beta.
  assert (Cs : t = 15 \/ (t = 3 /\ lo = 15) \/ (t = 14 /\ lo = 15) \/ (t = 1 /\ 2 <= lo <= 14)) by lia.
  destruct Cs as [E|[[E1 E2]|[[E1 E2]|[E1 E2]]]].
  - rewrite E. cbn [bitcode_of_high N.eqb Pos.eqb andb]. disp. eexists; reflexivity.
  - rewrite E1, E2. cbn [bitcode_of_high N.eqb Pos.eqb andb]. disp. eexists; reflexivity.
  - rewrite E1, E2. cbn [bitcode_of_high N.eqb Pos.eqb andb]. disp. eexists; reflexivity.
  - rewrite E1. cbn [bitcode_of_high N.eqb Pos.eqb andb]. disp.
    replace (lo =? 1) with false by lia. replace (lo =? 0) with false by lia. replace (lo =? 15) with false by lia.
    cbn [andb orb]. eexists; reflexivity.
Qed.

Lemma raw_next_err api fuel r b' : b_next (r_bits r) = (b', Err) -> r_next_raw ts api fuel r = (rs_bits r b', Err).
Proof. intros H. unfold r_next_raw. rewrite H. reflexivity. Qed.

(* ---- a scalar whose body is present but malformed ------------------------------------------------------------------------- *)
Lemma read_int_negzero b body rest stk : Forall (fun c => c < 256) body ->
  BS b (body ++ rest) bssOnValue stk tot -> b_len b = N.of_nat (length body) -> b_code b = bcNegInt -> from_be body = 0 ->
  exists b', b_read_int b = (b', Err).
Proof.
  intros Hbytes Hb El Ec Hz.
  assert (Nb : b_code b <> bcBVM) by (rewrite Ec; discriminate).
  destruct (readN_body tot Htot b _ rest stk Hb El Nb) as (b1 & E & Hd & _).
  unfold b_read_int. rewrite Ec. change (negb ((bcNegInt =? bcInt) || (bcNegInt =? bcNegInt))) with false. cbv iota.
  rewrite E. change (bcNegInt =? bcNegInt) with true.
  destruct (b_len b =? 0) eqn:E0; [eexists; reflexivity|].
  destruct ((b_len b <? 8) || ((b_len b =? 8) && (hd 0 body <? 128))) eqn:Es.
  - rewrite from_be64_small by (auto; rewrite El in Es; lia). rewrite Hz. eexists; reflexivity.
  - rewrite Hz. eexists; reflexivity.
Qed.

Lemma read_float_badlen b body rest stk :
  BS b (body ++ rest) bssOnValue stk tot -> b_len b = N.of_nat (length body) -> b_code b = bcFloat ->
  length body <> 0%nat -> length body <> 4%nat -> length body <> 8%nat ->
  exists b', b_read_float b = (b', Err).
Proof.
  intros Hb El Ec H0 H4 H8. assert (Nb : b_code b <> bcBVM) by (rewrite Ec; discriminate).
  destruct (readN_body tot Htot b _ rest stk Hb El Nb) as (b1 & E & Hd & _).
  unfold b_read_float. rewrite Ec. change (negb (bcFloat =? bcFloat)) with false. cbv iota. rewrite E.
  destruct (length body) as [|[|[|[|[|[|[|[|[|n]]]]]]]]]; try contradiction; eexists; reflexivity.
Qed.

Lemma read_timestamp_bad b body rest stk : ts body <> Ok tt ->
  BS b (body ++ rest) bssOnValue stk tot -> b_len b = N.of_nat (length body) -> b_code b = bcTimestamp ->
  exists b', b_read_timestamp b ts = (b', Err).
Proof.
  intros Ht Hb El Ec. assert (Nb : b_code b <> bcBVM) by (rewrite Ec; discriminate).
  destruct (readN_body tot Htot b _ rest stk Hb El Nb) as (b1 & E & Hd & _).
  unfold b_read_timestamp. rewrite Ec. change (negb (bcTimestamp =? bcTimestamp)) with false. cbv iota. rewrite E.
  destruct (Hts body) as [Hp Ho]. destruct (ts body) as [[]| | |]; try contradiction; eexists; reflexivity.
Qed.

Lemma read_string_bad b body rest stk : utf8_valid body = false ->
  BS b (body ++ rest) bssOnValue stk tot -> b_len b = N.of_nat (length body) -> b_code b = bcString ->
  exists b', b_read_string b = (b', Err).
Proof.
  intros Hu Hb El Ec. assert (Nb : b_code b <> bcBVM) by (rewrite Ec; discriminate).
  destruct (readN_body tot Htot b _ rest stk Hb El Nb) as (b1 & E & Hd & _).
  unfold b_read_string. rewrite Ec. change (negb (bcString =? bcString)) with false. cbv iota. rewrite E, Hu. eexists; reflexivity.
Qed.

Lemma ctx_slot_none : forall ctx i, ctx_slot ctx i = None -> ctx_size ctx <= i.
Proof.
  induction ctx as [|g r IH]; intros i; cbn [ctx_slot ctx_size fold_right]; [lia|]. fold (ctx_size r).
  destruct (i <? seg_size g) eqn:E.
  - destruct g as [l|n]; [|discriminate]. intros H. apply nth_error_None in H. cbn [seg_size] in E. lia.
  - intros H. specialize (IH _ H). lia.
Qed.
Lemma resolve_none tab ctx sid : TC tab ctx -> resolve_sid ctx sid = None -> tok_by_sid tab sid = None.
Proof.
  intros (Hlen & Hmax & Hfind) Hr. unfold resolve_sid in Hr. destruct (sid =? 0) eqn:E0; [discriminate|].
  destruct (ctx_slot ctx (sid - 1)) as [[x|]|] eqn:E1; try discriminate.
  pose proof (ctx_slot_none _ _ E1). unfold tok_by_sid, sid_ok. rewrite Hmax.
  replace (sid <=? ctx_size ctx) with false by lia. rewrite andb_false_r. reflexivity.
Qed.

Lemma raw_rej_scalar api fuel r b1 tab ctx f tag r0 outer stk : TC tab ctx ->
  Forall (fun c => c < 256) (tag :: r0) -> scalar_present (tag :: r0) = true -> sl_value ts (S f) ctx (tag :: r0) = None ->
  BS b1 ((tag :: r0) ++ outer) bssBeforeValue stk tot -> top_ok tot stk outer ->
  b_next (r_bits r) = b_next b1 -> r_lst r = Some tab ->
  exists r1, r_next_raw ts api fuel r = (r1, Err).
Proof.
  intros HTC Hbytes Hpres Hsp Hb T Hn Hl. inversion Hbytes as [|? ? Htag Hr0]; subst.
  destruct (tag_split tot Htot tag Htag) as (Etag & Ht16 & Hlo16).
  unfold scalar_present, hdr_of in Hpres. cbv zeta in Hpres.
  destruct (if tag mod 16 =? 14 then lim_varuint r0 else Some (tag mod 16, r0)) as [[len r1]|] eqn:Elen0;
    [|rewrite andb_false_r in Hpres; discriminate].
  destruct (take_n len r1) as [[body rest]|] eqn:Etk; [|rewrite andb_false_r in Hpres; discriminate].
  assert (Hr : tag mod 16 <> 15 /\ 2 <= tag / 16 <= 10 /\ tag / 16 <> 5) by lia. destruct Hr as (Hlo15 & Ht & Ht5).
  assert (Elen : (if (tag mod 16 =? 14) || ((tag / 16 =? 13) && (tag mod 16 =? 1)) then lim_varuint r0 else Some (tag mod 16, r0))
                 = Some (len, r1)).
  { replace ((tag / 16 =? 13) && (tag mod 16 =? 1)) with false by lia. rewrite orb_false_r. exact Elen0. }
  assert (Es0 : ((tag / 16 =? 13) && (tag mod 16 =? 1)) && (len =? 0) = false) by lia.
  destruct (hdr_spec ts tot Htot b1 tag r0 len r1 body rest outer stk Htag Hr0 ltac:(lia) ltac:(lia) ltac:(lia) Elen Es0 Etk ltac:(lia) Hb T)
    as (b' & E1 & Hb' & Ec & El & Elb & Hbb & Hbr).
  rewrite <- Hn in E1. pose proof (bs_null _ _ _ _ _ Hb') as Nl.
  cbn [sl_value] in Hsp. cbv zeta in Hsp.
  replace (tag / 16 =? 15) with false in Hsp by lia. replace (tag mod 16 =? 15) with false in Hsp by lia.
  replace (tag / 16 =? 1) with false in Hsp by lia. rewrite Elen in Hsp. rewrite Es0, Etk in Hsp.
  replace (tag / 16 =? 0) with false in Hsp by lia.
  unfold r_next_raw. rewrite E1. cbv zeta. rewrite Nl.
  assert (Cs : tag / 16 = 2 \/ tag / 16 = 3 \/ tag / 16 = 4 \/ tag / 16 = 6 \/ tag / 16 = 7 \/ tag / 16 = 8 \/ tag / 16 = 9 \/ tag / 16 = 10) by lia.
  destruct Cs as [Et|[Et|[Et|[Et|[Et|[Et|[Et|Et]]]]]]]; rewrite Et in Hsp, Ec; cbn [N.eqb Pos.eqb] in Hsp; try discriminate;
    cbn [bitcode_of_high N.eqb Pos.eqb] in Ec; rewrite Ec; disp.
  - destruct (sp_uint body =? 0) eqn:Ez; [|discriminate].
    destruct (read_int_negzero b' body (rest ++ outer) stk Hbb Hb' El Ec) as (b'' & Er); [change (from_be body) with (sp_uint body); lia|].
    unfold lift. rewrite Er. eexists; reflexivity.
  - destruct (len =? 0) eqn:L0; [discriminate|]. destruct (len =? 4) eqn:L4; [discriminate|]. destruct (len =? 8) eqn:L8; [discriminate|].
    destruct (read_float_badlen b' body (rest ++ outer) stk Hb' El Ec) as (b'' & Er); try lia.
    unfold lift. rewrite Er. eexists; reflexivity.
  - destruct (read_timestamp_bad b' body (rest ++ outer) stk) as (b'' & Er); auto.
    { intros Q. rewrite Q in Hsp. discriminate. }
    unfold lift. rewrite Er. eexists; reflexivity.
  - destruct (8 <? len) eqn:E8.
    + unfold lift, b_read_symbol_id. rewrite Ec. change (negb (bcSymbol =? bcSymbol)) with false. cbv iota.
      replace (8 <? b_len b') with true by (rewrite El; lia). eexists; reflexivity.
    + destruct (resolve_sid ctx (sp_uint body)) as [y|] eqn:Ery; [discriminate|].
      destruct (read_symbol_gen tot Htot b' body (rest ++ outer) stk Hbb ltac:(lia) Hb' El Ec) as (b'' & Er & Hb'').
      unfold lift. rewrite Er. unfold cur_lst. rsimpl. rewrite Hl.
      change (from_be body) with (sp_uint body). rewrite (resolve_none tab ctx _ HTC Ery). eexists; reflexivity.
  - destruct (utf8_valid body) eqn:Eu; [discriminate|].
    destruct (read_string_bad b' body (rest ++ outer) stk Eu Hb' El Ec) as (b'' & Er).
    unfold lift. rewrite Er. eexists; reflexivity.
Qed.

Lemma raw_rej_badtag api fuel r b1 tag r0 outer stk :
  Forall (fun c => c < 256) (tag :: r0) -> bad_tag tag = true ->
  BS b1 ((tag :: r0) ++ outer) bssBeforeValue stk tot -> top_ok tot stk outer ->
  b_next (r_bits r) = b_next b1 ->
  exists r1, r_next_raw ts api fuel r = (r1, Err).
Proof.
  intros Hbytes Hbad Hb T Hn. inversion Hbytes as [|? ? Htag Hr0]; subst.
  assert (R : room b1 1).
  { change ((tag :: r0) ++ outer) with ([tag] ++ r0 ++ outer) in Hb. exact (room_top ts tot Htot _ _ _ _ _ _ Hb T). }
  destruct (b_next_bad_tag b1 tag (r0 ++ outer) stk Hb R Htag Hbad) as (b' & E).
  rewrite <- Hn in E. eexists. apply raw_next_err. exact E.
Qed.

(* ---- streams ------------------------------------------------------------------------------------------------------------------- *)
Section StreamR.
Variable cov : nat -> symctx -> list N -> bool.
(* every covered malformed item, met at top level, stops the traversal with an error *)
Definition COVOK : Prop := forall tab ctx f tag r0 r, TC tab ctx -> BY (tag :: r0) -> cov (S f) ctx (tag :: r0) = true ->
  sl_value ts (S f) ctx (tag :: r0) = None -> PRE3 ts tot (r_next_inner ts) tab r (tag :: r0) [] [] None [] -> RIO r ->
  STOPSD r 0 (2 * length (tag :: r0)).
Hypothesis Hcov : COVOK.

Lemma sj_stream_S k ctx l : sj_stream ts cov (S k) ctx l =
  match l with
  | [] => VAcc []
  | _ => match l with
         | 224 :: 1 :: 0 :: 234 :: r => sj_stream ts cov k system_ctx r
         | _ => match sl_value ts (S k) ctx l with
                | Some (None, r) => sj_stream ts cov k ctx r
                | Some (Some v, r) =>
                  match lst_gate ctx v with
                  | None => VOut
                  | Some None => vcons v (sj_stream ts cov k ctx r)
                  | Some (Some ctx') => sj_stream ts cov k ctx' r
                  end
                | None => if cov (S k) ctx l then VRej else VOut
                end
         end
  end.
Proof. destruct l; reflexivity. Qed.

Definition RGATE (k : nat) (ctx : symctx) (v : value) (r : list N) : verdict :=
  match lst_gate ctx v with
  | None => VOut
  | Some None => vcons v (sj_stream ts cov k ctx r)
  | Some (Some ctx') => sj_stream ts cov k ctx' r
  end.

Definition STOPS (r : rstate) (l : list N) : Prop :=
  forall M acc, (2 * length l < M)%nat ->
    exists r' acc', traverse_loop ts M r 0 acc = (r', acc', false) /\ r_err r' = true.

Lemma stream_R k : forall ctx l, sj_stream ts cov k ctx l = VRej -> BY l ->
  forall tab r, INV tab ctx -> ctx_size ctx < two63 -> PRE2 ts tot (r_next_inner ts) tab r l [] [] -> RIO r -> STOPS r l.
Proof.
  induction k as [|k IH]; intros ctx l Hsj Hb tab r Hinv Hsz P Rio.
  { destruct l; cbn [sj_stream] in Hsj; discriminate. }
  rewrite sj_stream_S, bvm_match in Hsj. fold (RGATE k ctx) in Hsj.
  pose proof (inv_tc tab ctx Hinv Hsz) as HTC.
  assert (G : match sl_value ts (S k) ctx l with
              | Some (None, r) => sj_stream ts cov k ctx r
              | Some (Some v, r) => RGATE k ctx v r
              | None => if cov (S k) ctx l then VRej else VOut end = VRej -> l <> [] -> STOPS r l).
  { intros H Hne. destruct l as [|tag r0]; [contradiction|].
    destruct (sl_value ts (S k) ctx (tag :: r0)) as [[[v|] rest']|] eqn:E.
    - destruct (sl_value_suffix _ _ _ _ _ _ Hb E) as (pre & Ep & Hpre).
      unfold RGATE, lst_gate in H. destruct (lst_like v) eqn:Ell.
      + destruct (is_lst v) as [fs|] eqn:Eis; [|discriminate]. destruct (apply_lst ctx fs) as [ctx'|] eqn:Eap; [|discriminate].
        destruct (lst_ok fs ctx') eqn:Eok; [|discriminate].
        destruct (is_lst_shape v fs Eis) as (ys & ->).
        destruct (lst3 ts Hts tot Htot tab ctx k r tag r0 ys fs rest' Hinv HTC Hb E Ell ctx' Eap Eok P) as (tab' & Hinv' & Hsz' & P' & Hbr).
        pose proof (IH _ rest' H Hbr tab' r Hinv' Hsz' P' Rio) as St.
        intros M acc HM. apply St. rewrite Ep, app_length in HM. lia.
      + destruct (sj_stream ts cov k ctx rest') as [vs'| |] eqn:E2; cbn [vcons] in H; try discriminate.
        pose proof (cost_all ts Hts tot Htot _ ctx _ _ _ Hb E) as Hc.
        intros M acc HM.
        assert (EM : exists m', (M = cost v + m' /\ 2 * length rest' < m')%nat).
        { exists (M - cost v)%nat. rewrite Ep, app_length in *. lia. }
        destruct EM as (m' & -> & Hm').
        destruct (proj1 (val_all ts Hts tot Htot (S k)) tab ctx (tag :: r0) v rest' [] [] None None r 0%nat acc m'
                    HTC Logic.I Hb E ltac:(intros _; exact Ell) (to3 ts tot _ _ _ _ _ _ P eq_refl) Rio)
          as (r1 & toks1 & E1 & Ep1 & Rs1 & Rio1 & Hbr).
        rewrite E1.
        exact (IH ctx rest' E2 Hbr tab r1 Hinv Hsz (RS_PRE2 ts tot _ _ _ _ _ _ Rs1 (proj2 Rio1)) Rio1 m' _ Hm').
    - destruct (sl_value_suffix _ _ _ _ _ _ Hb E) as (pre & Ep & Hpre).
      destruct (pre2_pad ts Hts tot Htot (r_next_inner ts) tab ctx r k tag r0 rest' [] [] HTC eq_refl Hb E P) as (P1 & Hbr).
      pose proof (IH ctx rest' H Hbr tab r Hinv Hsz P1 Rio) as St.
      intros M acc HM. apply St. rewrite Ep, app_length in HM. lia.
    - destruct (cov (S k) ctx (tag :: r0)) eqn:Ecov; [|discriminate].
      exact (Hcov tab ctx k tag r0 r HTC Hb Ecov E (to3 ts tot _ _ _ _ _ _ P eq_refl) Rio). }
  destruct l as [|c0 [|c1 [|c2 [|c3 r3]]]]; try (apply G; [exact Hsj|discriminate]).
  { discriminate. }
  destruct ((c0 =? 224) && (c1 =? 1) && (c2 =? 0) && (c3 =? 234)) eqn:Eb; [|apply G; [exact Hsj|discriminate]].
  assert (c0 = 224 /\ c1 = 1 /\ c2 = 0 /\ c3 = 234) as (-> & -> & -> & ->) by lia.
  assert (Hr : BY r3) by (exact (forall_tail4 _ _ _ _ _ _ Hb)).
  pose proof (IH system_ctx r3 Hsj Hr LSys r (or_introl (conj eq_refl eq_refl)) ltac:(vm_compute; reflexivity)
           (pre2_bvm ts Hts tot Htot (r_next_inner ts) tab r r3 P) Rio) as St.
  intros M acc HM. apply St. cbn [length] in HM. lia.
Qed.
End StreamR.

End Rej.

(* ---- the judge and the guarded decoder ------------------------------------------------------------------------------------------ *)
Lemma sj_stream_lim ts cov k : forall ctx l,
  match sj_stream ts cov k ctx l with
  | VAcc vs => sl_stream ts k ctx l = Some vs
  | _ => sl_stream ts k ctx l = None
  end.
Proof.
  induction k as [|k IH]; intros ctx l; [destruct l; reflexivity|].
  rewrite sj_stream_S, sl_stream_S, !bvm_match.
  assert (G : match match sl_value ts (S k) ctx l with
                | Some (None, r) => sj_stream ts cov k ctx r
                | Some (Some v, r) => match lst_gate ctx v with
                                      | None => VOut
                                      | Some None => vcons v (sj_stream ts cov k ctx r)
                                      | Some (Some ctx') => sj_stream ts cov k ctx' r end
                | None => if cov (S k) ctx l then VRej else VOut end with
              | VAcc vs => match sl_value ts (S k) ctx l with
                | Some (None, r) => sl_stream ts k ctx r
                | Some (Some v, r) => match lst_gate ctx v with
                                      | None => None
                                      | Some None => option_map (cons v) (sl_stream ts k ctx r)
                                      | Some (Some ctx') => sl_stream ts k ctx' r end
                | None => None end = Some vs
              | _ => match sl_value ts (S k) ctx l with
                | Some (None, r) => sl_stream ts k ctx r
                | Some (Some v, r) => match lst_gate ctx v with
                                      | None => None
                                      | Some None => option_map (cons v) (sl_stream ts k ctx r)
                                      | Some (Some ctx') => sl_stream ts k ctx' r end
                | None => None end = None end).
  { destruct (sl_value ts (S k) ctx l) as [[[v|] r]|].
    - destruct (lst_gate ctx v) as [[ctx'|]|]; [apply IH| |reflexivity].
      specialize (IH ctx r). destruct (sj_stream ts cov k ctx r); cbn [vcons]; rewrite IH; reflexivity.
    - apply IH.
    - destruct (cov (S k) ctx l); reflexivity. }
  destruct l as [|c0 [|c1 [|c2 [|c3 r]]]]; try exact G; [reflexivity|].
  destruct (_ && _ && _ && _); [apply IH|exact G].
Qed.

Lemma sjudge_lim ts cov l :
  match sjudge ts cov l with VAcc vs => sdecode_lim ts l = Some vs | _ => sdecode_lim ts l = None end.
Proof.
  unfold sjudge, sdecode_lim. rewrite !bvm_match.
  destruct l as [|c0 [|c1 [|c2 [|c3 r]]]]; try reflexivity.
  destruct (_ && _ && _ && _); [apply sj_stream_lim|reflexivity].
Qed.

(* ---- the covered class S1 --------------------------------------------------------------------------------------------------------- *)
Section Cov.
Variable ts : list N -> res unit.
Hypothesis Hts : forall bs, ts bs <> Panic /\ ts bs <> OutOfFuel.
Variable tot : N.
Hypothesis Htot : tot < two63.
Lemma covok_scalar : COVOK ts tot cov_scalar.
Proof.
  intros tab ctx f tag r0 r HTC Hb Hcov Hsp P _. apply (errs_stopsd ts).
  eapply pre3_errs; [exact Hts|exact Htot|exact P|].
  intros fuel r1 b1 Hb1 T Hn Hl _ _. unfold cov_scalar in Hcov. apply orb_true_iff in Hcov. destruct Hcov as [Hbad|Hpres].
  - eapply raw_rej_badtag; eauto.
  - eapply raw_rej_scalar; eauto.
Qed.
End Cov.

(* ---- the whole traversal ---------------------------------------------------------------------------------------------------------- *)
Theorem reject_stream ts cov bytes :
  (forall bs, ts bs <> Panic /\ ts bs <> OutOfFuel) -> (forall tot, tot < two63 -> COVOK ts tot cov) ->
  sjudge ts cov bytes = VRej ->
  Forall (fun c => c < 256) bytes -> N.of_nat (length bytes) < two63 ->
  ends_in_error (fst (traverse ts bytes false)).
Proof.
  intros Hts Hcov Hsj Hb Hlen. unfold sjudge in Hsj. rewrite bvm_match in Hsj.
  destruct bytes as [|c0 [|c1 [|c2 [|c3 body]]]]; try discriminate.
  destruct ((c0 =? 224) && (c1 =? 1) && (c2 =? 0) && (c3 =? 234)) eqn:Eb; [|discriminate].
  assert (c0 = 224 /\ c1 = 1 /\ c2 = 0 /\ c3 = 234) as (-> & -> & -> & ->) by lia.
  assert (Hr : Forall (fun c => c < 256) body) by (exact (forall_tail4 _ _ _ _ _ _ Hb)).
  set (inp := 224 :: 1 :: 0 :: 234 :: body) in *.
  set (tot := 4 + N.of_nat (length body)).
  assert (Htot : tot < two63) by (subst tot inp; cbn [length] in Hlen; lia).
  destruct (start_next body) as (E1 & Ec & Es). destruct (start_bvm body) as (E2 & I2 & S2 & K2 & N2 & P2).
  pose proof (start_BS body tot eq_refl) as Hb2.
  set (b1 := fst (b_next (b_init (bvm ++ body) false))) in *. set (b2 := fst (b_read_bvm b1)) in *.
  assert (P0 : PRE2 ts tot (r_next_inner ts) LSys (r_init inp false) body [] []).
  { exists (S (length inp)), (rs_lst (rs_bits (rs_bits (r_clear (r_init inp false)) b1) b2) (Some LSys)),
           (S (S (length inp))), b2.
    split; [unfold NXT, r_next_with, input_fuel; cbn [r_init r_eof r_err orb r_bits b_init b_fuel];
            apply loop_false; apply raw_bvm; assumption|]. rsimpl.
    repeat (split; [solve [auto]|]). split; [rewrite app_nil_r; exact Hb2|]. split; [reflexivity|]. split; [exact Logic.I|].
    subst inp. rewrite app_nil_r. cbn [length]. lia. }
  assert (Rio0 : RIO (r_init inp false)) by (split; [subst inp; apply RInv_init|reflexivity]).
  pose proof (stream_R ts Hts tot Htot cov (Hcov tot Htot) _ _ _ Hsj Hr LSys (r_init inp false)
                (or_introl (conj eq_refl eq_refl)) ltac:(vm_compute; reflexivity) P0 Rio0) as St.
  unfold traverse.
  destruct (St (4 * length inp + 16)%nat [] ltac:(subst inp; cbn [length]; lia)) as (r' & acc' & E & He).
  rewrite E. pose proof (tail_run_err ts r' He) as Et.
  destruct (r_run ts r' [OErr; ONext; OErr; ONext; OErr] []) as [r5 tl]. cbn [snd fst] in *. subst tl.
  unfold ends_in_error.
  change [[101; 49]; [70]; [101; 49]; [70]; [101; 49]] with ([[101; 49]; [70]; [101; 49]; [70]] ++ [[101; 49]]).
  rewrite app_assoc. apply last_last.
Qed.

(* class S1, and the statement in terms of [sdecode] *)
Theorem reject_scalars ts bytes :
  (forall bs, ts bs <> Panic /\ ts bs <> OutOfFuel) -> sjudge ts cov_scalar bytes = VRej ->
  Forall (fun c => c < 256) bytes -> N.of_nat (length bytes) < two63 ->
  ends_in_error (fst (traverse ts bytes false)).
Proof. intros Hts. apply reject_stream; [exact Hts|]. intros tot Htot. apply covok_scalar; assumption. Qed.

Theorem reject_sdecode ts cov bytes :
  (forall bs, ts bs <> Panic /\ ts bs <> OutOfFuel) -> (forall tot, tot < two63 -> COVOK ts tot cov) ->
  sdecode bytes = None -> sjudge ts cov bytes <> VOut ->
  Forall (fun c => c < 256) bytes -> N.of_nat (length bytes) < two63 ->
  ends_in_error (fst (traverse ts bytes false)).
Proof.
  intros Hts Hcov Hsd Hout. apply (reject_stream ts cov); auto.
  pose proof (sjudge_lim ts cov bytes) as H. destruct (sjudge ts cov bytes) as [vs| |]; [|reflexivity|contradiction].
  rewrite (sdecode_lim_sp _ _ _ H) in Hsd. discriminate.
Qed.
