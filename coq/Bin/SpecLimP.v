(* SpecLimP.v — the restricted specification decoder of Bin/SpecLim.v accepts a subset of what
   Bin/SpecBin.v accepts, with the same answers; basic facts about the spec's primitives. *)
From Coq Require Import String List NArith ZArith Bool Lia ZifyBool ZifyN ZifyNat.
From IonV Require Import Base.Wire Base.Utf8 Bin.Bits Bin.BitsP Data.Ion Num.Float Bin.SpecBin Bin.BitStream Bin.BinReader Bin.SpecLim.
Import ListNotations.
Open Scope N_scope.

Lemma lim_varuint_sp l v r : lim_varuint l = Some (v, r) ->
  sp_varuint l 0 = Some (v, r) /\ N.of_nat (length l - length r) <= 10 /\ v < two64.
Proof.
  unfold lim_varuint. destruct (sp_varuint l 0) as [[v0 r0]|]; [|discriminate].
  destruct (_ && _) eqn:E; [|discriminate]. intros H. inversion H; subst. split; [reflexivity|]. lia.
Qed.
Lemma lim_varint_sp l v n r : lim_varint l = Some (v, n, r) ->
  sp_varint l = Some (v, n, r) /\ N.of_nat (length l - length r) <= 10 /\ (-2147483648 <= v <= 2147483647)%Z.
Proof.
  unfold lim_varint. destruct (sp_varint l) as [[[v0 n0] r0]|]; [|discriminate].
  destruct (_ && _) eqn:E; [|discriminate]. intros H. inversion H; subst. split; [reflexivity|]. lia.
Qed.

Lemma sl_annots_sp ctx k : forall l ys, sl_annots ctx k l = Some ys -> sp_annots ctx k l = Some ys.
Proof.
  induction k as [|k IH]; intros l ys; destruct l as [|c l']; cbn [sl_annots sp_annots]; auto.
  destruct (lim_varuint (c :: l')) as [[sid r]|] eqn:E; [|discriminate].
  destruct (lim_varuint_sp _ _ _ E) as [E' _]. rewrite E'.
  destruct (resolve_sid ctx sid); [|discriminate]. destruct (sl_annots ctx k r) eqn:E2; [|discriminate].
  rewrite (IH _ _ E2). auto.
Qed.

Lemma sp_items_mono {A} (i1 i2 : list N -> option (option A * list N)) :
  (forall l x, i1 l = Some x -> i2 l = Some x) ->
  forall k l y, sp_items i1 k l = Some y -> sp_items i2 k l = Some y.
Proof.
  intros H. induction k as [|k IH]; intros l y; destruct l as [|c l']; cbn [sp_items]; auto.
  destruct (i1 (c :: l')) as [[[a|] r]|] eqn:E; try discriminate; rewrite (H _ _ E).
  - destruct (sp_items i1 k r) eqn:E2; [|discriminate]. rewrite (IH _ _ E2). auto.
  - apply IH.
Qed.

Lemma sl_value_sp ts f : forall ctx l x, sl_value ts f ctx l = Some x -> sp_value f ctx l = Some x.
Proof.
  induction f as [|f IH]; intros ctx l x; [discriminate|]. cbn [sl_value sp_value].
  destruct l as [|tag r0]; [discriminate|]. cbv zeta.
  destruct (tag / 16 =? 15); [discriminate|]. destruct (tag mod 16 =? 15); [auto|].
  destruct (tag / 16 =? 1); [auto|].
  set (sorted := (tag / 16 =? 13) && (tag mod 16 =? 1)).
  assert (Hlen : forall len r1, (if (tag mod 16 =? 14) || sorted then lim_varuint r0 else Some (tag mod 16, r0)) = Some (len, r1) ->
                 (if (tag mod 16 =? 14) || sorted then sp_varuint r0 0 else Some (tag mod 16, r0)) = Some (len, r1)).
  { intros len r1. destruct ((tag mod 16 =? 14) || sorted); [|auto]. intros E. apply (lim_varuint_sp _ _ _ E). }
  destruct (if (tag mod 16 =? 14) || sorted then lim_varuint r0 else Some (tag mod 16, r0)) as [[len r1]|] eqn:El; [|discriminate].
  rewrite (Hlen _ _ eq_refl). destruct (sorted && (len =? 0)); [discriminate|].
  destruct (take_n len r1) as [[body rest]|]; [|discriminate].
  destruct (tag / 16 =? 0); [auto|]. destruct (tag / 16 =? 2); [auto|]. destruct (tag / 16 =? 3); [auto|].
  destruct (tag / 16 =? 4); [auto|].
  destruct (tag / 16 =? 5).
  { destruct body as [|b0 body']; [auto|]. destruct (lim_varint (b0 :: body')) as [[[e n] cb]|] eqn:Ev; [|discriminate].
    destruct (lim_varint_sp _ _ _ _ Ev) as [Ev' _]. rewrite Ev'. destruct (sp_int cb) as [c nz]. auto. }
  destruct (tag / 16 =? 6). { destruct (ts body); try discriminate. auto. }
  destruct (tag / 16 =? 7). { destruct (8 <? len); [discriminate|auto]. }
  destruct (tag / 16 =? 8); [auto|]. destruct (tag / 16 =? 9); [auto|]. destruct (tag / 16 =? 10); [auto|].
  destruct (tag / 16 =? 11).
  { destruct (sp_items (sl_value ts f ctx) (length body) body) eqn:E; [|discriminate].
    rewrite (sp_items_mono _ _ (IH ctx) _ _ _ E). auto. }
  destruct (tag / 16 =? 12).
  { destruct (sp_items (sl_value ts f ctx) (length body) body) eqn:E; [|discriminate].
    rewrite (sp_items_mono _ _ (IH ctx) _ _ _ E). auto. }
  destruct (tag / 16 =? 13).
  { match goal with |- option_map _ (sp_items ?I1 _ _) = _ -> option_map _ (sp_items ?I2 _ _) = _ =>
      assert (HI : forall l x, I1 l = Some x -> I2 l = Some x) end.
    { intros l' y. destruct (lim_varuint l') as [[sid r']|] eqn:Es; [|discriminate].
      destruct (lim_varuint_sp _ _ _ Es) as [Es' _]. rewrite Es'.
      destruct (resolve_sid ctx sid) as [yy|]; [|discriminate].
      destruct (sl_value ts f ctx r') as [[[v|] r'']|] eqn:Ev; try discriminate; rewrite (IH _ _ _ Ev); auto. }
    match goal with |- option_map _ (sp_items ?I1 _ _) = _ -> _ =>
      destruct (sp_items I1 (length body) body) eqn:E; [|discriminate] end.
    rewrite (sp_items_mono _ _ HI _ _ _ E). auto. }
  destruct (tag / 16 =? 14); [|auto].
  destruct (len <? 3); [discriminate|]. destruct (lim_varuint body) as [[alen r2]|] eqn:Ea; [|discriminate].
  destruct (lim_varuint_sp _ _ _ Ea) as [Ea' _]. rewrite Ea'. destruct (alen =? 0); [discriminate|].
  destruct (take_n alen r2) as [[ab vb]|]; [|discriminate].
  destruct (sl_annots ctx (length ab) ab) as [ys|] eqn:Ey; [|discriminate]. rewrite (sl_annots_sp _ _ _ _ Ey).
  destruct vb as [|vt vb']; [discriminate|]. destruct (vt / 16 =? 14); [discriminate|].
  destruct (sl_value ts f ctx (vt :: vb')) as [[[v|] [|]]|] eqn:Ev; try discriminate. rewrite (IH _ _ _ Ev). auto.
Qed.

Lemma lst_like_is_lst v : lst_like v = false -> is_lst v = None.
Proof.
  destruct v; try reflexivity. cbn [lst_like is_lst]. destruct a as [|[t|n] a]; try reflexivity.
  destruct v; try reflexivity. intros ->. reflexivity.
Qed.

Lemma bvm_match {A} (l : list N) (f : list N -> A) (g : A) :
  (match l with 224 :: 1 :: 0 :: 234 :: r => f r | _ => g end) =
  (match l with
   | c0 :: c1 :: c2 :: c3 :: r => if (c0 =? 224) && (c1 =? 1) && (c2 =? 0) && (c3 =? 234) then f r else g
   | _ => g end).
Proof.
  destruct l as [|c0 l1]; [reflexivity|].
  destruct c0 as [|p]; [destruct l1 as [|? [|? [|? ?]]]; reflexivity|].
  do 8 (try (destruct p as [p|p|]; try (destruct l1 as [|? [|? [|? ?]]]; reflexivity))).
  destruct l1 as [|c1 l2]; [reflexivity|].
  destruct c1 as [|[q|q|]]; try (destruct l2 as [|? [|? ?]]; reflexivity).
  destruct l2 as [|c2 l3]; [reflexivity|].
  destruct c2; [|destruct l3; reflexivity].
  destruct l3 as [|c3 r]; [reflexivity|].
  destruct c3 as [|p3]; [reflexivity|]. do 8 (try (destruct p3 as [p3|p3|]; try reflexivity)).
Qed.

Lemma sl_stream_S ts k ctx l : sl_stream ts (S k) ctx l =
  match l with
  | [] => Some []
  | _ => match l with
         | 224 :: 1 :: 0 :: 234 :: r => sl_stream ts k system_ctx r
         | _ => match sl_value ts (S k) ctx l with
                | Some (None, r) => sl_stream ts k ctx r
                | Some (Some v, r) =>
                  match lst_gate ctx v with
                  | None => None
                  | Some None => option_map (cons v) (sl_stream ts k ctx r)
                  | Some (Some ctx') => sl_stream ts k ctx' r
                  end
                | None => None
                end
         end
  end.
Proof. destruct l; reflexivity. Qed.
Lemma sp_stream_S k ctx l : sp_stream (S k) ctx l =
  match l with
  | [] => Some []
  | _ => match l with
         | 224 :: 1 :: 0 :: 234 :: r => sp_stream k system_ctx r
         | _ => match sp_value (S k) ctx l with
                | Some (None, r) => sp_stream k ctx r
                | Some (Some v, r) =>
                  match is_lst v with
                  | Some fs => match apply_lst ctx fs with Some ctx' => sp_stream k ctx' r | None => None end
                  | None => option_map (cons v) (sp_stream k ctx r)
                  end
                | None => None
                end
         end
  end.
Proof. destruct l; reflexivity. Qed.

Lemma sl_stream_sp ts k : forall ctx l vs, sl_stream ts k ctx l = Some vs -> sp_stream k ctx l = Some vs.
Proof.
  induction k as [|k IH]; intros ctx l vs; [destruct l; cbn [sl_stream sp_stream]; auto|].
  rewrite sl_stream_S, sp_stream_S, !bvm_match.
  assert (G : forall vs, match sl_value ts (S k) ctx l with
                | Some (None, r) => sl_stream ts k ctx r
                | Some (Some v, r) => match lst_gate ctx v with
                                      | None => None
                                      | Some None => option_map (cons v) (sl_stream ts k ctx r)
                                      | Some (Some ctx') => sl_stream ts k ctx' r end
                | None => None end = Some vs ->
              match sp_value (S k) ctx l with
                | Some (None, r) => sp_stream k ctx r
                | Some (Some v, r) => match is_lst v with Some fs => match apply_lst ctx fs with Some ctx' => sp_stream k ctx' r | None => None end
                                                       | None => option_map (cons v) (sp_stream k ctx r) end
                | None => None end = Some vs).
  { intros vs0. destruct (sl_value ts (S k) ctx l) as [[[v|] r]|] eqn:E; try discriminate;
      rewrite (sl_value_sp _ _ _ _ _ E).
    - unfold lst_gate. destruct (lst_like v) eqn:El.
      + destruct (is_lst v) as [fs|]; [|discriminate]. destruct (apply_lst ctx fs) as [ctx'|]; [|discriminate].
        destruct (lst_ok fs ctx'); [|discriminate]. apply IH.
      + rewrite (lst_like_is_lst _ El).
        destruct (sl_stream ts k ctx r) eqn:E2; [|discriminate]. rewrite (IH _ _ _ E2). auto.
    - apply IH. }
  destruct l as [|c0 [|c1 [|c2 [|c3 r]]]]; auto.
  destruct (_ && _ && _ && _); [apply IH|exact (G vs)].
Qed.

Theorem sdecode_lim_sp ts l vs : sdecode_lim ts l = Some vs -> sdecode l = Some vs.
Proof.
  unfold sdecode_lim, sdecode. rewrite !bvm_match.
  destruct l as [|c0 [|c1 [|c2 [|c3 r]]]]; try discriminate.
  destruct (_ && _ && _ && _); [apply sl_stream_sp|discriminate].
Qed.

(* ---- the spec's primitives ------------------------------------------------------------------------------------------ *)
Lemma take_n_aux_spec : forall l n acc b r, take_n_aux l n acc = Some (b, r) ->
  rev acc ++ l = b ++ r /\ N.of_nat (length b) = N.of_nat (length acc) + n.
Proof.
  induction l as [|x l IH]; intros n acc b r; cbn [take_n_aux].
  - destruct (n =? 0) eqn:E; [|discriminate]. intros H. inversion H; subst. rewrite rev_append_rev, !app_nil_r.
    split; [reflexivity|]. rewrite rev_length. lia.
  - destruct (n =? 0) eqn:E.
    + intros H. inversion H; subst. rewrite rev_append_rev, app_nil_r. split; [reflexivity|]. rewrite rev_length. lia.
    + intros H. destruct (IH _ _ _ _ H) as [H1 H2]. cbn [rev length] in *. rewrite <- app_assoc in H1. cbn [app] in H1.
      split; [exact H1|lia].
Qed.
Lemma take_n_spec n l b r : take_n n l = Some (b, r) -> l = b ++ r /\ N.of_nat (length b) = n.
Proof. intros H. destruct (take_n_aux_spec _ _ _ _ _ H) as [H1 H2]. cbn in H1, H2. split; [exact H1|lia]. Qed.

Lemma sp_varuint_suffix : forall l acc v r, sp_varuint l acc = Some (v, r) ->
  exists ds, l = ds ++ r /\ ds <> [] /\ acc * 128 <= v.
Proof.
  induction l as [|c l IH]; intros acc v r; cbn [sp_varuint]; [discriminate|].
  destruct (128 <=? c) eqn:E.
  - intros H. inversion H; subst. exists [c]. split; [reflexivity|]. split; [discriminate|lia].
  - intros H. destruct (IH _ _ _ H) as (ds & E1 & _ & E3). exists (c :: ds). split; [rewrite E1; reflexivity|].
    split; [discriminate|lia].
Qed.

Lemma sp_read_varuint_loop : forall l acc v r, sp_varuint l acc = Some (v, r) ->
  Forall (fun c => c < 256) l -> v < two64 ->
  forall fuel max len, (length l - length r <= fuel)%nat -> len + N.of_nat (length l - length r) <= max ->
  read_varuint_loop fuel max acc len l = Ok (v, len + N.of_nat (length l - length r), r).
Proof.
  induction l as [|c l IH]; intros acc v r; cbn [sp_varuint]; [discriminate|].
  intros H Hb Hv fuel max len Hf Hm. inversion Hb as [|? ? Hc Hb']; subst.
  destruct (sp_varuint_suffix (c :: l) acc v r H) as (ds & E1 & Hne & Hge).
  assert (Hlen : (length r < length (c :: l))%nat).
  { rewrite E1, app_length. destruct ds; [contradiction|cbn [length]; lia]. }
  destruct fuel as [|f]; [cbn [length] in *; lia|]. cbn [read_varuint_loop].
  replace (max <=? len) with false by (cbn [length] in *; lia).
  replace (max_u64_shr7 <? acc) with false by (unfold max_u64_shr7, two64 in *; lia).
  assert (Ew : wrap64 (acc * 128) = acc * 128) by (unfold wrap64, two64 in *; lia). rewrite Ew.
  destruct (128 <=? c) eqn:E.
  - inversion H; subst. replace (length (c :: r) - length r)%nat with 1%nat by (cbn [length]; lia).
    replace (c mod 128) with (c - 128) by lia. reflexivity.
  - replace (c mod 128) with c by lia.
    destruct (sp_varuint_suffix l _ v r H) as (ds' & E1' & Hne' & _).
    assert (Hl2 : (length r < length l)%nat) by (rewrite E1', app_length; destruct ds'; [contradiction|cbn [length]; lia]).
    rewrite (IH _ _ _ H Hb' Hv f max (len + 1)); [|cbn [length] in *; lia|cbn [length] in *; lia].
    assert (Eq : len + 1 + N.of_nat (length l - length r) = len + N.of_nat (length (c :: l) - length r))
      by (cbn [length]; lia).
    rewrite Eq. reflexivity.
Qed.

Lemma lim_read_varuint l v r max : lim_varuint l = Some (v, r) -> Forall (fun c => c < 256) l ->
  N.of_nat (length l - length r) <= max ->
  read_varuint max l = Ok (v, N.of_nat (length l - length r), r) /\
  exists ds, l = ds ++ r /\ N.of_nat (length ds) = N.of_nat (length l - length r) /\ 0 < N.of_nat (length ds) <= 10.
Proof.
  intros H Hb Hm. destruct (lim_varuint_sp _ _ _ H) as (E & Hk & Hv).
  destruct (sp_varuint_suffix _ _ _ _ E) as (ds & E1 & Hne & _).
  assert (Hl : (length l - length r = length ds)%nat) by (rewrite E1, app_length; lia).
  split.
  - unfold read_varuint. rewrite (sp_read_varuint_loop _ _ _ _ E Hb Hv 11 (N.min max 10) 0); [reflexivity|lia|lia].
  - exists ds. split; [exact E1|]. split; [lia|]. destruct ds; [contradiction|cbn [length] in *; lia].
Qed.

Lemma sp_read_varint_loop : forall l acc m r, sp_varuint l acc = Some (m, r) ->
  Forall (fun c => c < 256) l -> m < two63 ->
  forall fuel max len neg, (length l - length r <= fuel)%nat -> len + N.of_nat (length l - length r) <= max ->
  read_varint_loop fuel max acc len neg l =
    Ok ((if neg then - Z.of_N m else Z.of_N m)%Z, neg, len + N.of_nat (length l - length r), r).
Proof.
  induction l as [|c l IH]; intros acc m r; cbn [sp_varuint]; [discriminate|].
  intros H Hb Hv fuel max len neg Hf Hm. inversion Hb as [|? ? Hc Hb']; subst.
  destruct (sp_varuint_suffix (c :: l) acc m r H) as (ds & E1 & Hne & Hge).
  assert (Hlen : (length r < length (c :: l))%nat).
  { rewrite E1, app_length. destruct ds; [contradiction|cbn [length]; lia]. }
  destruct fuel as [|f]; [cbn [length] in *; lia|]. cbn [read_varint_loop].
  replace (max <=? len) with false by (cbn [length] in *; lia).
  replace (max_i64_shr7 <? acc) with false by (unfold max_i64_shr7, two63 in *; lia).
  assert (Ew : wrap64 (acc * 128) = acc * 128) by (unfold wrap64, two64, two63 in *; lia). rewrite Ew.
  destruct (128 <=? c) eqn:E.
  - inversion H; subst. replace (length (c :: r) - length r)%nat with 1%nat by (cbn [length]; lia).
    replace (c mod 128) with (c - 128) by lia. rewrite i64_mul_sign by exact Hv. reflexivity.
  - replace (c mod 128) with c by lia.
    destruct (sp_varuint_suffix l _ m r H) as (ds' & E1' & Hne' & _).
    assert (Hl2 : (length r < length l)%nat) by (rewrite E1', app_length; destruct ds'; [contradiction|cbn [length]; lia]).
    rewrite (IH _ _ _ H Hb' Hv f max (len + 1) neg); [|cbn [length] in *; lia|cbn [length] in *; lia].
    assert (Eq : len + 1 + N.of_nat (length l - length r) = len + N.of_nat (length (c :: l) - length r))
      by (cbn [length]; lia).
    rewrite Eq. reflexivity.
Qed.

Lemma lim_read_varint l e ng r max : lim_varint l = Some (e, ng, r) -> Forall (fun c => c < 256) l ->
  N.of_nat (length l - length r) <= max ->
  read_varint max l = Ok (e, ng, N.of_nat (length l - length r), r) /\
  exists ds, l = ds ++ r /\ N.of_nat (length ds) = N.of_nat (length l - length r) /\ 0 < N.of_nat (length ds) <= 10 /\
  (-2147483648 <= e <= 2147483647)%Z.
Proof.
  intros H Hb Hm. destruct (lim_varint_sp _ _ _ _ H) as (E & Hk & Hv).
  unfold sp_varint in E. destruct l as [|c l']; [discriminate|]. inversion Hb as [|? ? Hc Hb']; subst.
  unfold read_varint.
  destruct (128 <=? c) eqn:Ec.
  - inversion E; subst. cbn [length] in *. replace (S (length r) - length r)%nat with 1%nat in * by lia.
    replace (max =? 0) with false by lia. split; [reflexivity|]. exists [c]. cbn [length]. repeat split; try lia; reflexivity.
  - destruct (sp_varuint l' (c mod 64)) as [[m r']|] eqn:Es; [|discriminate]. inversion E; subst.
    destruct (sp_varuint_suffix _ _ _ _ Es) as (ds & E1 & Hne & _).
    assert (Hl : (length (c :: l') - length r = S (length ds))%nat) by (rewrite E1; cbn [length]; rewrite app_length; lia).
    assert (Hm63 : m < two63).
    { unfold two63. destruct (64 <=? c mod 128); lia. }
    replace (max =? 0) with false by lia.
    rewrite (sp_read_varint_loop _ _ _ _ Es Hb' Hm63 11 (N.min max 10) 1); [|rewrite E1, app_length; lia|rewrite E1, app_length; lia].
    split.
    + repeat f_equal. rewrite E1, app_length. cbn [length]. rewrite app_length. lia.
    + exists (c :: ds). rewrite E1. split; [reflexivity|]. cbn [length]. rewrite app_length. repeat split; try lia.
Qed.

(* reading a VarUInt / VarInt does not depend on what follows it *)
Lemma read_varuint_loop_app x fuel : forall max val len l v k r,
  read_varuint_loop fuel max val len l = Ok (v, k, r) -> read_varuint_loop fuel max val len (l ++ x) = Ok (v, k, r ++ x).
Proof.
  induction fuel as [|f IH]; intros max val len l v k r; cbn [read_varuint_loop]; [discriminate|].
  destruct (max <=? len); [discriminate|]. destruct l as [|c l']; [discriminate|]. cbn [app].
  destruct (max_u64_shr7 <? val); [discriminate|]. destruct (128 <=? c).
  - intros H. inversion H; subst. reflexivity.
  - apply IH.
Qed.
Lemma read_varuint_app x max l v k r : read_varuint max l = Ok (v, k, r) -> read_varuint max (l ++ x) = Ok (v, k, r ++ x).
Proof. apply read_varuint_loop_app. Qed.
Lemma read_varint_loop_app x fuel : forall max val len neg l v k r,
  read_varint_loop fuel max val len neg l = Ok (v, k, r) -> read_varint_loop fuel max val len neg (l ++ x) = Ok (v, k, r ++ x).
Proof.
  induction fuel as [|f IH]; intros max val len neg l v k r; cbn [read_varint_loop]; [discriminate|].
  destruct (max <=? len); [discriminate|]. destruct l as [|c l']; [discriminate|]. cbn [app].
  destruct (max_i64_shr7 <? val); [discriminate|]. destruct (128 <=? c).
  - intros H. inversion H; subst. reflexivity.
  - apply IH.
Qed.
Lemma read_varint_app x max l v k r : read_varint max l = Ok (v, k, r) -> read_varint max (l ++ x) = Ok (v, k, r ++ x).
Proof.
  unfold read_varint. destruct (max =? 0); [discriminate|]. destruct l as [|c l']; [discriminate|]. cbn [app].
  destruct (128 <=? c); [intros H; inversion H; subst; reflexivity|apply read_varint_loop_app].
Qed.

(* the form in which the header lemmas want a VarUInt length *)
Lemma lim_varuint_layout l v r x : lim_varuint l = Some (v, r) -> Forall (fun c => c < 256) l ->
  exists ds, l = ds ++ r /\ 0 < N.of_nat (length ds) <= 10 /\ v < two64 /\
    forall M, N.of_nat (length ds) <= M -> read_varuint M (ds ++ r ++ x) = Ok (v, N.of_nat (length ds), r ++ x).
Proof.
  intros H Hb. destruct (lim_varuint_sp _ _ _ H) as (_ & _ & Hv).
  destruct (lim_read_varuint l v r (N.of_nat (length l - length r)) H Hb ltac:(lia)) as (_ & ds & E1 & E2 & E3).
  exists ds. split; [exact E1|]. split; [exact E3|]. split; [exact Hv|]. intros M HM.
  destruct (lim_read_varuint l v r M H Hb ltac:(lia)) as (R & _).
  rewrite app_assoc, <- E1. rewrite (read_varuint_app x _ _ _ _ _ R). rewrite E2. reflexivity.
Qed.

(* ---- what a decoded item consumed --------------------------------------------------------------------------------------- *)
Definition Prest {A} (rest : list N) (x : option (A * list N)) : Prop := forall a r', x = Some (a, r') -> r' = rest.
Lemma Prest_none {A} rest : @Prest A rest None. Proof. intros a r' H. discriminate. Qed.
Lemma Prest_some {A} rest (a : A) : Prest rest (Some (a, rest)). Proof. intros a' r' H. inversion H. reflexivity. Qed.
Ltac prest := repeat match goal with
  | |- Prest _ None => apply Prest_none
  | |- Prest _ (Some (_, _)) => apply Prest_some
  | |- Prest _ (if ?c then _ else _) => destruct c
  | |- Prest _ (option_map _ ?c) => destruct c; cbn [option_map]
  | |- Prest _ (let '(_, _) := ?c in _) => destruct c
  | |- Prest _ (match ?c with _ => _ end) => destruct c
  end.

Lemma sl_value_shape ts f ctx tag r0 ov rest' : sl_value ts (S f) ctx (tag :: r0) = Some (ov, rest') ->
  rest' = r0 \/
  exists len r1 body,
    (if (tag mod 16 =? 14) || ((tag / 16 =? 13) && (tag mod 16 =? 1)) then lim_varuint r0 else Some (tag mod 16, r0))
      = Some (len, r1) /\ take_n len r1 = Some (body, rest').
Proof.
  cbn [sl_value]. cbv zeta. destruct (tag / 16 =? 15); [discriminate|].
  destruct (tag mod 16 =? 15).
  { destruct (null_type (tag / 16)); [|discriminate]. intros H. inversion H. left. reflexivity. }
  destruct (tag / 16 =? 1).
  { destruct (tag mod 16 =? 0); [intros H; inversion H; left; reflexivity|].
    destruct (tag mod 16 =? 1); [intros H; inversion H; left; reflexivity|discriminate]. }
  destruct (if (tag mod 16 =? 14) || ((tag / 16 =? 13) && (tag mod 16 =? 1)) then lim_varuint r0 else Some (tag mod 16, r0))
    as [[len r1]|]; [|discriminate].
  destruct ((tag / 16 =? 13) && (tag mod 16 =? 1) && (len =? 0)); [discriminate|].
  destruct (take_n len r1) as [[body rest]|] eqn:Etk; [|discriminate].
  intros H. right. exists len, r1, body. split; [reflexivity|]. rewrite Etk. f_equal. f_equal.
  symmetry. revert ov rest' H. match goal with |- forall a r', ?X = Some (a, r') -> r' = rest => change (Prest rest X) end.
  prest.
Qed.

Lemma sl_value_suffix ts f ctx l ov rest' : Forall (fun c => c < 256) l -> sl_value ts f ctx l = Some (ov, rest') ->
  exists pre, l = pre ++ rest' /\ pre <> [].
Proof.
  intros Hb H. destruct f as [|f]; [discriminate|]. destruct l as [|tag r0]; [discriminate|].
  inversion Hb as [|? ? _ Hr0]; subst.
  destruct (sl_value_shape _ _ _ _ _ _ _ H) as [->|(len & r1 & body & E1 & E2)].
  - exists [tag]. split; [reflexivity|discriminate].
  - destruct (take_n_spec _ _ _ _ E2) as [Er1 _].
    destruct ((tag mod 16 =? 14) || ((tag / 16 =? 13) && (tag mod 16 =? 1))).
    + destruct (lim_varuint_layout r0 len r1 [] E1 Hr0) as (ds & E0 & _).
      exists (tag :: ds ++ body). rewrite E0, Er1. cbn [app]. rewrite <- !app_assoc. split; [reflexivity|discriminate].
    + inversion E1; subst. exists (tag :: body). cbn [app]. split; [reflexivity|discriminate].
Qed.
