(* RejTest.v — NOT part of the build: vm_compute search for counterexamples to "sdecode_lim rejects => the model's full
   traversal ends in error" (and to C03bin) over every single-octet substitution, truncation and deletion of three documents.
   Expected output: [] for doc1 and doc3, the single G7 string ($ion_symbol_table::null.struct) for doc2.  About 60 s. *)
From Coq Require Import String List NArith ZArith Bool.
From IonV Require Import Base.Wire Base.Utf8 Bin.Bits Data.Ion Num.Float Bin.BitStream Bin.BinReader Bin.SpecBin
  Bin.SpecLim Bin.BinReaderTs Bin.Reject.
Import ListNotations.
Open Scope N_scope.

Fixpoint set_nth (l : list N) (i : nat) (c : N) : list N :=
  match l, i with
  | [], _ => []
  | _ :: r, O => c :: r
  | x :: r, S j => x :: set_nth r j c
  end.
Fixpoint bytes_upto (n : nat) : list N := match n with O => [] | S k => N.of_nat k :: bytes_upto k end.
Definition edits (l : list N) : list (list N) :=
  flat_map (fun i => map (set_nth l i) (bytes_upto 256)) (seq 4 (length l - 4))
  ++ map (fun i => firstn i l) (seq 4 (length l - 4))
  ++ map (fun i => firstn i l ++ skipn (S i) l) (seq 4 (length l - 4)).
Definition clean (l : list N) : bool :=
  list_eqb (last (fst (traverse ts_ok_default l false)) []) [101; 48].
Fixpoint list_list_eqb (a b : list (list N)) : bool :=
  match a, b with [], [] => true | x :: a', y :: b' => list_eqb x y && list_list_eqb a' b' | _, _ => false end.
(* 1 = lim rejects, reader clean; 2 = lim accepts, trace differs; 3 = sdecode rejects, reader clean *)
Definition judge (l : list N) : N :=
  match sdecode_lim ts_ok_default l with
  | None => if clean l then (match sdecode l with None => 3 | Some _ => 1 end) else 0
  | Some vs => if list_list_eqb (map proj_tok (fst (traverse ts_ok_default l false))) (trace_of_spec vs) then 0 else 2
  end.
Definition suspicious (doc : list N) : list (N * list N) :=
  flat_map (fun e => let j := judge e in if j =? 0 then [] else [(j, e)]) (edits doc).

(* why the judge does not answer VRej: 100 = accepted, 0 = VRej, 1..5 = the named exclusion of [cov_code] at the first
   rejected item, 20 = a local symbol table outside C03's limits ([lst_gate] = None) *)
Fixpoint sj_why (k : nat) (ctx : symctx) (l : list N) : N :=
  match l with
  | [] => 100
  | _ =>
    match k with
    | O => 30
    | S k' =>
      match l with
      | 224 :: 1 :: 0 :: 234 :: r => sj_why k' system_ctx r
      | _ =>
        match sl_value ts_ok_default k ctx l with
        | Some (None, r) => sj_why k' ctx r
        | Some (Some v, r) =>
          match lst_gate ctx v with
          | None => 20
          | Some None => sj_why k' ctx r
          | Some (Some ctx') => sj_why k' ctx' r
          end
        | None => cov_code ts_ok_default k true ctx l
        end
      end
    end
  end.
Definition why (l : list N) : N :=
  match l with 224 :: 1 :: 0 :: 234 :: r => sj_why (length l) system_ctx r | _ => 40 end.
Definition count (c : N) (l : list N) : N := N.of_nat (length (filter (N.eqb c) l)).
(* per document: for the strings the restricted decoder rejects, how many are VRej (code 0) and how many fall under each
   exclusion; [sync] = every rejected string with code 0 is judged VRej and every other one VOut *)
Definition tally (doc : list N) : list (N * N) * bool :=
  let rej := filter (fun e => match sdecode_lim ts_ok_default e with None => true | Some _ => false end) (edits doc) in
  let ws := map why rej in
  (map (fun c => (c, count c ws)) [0; 1; 2; 3; 4; 5; 9; 20; 30; 40; 100],
   forallb (fun e => match sjudge ts_ok_default (cov_all ts_ok_default) e with
                     | VRej => why e =? 0 | VOut => negb (why e =? 0) | VAcc _ => false end) rej).
Definition doc1 : list N :=
  [224; 1; 0; 234;  33; 7;  49; 5;  72; 64; 9; 33; 251; 84; 68; 45; 24;  82; 193; 12;  104; 128; 15; 208; 129; 129; 128; 128; 128;
   113; 4;  131; 104; 105; 33;  146; 1; 2;  162; 3; 4; 17; 47].
Definition doc2 : list N :=
  [224; 1; 0; 234;
   190; 134; 0; 33; 1; 1; 255; 176;
   209; 138; 132; 33; 2; 0; 133; 15; 132; 0; 135; 192;
   222; 128;
   231; 0; 131; 132; 0; 133; 33; 3;
   238; 135; 129; 137; 209; 131; 132; 113; 4;
   227; 129; 128; 15;
   227; 129; 132; 223;
   195; 178; 17; 16].
Definition doc3 : list N :=
  [224; 1; 0; 234; 183; 33; 1; 196; 33; 2; 113; 5;  214; 132; 129; 97; 133; 33; 9;  230; 129; 132; 211; 134; 33; 1;  99; 128; 15; 208; 0; 1; 255; 224; 1; 0; 234; 17; 190; 131; 177; 15; 64].
Eval vm_compute in (sdecode doc1, sdecode doc3).
Time Eval vm_compute in (tally doc1, tally doc2, tally doc3).
Time Eval vm_compute in (suspicious doc1, suspicious doc2, suspicious doc3).
