(* BitStreamIO.v — the binary reader model and the bufio layer.  Bin/BitStream.v reaches its input [b_in] through four
   primitives only (b_read, b_readN, b_skip, b_peek: ReadByte, io.ReadFull, Discard, Peek of ion/bitstream.go).  Here
   each of them is shown to be a function of what the modelled bufio.Reader (Base/Bufio.v) answers, and to keep the two
   states in step: if a concrete buffered reader [br] over ANY chunk schedule abstracts to the model's remaining input
   ([abs br = flat_of b]), the primitive's result is determined by [do_op … br] and the states still correspond
   afterwards.  Together with C19_bufio_chunk_independent this makes the binary reader model's answers independent of
   how the source cut the bytes, and its failing-source flag the abstraction of a failing io.Reader. *)
From Coq Require Import List NArith Arith Bool Lia.
From IonV Require Import Base.Wire Base.Bufio Base.BufioP Bin.Bits Bin.BitStream Bin.BitStreamP.
Import ListNotations.

Definition fin_of (b : bstate) : ferr := if b_ioerr b then FFail else FEof.
Definition flat_of (b : bstate) : flat := mkFlat (b_in b) (fin_of b).
(* [avail_ok] (Bin/BitStreamP.v): b_avail is the length of the remaining input, part of the reader invariant *)

Lemma split_at_firstn_skipn : forall k (l : list N), (k <= length l)%nat -> split_at k l = (firstn k l, skipn k l).
Proof.
  induction k as [|k IH]; intros l H; [reflexivity|].
  destruct l as [|x r]; [cbn [length] in H; lia|]. cbn [split_at firstn skipn].
  rewrite IH by (cbn [length] in H; lia). reflexivity.
Qed.

(* ---- against the chunk-free specification ---------------------------------------------------------------------- *)
Lemma io_read_spec b :
  snd (b_read b) = (match fst (spec_read_byte (flat_of b)) with
                    | RB c => Ok (Some c) | RBErr EEof => Ok None | RBErr _ => Err end) /\
  flat_of (fst (b_read b)) = snd (spec_read_byte (flat_of b)).
Proof.
  unfold b_read, spec_read_byte, flat_of, fin_of. cbn [f_all f_fin].
  destruct (b_in b) as [|c r] eqn:E.
  - destruct (b_ioerr b) eqn:Ei; cbn [fst snd of_ferr upd_in b_in b_ioerr]; rewrite ?Ei; split; reflexivity.
  - cbn [fst snd upd_in b_in b_ioerr]. split; reflexivity.
Qed.

Lemma io_readN_spec b n :
  avail_ok b ->
  snd (b_readN b n) = (match snd (fst (spec_read_full (N.to_nat n) (flat_of b))) with
                       | None => Ok (fst (fst (spec_read_full (N.to_nat n) (flat_of b)))) | Some _ => Err end) /\
  flat_of (fst (b_readN b n)) = snd (spec_read_full (N.to_nat n) (flat_of b)).
Proof.
  intros Ha. unfold avail_ok in Ha. unfold b_readN, spec_read_full, flat_of, fin_of. cbn [f_all f_fin fst snd].
  destruct (n =? 0)%N eqn:E0.
  - apply N.eqb_eq in E0. subst n. cbn [N.to_nat firstn skipn Nat.leb fst snd]. split; reflexivity.
  - apply N.eqb_neq in E0. cbn [upd_alloc b_in b_avail b_pos b_ioerr].
    destruct (n <=? b_avail b)%N eqn:E1.
    + apply N.leb_le in E1. assert (Hle : (N.to_nat n <= length (b_in b))%nat) by lia.
      rewrite split_at_firstn_skipn by exact Hle.
      assert (E2 : (N.to_nat n <=? length (b_in b))%nat = true) by (apply Nat.leb_le; exact Hle).
      rewrite E2. cbn [fst snd upd_in b_in b_ioerr]. split; reflexivity.
    + apply N.leb_gt in E1. assert (Hgt : (length (b_in b) < N.to_nat n)%nat) by lia.
      assert (E2 : (N.to_nat n <=? length (b_in b))%nat = false) by (apply Nat.leb_gt; exact Hgt).
      rewrite E2. cbn [fst snd upd_in b_in b_ioerr]. rewrite skipn_all2 by lia. split; reflexivity.
Qed.

Lemma io_skip_spec b n :
  avail_ok b -> (n < two63)%N ->
  snd (b_skip b n) = (match snd (fst (spec_discard (N.to_nat n) (flat_of b))) with None => Ok tt | Some _ => Err end) /\
  flat_of (fst (b_skip b n)) = snd (spec_discard (N.to_nat n) (flat_of b)).
Proof.
  intros Ha Hn. unfold avail_ok in Ha. unfold b_skip, spec_discard, flat_of, fin_of. cbn [f_all f_fin fst snd].
  assert (E63 : (two63 <=? n)%N = false) by (apply N.leb_gt; exact Hn). rewrite E63.
  destruct (n <=? b_avail b)%N eqn:E1.
  - apply N.leb_le in E1. assert (Hle : (N.to_nat n <= length (b_in b))%nat) by lia.
    rewrite (Nat.min_l _ _ Hle). rewrite Nat.eqb_refl. cbn [fst snd upd_in b_in b_ioerr]. split; reflexivity.
  - apply N.leb_gt in E1. assert (Hgt : (length (b_in b) < N.to_nat n)%nat) by lia.
    rewrite (Nat.min_r (N.to_nat n) (length (b_in b))) by lia.
    assert (E2 : (length (b_in b) =? N.to_nat n)%nat = false) by (apply Nat.eqb_neq; lia). rewrite E2.
    cbn [fst snd upd_in b_in b_ioerr]. rewrite skipn_all. split; reflexivity.
Qed.

Lemma nth_error_firstn_S : forall k (l : list N), nth_error (firstn (S k) l) k = nth_error l k.
Proof.
  induction k as [|k IH]; intros l; destruct l as [|x r]; try reflexivity.
  cbn [firstn nth_error]. apply IH.
Qed.

Lemma io_peek_spec bsz b k :
  (S (N.to_nat k) <= bsz)%nat ->
  b_peek b k = (match spec_peek bsz (S (N.to_nat k)) (flat_of b) with
                | (d, None, _) => match nth_error d (N.to_nat k) with Some c => Ok c | None => Err end
                | (_, Some _, _) => Err end).
Proof.
  intros Hk. unfold b_peek, spec_peek, flat_of. cbn [f_all f_fin].
  assert (E0 : (bsz <? S (N.to_nat k))%nat = false) by (apply Nat.ltb_ge; exact Hk). rewrite E0.
  destruct (length (b_in b) <? S (N.to_nat k))%nat eqn:E1.
  - apply Nat.ltb_lt in E1. assert (Hn : nth_error (b_in b) (N.to_nat k) = None) by (apply nth_error_None; lia).
    rewrite Hn. reflexivity.
  - apply Nat.ltb_ge in E1.
    assert (Hn : nth_error (firstn (S (N.to_nat k)) (b_in b)) (N.to_nat k) = nth_error (b_in b) (N.to_nat k)).
    { apply nth_error_firstn_S. }
    rewrite Hn. destruct (nth_error (b_in b) (N.to_nat k)) eqn:E2; [reflexivity|].
    apply nth_error_None in E2. lia.
Qed.

(* ---- against a concrete buffered reader over any chunk schedule -------------------------------------------------- *)
Section Sim.
Variable bsz : nat.
Hypothesis bsz_pos : (1 <= bsz)%nat.

(* the model's remaining input is what the buffered reader still holds and will get *)
Definition in_step (br : breader) (b : bstate) : Prop := Inv bsz br /\ abs br = flat_of b.

Lemma sim_read br b :
  in_step br b ->
  let '(r, br') := do_op bsz OReadByte br in
  snd (b_read b) = (match r with ResByte (RB c) => Ok (Some c) | ResByte (RBErr EEof) => Ok None | _ => Err end) /\
  in_step br' (fst (b_read b)).
Proof.
  intros [HI Ha]. destruct (do_op bsz OReadByte br) as [r br'] eqn:E.
  apply (do_op_spec bsz bsz_pos) in E; [|exact HI]. destruct E as [E HI'].
  cbn [spec_op] in E. rewrite Ha in E. destruct (spec_read_byte (flat_of b)) as [rb x'] eqn:Es.
  inversion E as [[Er Ex]]; subst r. destruct (io_read_spec b) as [H1 H2]. rewrite Es in H1, H2. cbn [fst snd] in H1, H2.
  split; [exact H1|]. split; [exact HI'|]. rewrite H2. congruence.
Qed.

Lemma sim_readN br b n :
  in_step br b -> avail_ok b ->
  let '(r, br') := do_op bsz (OReadFull (N.to_nat n)) br in
  snd (b_readN b n) = (match r with ResBytes d None => Ok d | _ => Err end) /\
  in_step br' (fst (b_readN b n)).
Proof.
  intros [HI Ha] Hav. destruct (do_op bsz (OReadFull (N.to_nat n)) br) as [r br'] eqn:E.
  apply (do_op_spec bsz bsz_pos) in E; [|exact HI]. destruct E as [E HI'].
  cbn [spec_op] in E. rewrite Ha in E.
  destruct (spec_read_full (N.to_nat n) (flat_of b)) as [[d e] x'] eqn:Es.
  inversion E as [[Er Ex]]; subst r. destruct (io_readN_spec b n Hav) as [H1 H2]. rewrite Es in H1, H2. cbn [fst snd] in H1, H2.
  split; [rewrite H1; destruct e; reflexivity|]. split; [exact HI'|]. rewrite H2. congruence.
Qed.

Lemma sim_skip br b n :
  in_step br b -> avail_ok b -> (n < two63)%N ->
  let '(r, br') := do_op bsz (ODiscard (N.to_nat n)) br in
  snd (b_skip b n) = (match r with ResCount _ None => Ok tt | _ => Err end) /\
  in_step br' (fst (b_skip b n)).
Proof.
  intros [HI Ha] Hav Hn. destruct (do_op bsz (ODiscard (N.to_nat n)) br) as [r br'] eqn:E.
  apply (do_op_spec bsz bsz_pos) in E; [|exact HI]. destruct E as [E HI'].
  cbn [spec_op] in E. rewrite Ha in E.
  destruct (spec_discard (N.to_nat n) (flat_of b)) as [[k e] x'] eqn:Es.
  inversion E as [[Er Ex]]; subst r. destruct (io_skip_spec b n Hav Hn) as [H1 H2]. rewrite Es in H1, H2. cbn [fst snd] in H1, H2.
  split; [rewrite H1; destruct e; reflexivity|]. split; [exact HI'|]. rewrite H2. congruence.
Qed.

Lemma sim_peek br b k :
  in_step br b -> (S (N.to_nat k) <= bsz)%nat ->
  let '(r, br') := do_op bsz (OPeek (S (N.to_nat k))) br in
  b_peek b k = (match r with
                | ResBytes d None => match nth_error d (N.to_nat k) with Some c => Ok c | None => Err end
                | _ => Err end) /\
  in_step br' b.
Proof.
  intros [HI Ha] Hk. destruct (do_op bsz (OPeek (S (N.to_nat k))) br) as [r br'] eqn:E.
  apply (do_op_spec bsz bsz_pos) in E; [|exact HI]. destruct E as [E HI'].
  cbn [spec_op] in E. rewrite Ha in E.
  destruct (spec_peek bsz (S (N.to_nat k)) (flat_of b)) as [[d e] x'] eqn:Es.
  inversion E as [[Er Ex]]; subst r. rewrite (io_peek_spec bsz b k Hk), Es.
  split; [destruct e; reflexivity|]. split; [exact HI'|].
  (* Peek does not consume: the specification state is unchanged *)
  unfold spec_peek in Es. destruct (bsz <? S (N.to_nat k))%nat; [inversion Es; congruence|].
  destruct (length (f_all (flat_of b)) <? S (N.to_nat k))%nat; inversion Es; congruence.
Qed.

(* a fresh buffered reader over any source that holds the model's input is in step with the fresh model *)
Lemma in_step_init s inp (ioerr : bool) :
  s_rest s = inp -> s_fin s = (if ioerr then FFail else FEof) ->
  in_step (new_breader s) (b_init inp ioerr).
Proof.
  intros Hr Hf. split; [apply inv_new|]. rewrite abs_new, Hr, Hf. reflexivity.
Qed.

End Sim.
