(* RejectAllP.v — class S3 ([cov_all] of Bin/Reject.v): every item the restricted decoder rejects, at any depth of lists,
   s-expressions and structs, except the named exclusions.  The induction over the decoder's fuel; the leaf cases come
   from RejectP / RejectHdrP / RejectFieldP and, as section hypotheses discharged in RejectFinalP.v, decimals, top-level
   truncated scalars and annotation wrappers. *)
From Coq Require Import String List NArith ZArith Bool Lia ZifyBool ZifyN ZifyNat.
From IonV Require Import Base.Wire Base.Utf8 Bin.Bits Bin.BitsP Data.Ion Num.Float Bin.BitStream Bin.BinReader
  Bin.BitStreamP Bin.BitStreamNextP Bin.BinWriter Bin.SpecBin Bin.RoundTripBin Bin.RoundTripBinS Bin.BitEvalP
  Bin.BitEvalAnnP Bin.ReaderTrace Bin.BinReaderInvP Bin.BinReaderP Bin.ReaderTraceP Bin.ReaderTopP
  Bin.ReaderLstP Bin.SpecLim Bin.SpecLimP Bin.SpecLimAppP Bin.BitEvalGenP Bin.SpecAgreeP Bin.BitEvalAnnGenP Bin.SpecAgreeTravP
  Bin.SpecAgreeContP Bin.SpecAgreeTabP Bin.SpecAgreeLstP Bin.SpecAgreeStreamP Bin.Reject Bin.RejectP Bin.RejectVarP Bin.RejectHdrP
  Bin.RejectFieldP Bin.RejectDecP Bin.RejectWrapP Bin.RejectWrap2P.
Import ListNotations.
Open Scope N_scope.
Ltac Zify.zify_post_hook ::= Z.div_mod_to_equations.

Definition stk_top (stk : list (N * N)) : bool := match stk with [] => true | _ => false end.
Definition HDRF (tag : N) (r0 : list N) : option (N * list N) :=
  if (tag mod 16 =? 14) || ((tag / 16 =? 13) && (tag mod 16 =? 1)) then lim_varuint r0 else Some (tag mod 16, r0).

Section All.
Variable ts : list N -> res unit.
Hypothesis Hts : forall bs, ts bs <> Panic /\ ts bs <> OutOfFuel.
Variable tot : N.
Hypothesis Htot : tot < two63.

(* the leaf classes proved elsewhere *)
Definition LEAF_DEC : Prop := forall api fuel r b1 tab ctx f tag r0 outer stk len r1 body rest,
  TC tab ctx -> BY (tag :: r0) -> tag / 16 = 5 -> tag mod 16 <> 15 -> HDRF tag r0 = Some (len, r1) ->
  take_n len r1 = Some (body, rest) -> sl_value ts (S f) ctx (tag :: r0) = None ->
  BS b1 ((tag :: r0) ++ outer) bssBeforeValue stk tot -> top_ok tot stk outer -> b_next (r_bits r) = b_next b1 ->
  exists r1, r_next_raw ts api fuel r = (r1, Err).
Definition LEAF_TRUNC : Prop := forall api fuel r b1 tag r0 len r1,
  BY (tag :: r0) -> tag / 16 <= 10 -> tag / 16 <> 1 -> tag mod 16 <> 15 -> HDRF tag r0 = Some (len, r1) ->
  N.of_nat (length r1) < len ->
  BS b1 ((tag :: r0) ++ []) bssBeforeValue [] tot -> b_next (r_bits r) = b_next b1 ->
  exists r1, r_next_raw ts api fuel r = (r1, Err).
Definition LEAF_WRAP : Prop := forall api fuel r b1 tab ctx f tag r0 outer stk len r1 body rest,
  TC tab ctx -> BY (tag :: r0) -> BY outer -> tag / 16 = 14 -> tag mod 16 <> 15 -> tag mod 16 <> 0 -> HDRF tag r0 = Some (len, r1) ->
  take_n len r1 = Some (body, rest) -> cov_code ts (S f) (stk_top stk) ctx (tag :: r0) = 0 ->
  sl_value ts (S f) ctx (tag :: r0) = None ->
  BS b1 ((tag :: r0) ++ outer) bssBeforeValue stk tot -> top_ok tot stk outer -> b_next (r_bits r) = b_next b1 ->
  r_lst r = Some tab ->
  exists r1, r_next_raw ts api fuel r = (r1, Err).
Hypothesis Htrunc : LEAF_TRUNC.

Lemma stopsd_mono r d n n' : (n <= n')%nat -> STOPSD ts r d n -> STOPSD ts r d n'.
Proof. intros H S M acc HM. apply S. lia. Qed.

Definition REJ2 (f : nat) : Prop := forall tab ctx l outer stk fld fldv r depth,
  TC tab ctx -> FR fld fldv -> BY l -> BY outer -> (stk = [] -> outer = []) ->
  cov_code ts f (stk_top stk) ctx l = 0 -> sl_value ts f ctx l = None ->
  PRE3 ts tot (r_next_inner ts) tab r l outer stk fld [] -> RIO r -> STOPSD ts r depth (2 * length l).

Lemma items_R2 f : REJ2 f -> forall k tab ctx l, sp_items (sl_value ts f ctx) k l = None ->
  first_code (sl_value ts f ctx) (cov_code ts f false ctx) k l = 0 -> BY l -> TC tab ctx ->
  forall outer stk r depth, BY outer -> sav stk = bssBeforeValue -> stk <> [] ->
  PRE2 ts tot (r_next_inner ts) tab r l outer stk -> RIO r -> STOPSD ts r depth (2 * length l).
Proof.
  intros HR. induction k as [|k IH]; intros tab ctx l Hs Hfb Hb HTC outer stk r depth Hbo Hsv Hne P Rio.
  { destruct l; cbn [first_code] in Hfb; discriminate. }
  destruct l as [|tag r0]; [cbn [first_code] in Hfb; discriminate|].
  cbn [sp_items] in Hs. cbn [first_code] in Hfb.
  destruct (sl_value ts f ctx (tag :: r0)) as [[[v|] rest']|] eqn:E.
  - destruct (sp_items (sl_value ts f ctx) k rest') as [vs'|] eqn:E2; [discriminate|].
    destruct (sl_value_suffix _ _ _ _ _ _ Hb E) as (pre & Ep & Hpre).
    pose proof (cost_all ts Hts tot Htot _ ctx _ _ _ Hb E) as Hc.
    intros M acc HM.
    assert (EM : exists m', (M = cost v + m' /\ 2 * length rest' < m')%nat).
    { exists (M - cost v)%nat. rewrite Ep, app_length in *. lia. }
    destruct EM as (m' & -> & Hm').
    destruct (proj1 (val_all ts Hts tot Htot f) tab ctx (tag :: r0) v rest' outer stk None None r depth acc m'
                HTC Logic.I Hb E ltac:(intros Q; contradiction) (to3 ts tot _ _ _ _ _ _ P Hsv) Rio)
      as (r1 & toks1 & E1 & Ep1 & Rs1 & Rio1 & Hbr).
    rewrite E1.
    exact (IH tab ctx rest' E2 Hfb Hbr HTC outer stk r1 depth Hbo Hsv Hne (RS_PRE2 ts tot _ _ _ _ _ _ Rs1 (proj2 Rio1)) Rio1 m' _ Hm').
  - destruct f as [|f']; [discriminate|].
    destruct (sl_value_suffix _ _ _ _ _ _ Hb E) as (pre & Ep & Hpre).
    destruct (pre2_pad ts Hts tot Htot (r_next_inner ts) tab ctx r f' tag r0 rest' outer stk HTC Hsv Hb E P) as (P1 & Hbr).
    pose proof (IH tab ctx rest' Hs Hfb Hbr HTC outer stk r depth Hbo Hsv Hne P1 Rio) as St.
    intros M acc HM. apply St. rewrite Ep, app_length in HM. lia.
  - assert (Et : stk_top stk = false) by (destruct stk; [contradiction|reflexivity]).
    apply (HR tab ctx (tag :: r0) outer stk None None r depth HTC Logic.I Hb Hbo ltac:(intros Q; contradiction)); auto.
    + rewrite Et. exact Hfb.
    + exact (to3 ts tot _ _ _ _ _ _ P Hsv).
Qed.

Definition fld_code (f : nat) (ctx : symctx) (l' : list N) : N :=
  match lim_varuint l' with
  | None => 0
  | Some (sid, r') =>
    match resolve_sid ctx sid with
    | None => 0
    | Some _ => match r' with [] => 0 | _ => cov_code ts f false ctx r' end
    end
  end.

Lemma items_RS2 f : REJ2 f -> forall k tab ctx l, sp_items (sfield ts f ctx) k l = None ->
  first_code (sfield ts f ctx) (fld_code f ctx) k l = 0 -> BY l -> TC tab ctx ->
  forall outer e stk r depth, BY outer ->
  PRE2 ts tot (r_next_inner ts) tab r l outer ((bcStruct, e) :: stk) -> RIO r -> STOPSD ts r depth (2 * length l).
Proof.
  intros HR. induction k as [|k IH]; intros tab ctx l Hs Hfb Hb HTC outer e stk r depth Hbo P Rio.
  { destruct l; cbn [first_code] in Hfb; discriminate. }
  destruct l as [|c0 l0]; [cbn [first_code] in Hfb; discriminate|].
  set (l := c0 :: l0) in *. cbn [sp_items] in Hs. cbn [first_code] in Hfb. fold l in Hs, Hfb.
  unfold sfield at 1 in Hs. unfold sfield at 1 in Hfb. unfold fld_code in Hfb.
  assert (Hbl : BY (l ++ outer)) by (apply Forall_app; split; assumption).
  destruct (lim_varuint l) as [[sid r1]|] eqn:Ev.
  2:{ apply (errs_stopsd ts). eapply pre2_errs; [exact Hts|exact Htot|exact P|].
      intros fuel r0 b1 Hb1 T Hn Hl.
      exact (raw_rej_field_varuint ts Hts tot Htot _ fuel r0 b1 l outer bcStruct e stk Hbl ltac:(subst l; discriminate) Ev Hb1 T Hn). }
  destruct (resolve_sid ctx sid) as [y|] eqn:Ey.
  2:{ apply (errs_stopsd ts). eapply pre2_errs; [exact Hts|exact Htot|exact P|].
      intros fuel r0 b1 Hb1 T Hn Hl.
      exact (raw_rej_field_undef ts Hts tot Htot _ fuel r0 b1 tab ctx l sid r1 outer bcStruct e stk HTC Hb Ev Ey Hb1 T Hn Hl). }
  destruct (field3 ts Hts tot Htot (r_next_inner ts) tab ctx r l sid r1 y outer bcStruct e stk HTC eq_refl Hb Ev Ey P) as (P3 & Hb1).
  destruct (resolve_tok tab ctx sid y HTC Ey) as (_ & _ & _ & Hyn & _).
  destruct (lim_varuint_layout l sid r1 [] Ev Hb) as (ds & E0 & Hds & _).
  assert (Hlen : (length r1 < length l)%nat) by (rewrite E0, app_length; lia).
  destruct (sl_value ts f ctx r1) as [[[v|] rest']|] eqn:E.
  - destruct (sp_items (sfield ts f ctx) k rest') as [fs'|] eqn:E2; [discriminate|].
    destruct (sl_value_suffix _ _ _ _ _ _ Hb1 E) as (pre & Ep & Hpre).
    pose proof (cost_all ts Hts tot Htot _ ctx _ _ _ Hb1 E) as Hc.
    intros M acc HM.
    assert (EM : exists m', (M = cost v + m' /\ 2 * length rest' < m')%nat).
    { exists (M - cost v)%nat. rewrite Ep, app_length in *. lia. }
    destruct EM as (m' & -> & Hm').
    destruct (proj1 (val_all ts Hts tot Htot f) tab ctx r1 v rest' outer ((bcStruct, e) :: stk) (Some (tok_of_sym y sid)) (Some y) r depth acc m'
                HTC (proj_show_tok y sid Hyn) Hb1 E ltac:(intros Q; discriminate) P3 Rio)
      as (r2 & toks1 & E1 & Ep1 & Rs1 & Rio1 & Hbr).
    rewrite E1.
    exact (IH tab ctx rest' E2 Hfb Hbr HTC outer e stk r2 depth Hbo (RS_PRE2 ts tot _ _ _ _ _ _ Rs1 (proj2 Rio1)) Rio1 m' _ Hm').
  - destruct f as [|f']; [discriminate|]. destruct r1 as [|tag r0]; [discriminate|].
    destruct (sl_value_suffix _ _ _ _ _ _ Hb1 E) as (pre & Ep & Hpre).
    destruct (pad3 ts Hts tot Htot (r_next_inner ts) tab ctx r f' tag r0 rest' outer ((bcStruct, e) :: stk) _ HTC ltac:(intros Q; discriminate) Hb1 E P3)
      as (P1 & Hbr).
    pose proof (IH tab ctx rest' Hs Hfb Hbr HTC outer e stk r depth Hbo P1 Rio) as St.
    intros M acc HM. apply St. rewrite Ep, app_length in *. lia.
  - destruct r1 as [|tag r0].
    + apply (errs_stopsd ts). eapply pre3_errs; [exact Hts|exact Htot|exact P3|].
      intros fuel r0 b1 Hb1' T Hn Hl _ _. eexists. apply raw_next_err. rewrite Hn.
      exact (b_next_rej_noval ts Hts tot Htot b1 outer e stk Hb1' T).
    + apply (stopsd_mono r depth (2 * length (tag :: r0))); [lia|].
      apply (HR tab ctx (tag :: r0) outer ((bcStruct, e) :: stk) (Some (tok_of_sym y sid)) (Some y) r depth HTC
               (proj_show_tok y sid Hyn) Hb1 Hbo ltac:(intros Q; discriminate) Hfb E P3 Rio).
Qed.
Lemma rej2_step f : REJ2 f -> REJ2 (S f).
Proof.
  intros HR tab ctx l outer stk fld fldv r depth HTC Hfr Hb Hbo Hout Hcov Hsp P Rio.
  destruct l as [|tag r0]; [discriminate|].
  inversion Hb as [|? ? Htag Hr0]; subst.
  assert (Hbl : Forall (fun c => c < 256) (tag :: r0 ++ outer)) by (constructor; [exact Htag|apply Forall_app; split; assumption]).
  destruct (tag_split tot Htot tag Htag) as (Etag & Ht16 & Hlo16).
  (* a raw error ends the traversal *)
  assert (RAW : (forall fuel r1 b1, BS b1 ((tag :: r0) ++ outer) bssBeforeValue stk tot -> top_ok tot stk outer ->
                   b_next (r_bits r1) = b_next b1 -> r_lst r1 = Some tab ->
                   exists r2, r_next_raw ts (r_next_inner ts) fuel r1 = (r2, Err)) ->
                STOPSD ts r depth (2 * length (tag :: r0))).
  { intros H. apply (errs_stopsd ts). eapply pre3_errs; [exact Hts|exact Htot|exact P|].
    intros fuel r1 b1 Hb1 T Hn Hl _ _. exact (H fuel r1 b1 Hb1 T Hn Hl). }
  assert (NXT_ERR : (forall b1, BS b1 ((tag :: r0) ++ outer) bssBeforeValue stk tot -> top_ok tot stk outer ->
                       exists b', b_next b1 = (b', Err)) -> STOPSD ts r depth (2 * length (tag :: r0))).
  { intros H. apply RAW. intros fuel r1 b1 Hb1 T Hn Hl. destruct (H b1 Hb1 T) as (b' & E). rewrite <- Hn in E.
    eexists. apply raw_next_err. exact E. }
  cbn [cov_code] in Hcov. cbv zeta in Hcov.
  destruct (bad_tag tag) eqn:Ebad.
  { apply RAW. intros fuel r1 b1 Hb1 T Hn Hl. exact (raw_rej_badtag ts Hts tot Htot _ fuel r1 b1 tag r0 outer stk Hb Ebad Hb1 T Hn). }
  destruct ((tag mod 16 =? 15) || (tag / 16 =? 1)) eqn:Enull; [discriminate|].
  assert (Hbt : tag / 16 <= 14 /\ tag / 16 <> 1 /\ tag mod 16 < 15).
  { unfold bad_tag in Ebad. cbv zeta in Ebad. lia. }
  destruct Hbt as (Ht14 & Ht1 & Hlo15).
  destruct ((tag / 16 =? 14) && (tag mod 16 =? 0)) eqn:E140.
  { assert (tag = 224) by lia. subst tag.
    destruct stk as [|p stk'].
    { cbn [stk_top] in Hcov. apply RAW. intros fuel r1 b1 Hb1 T Hn Hl. rewrite (Hout eq_refl) in Hb1.
      apply (raw_rej_e0_top ts tot Htot _ fuel r1 b1 r0 Hb1); [|exact Hn].
      intros r' Q. subst r0. discriminate. }
    apply NXT_ERR. intros b1 Hb1 T.
    assert (R : room b1 1).
    { change ((224 :: r0) ++ outer) with ([224] ++ r0 ++ outer) in Hb1. exact (room_top ts tot Htot _ _ _ _ _ _ Hb1 T). }
    exact (b_next_rej_e0 ts Hts tot Htot b1 (r0 ++ outer) (p :: stk') Hb1 R ltac:(discriminate)). }
  assert (H140 : ~ (tag / 16 = 14 /\ tag mod 16 = 0)) by lia.
  fold (HDRF tag r0) in Hcov.
  destruct (HDRF tag r0) as [[len r1]|] eqn:Elen.
  2:{ apply NXT_ERR. intros b1 Hb1 T. unfold HDRF in Elen.
      destruct ((tag mod 16 =? 14) || ((tag / 16 =? 13) && (tag mod 16 =? 1))) eqn:Ev; [|discriminate].
      exact (b_next_rej_varuint ts tot Htot b1 tag r0 outer stk Hbl Hb1 T Hout Ht14 Ht1 Hlo15 H140 Ev Elen). }
  destruct (((tag / 16 =? 13) && (tag mod 16 =? 1)) && (len =? 0)) eqn:Es0.
  { apply NXT_ERR. intros b1 Hb1 T. unfold HDRF in Elen.
    replace ((tag mod 16 =? 14) || ((tag / 16 =? 13) && (tag mod 16 =? 1))) with true in Elen by lia.
    assert (len = 0) by lia. subst len.
    exact (b_next_rej_sorted0 ts tot Htot b1 tag r0 outer stk r1 Hbl Hb1 T ltac:(lia) ltac:(lia) Elen). }
  destruct (take_n len r1) as [[body rest]|] eqn:Etk.
  2:{ pose proof (take_n_none _ _ Etk) as Hov.
      destruct stk as [|p stk'].
      - cbn [stk_top andb] in Hcov. destruct (11 <=? tag / 16) eqn:E11; [discriminate|].
        apply RAW. intros fuel r1' b1 Hb1 T Hn Hl. rewrite (Hout eq_refl) in Hb1.
        exact (Htrunc _ fuel r1' b1 tag r0 len r1 Hb ltac:(lia) Ht1 ltac:(lia) Elen Hov Hb1 Hn).
      - apply NXT_ERR. intros b1 Hb1 T.
        exact (b_next_rej_overrun ts tot Htot b1 tag r0 outer (p :: stk') len r1 Hbl Hb1 T ltac:(discriminate) Ht14 Ht1 Hlo15 H140 Elen Hov). }
  assert (Hlo15' : tag mod 16 <> 15) by lia.
  destruct (hdr_len ts Hts tot Htot tag r0 len r1 body rest Hr0 (conj Hlo15' (conj Elen Es0)) Etk) as [Hlen Hbb].
  destruct (tag / 16 <=? 10) eqn:E10.
  { (* scalars *)
    apply RAW. intros fuel r1' b1 Hb1 T Hn Hl.
    destruct (tag / 16 =? 5) eqn:E5.
    - unfold HDRF in Elen.
      exact (raw_rej_decimal tot Htot ts _ fuel r1' b1 ctx f tag r0 outer stk len r1 body rest Hb Hbo ltac:(lia) ltac:(lia) Elen Etk Hsp Hb1 T Hn).
    - destruct (tag / 16 =? 0) eqn:E0.
      { exfalso. cbn [sl_value] in Hsp. cbv zeta in Hsp.
        replace (tag / 16 =? 15) with false in Hsp by lia. replace (tag mod 16 =? 15) with false in Hsp by lia.
        replace (tag / 16 =? 1) with false in Hsp by lia. fold (HDRF tag r0) in Hsp. rewrite Elen, Es0, Etk, E0 in Hsp. discriminate. }
      apply (raw_rej_scalar ts Hts tot Htot _ fuel r1' b1 tab ctx f tag r0 outer stk HTC Hb); auto.
      unfold scalar_present, hdr_of. unfold HDRF in Elen.
      replace ((tag / 16 =? 13) && (tag mod 16 =? 1)) with false in Elen by lia. rewrite orb_false_r in Elen.
      rewrite Elen, Etk. lia. }
  destruct (tag / 16 <=? 12) eqn:E12.
  { (* lists and s-expressions *)
    assert (Ht : tag / 16 = 11 \/ tag / 16 = 12) by lia.
    assert (Hit : sp_items (sl_value ts f ctx) (length body) body = None).
    { cbn [sl_value] in Hsp. cbv zeta in Hsp.
      replace (tag / 16 =? 15) with false in Hsp by lia. replace (tag mod 16 =? 15) with false in Hsp by lia.
      replace (tag / 16 =? 1) with false in Hsp by lia. fold (HDRF tag r0) in Hsp. rewrite Elen, Es0, Etk in Hsp.
      destruct Ht as [Et|Et]; rewrite Et in Hsp; cbn [N.eqb Pos.eqb] in Hsp;
        destruct (sp_items (sl_value ts f ctx) (length body) body); [discriminate|reflexivity|discriminate|reflexivity]. }
    intros M acc HM. destruct M as [|m]; [lia|].
    destruct (open3 ts Hts tot Htot tab r tag r0 len r1 body rest outer stk fld fldv [] [] depth acc m Hb ltac:(lia) ltac:(lia) Elen Es0
                Etk Hfr (AR_nil) ltac:(intros Q; lia) P Rio) as (r2 & e & toks1 & E1 & Ep1 & Rs2 & Rio2 & T & Hbb' & Hbr).
    rewrite E1.
    assert (Hsav : sav ((bitcode_of_high (tag / 16), e) :: stk) = bssBeforeValue) by (destruct Ht as [Et|Et]; rewrite Et; reflexivity).
    apply (items_R2 f HR (length body) tab ctx body Hit Hcov Hbb HTC (rest ++ outer) _ r2 (S depth)
             ltac:(apply Forall_app; split; assumption) Hsav ltac:(discriminate)
             (RS_PRE2 ts tot _ _ _ _ _ _ Rs2 (proj2 Rio2)) Rio2).
    cbn [length] in HM. lia. }
  assert (E1314 : tag / 16 = 13 \/ tag / 16 = 14) by lia.
  destruct E1314 as [Et|Et].
  { (* structs *)
    replace (tag / 16 =? 13) with true in Hcov by lia.
    assert (Hit : sp_items (sfield ts f ctx) (length body) body = None).
    { cbn [sl_value] in Hsp. cbv zeta in Hsp.
      replace (tag / 16 =? 15) with false in Hsp by lia. replace (tag mod 16 =? 15) with false in Hsp by lia.
      replace (tag / 16 =? 1) with false in Hsp by lia. fold (HDRF tag r0) in Hsp. rewrite Elen, Es0, Etk in Hsp.
      rewrite Et in Hsp. cbn [N.eqb Pos.eqb] in Hsp.
      match type of Hsp with option_map _ ?X = None => destruct X eqn:Ei; [discriminate|] end. exact Ei. }
    intros M acc HM. destruct M as [|m]; [lia|].
    destruct (open3 ts Hts tot Htot tab r tag r0 len r1 body rest outer stk fld fldv [] [] depth acc m Hb ltac:(lia) ltac:(lia) Elen Es0
                Etk Hfr (AR_nil) ltac:(intros _ _; reflexivity) P Rio) as (r2 & e & toks1 & E1 & Ep1 & Rs2 & Rio2 & T & Hbb' & Hbr).
    rewrite E1. rewrite Et in Rs2. change (bitcode_of_high 13) with bcStruct in Rs2.
    apply (items_RS2 f HR (length body) tab ctx body Hit Hcov Hbb HTC (rest ++ outer) e stk r2 (S depth)
             ltac:(apply Forall_app; split; assumption) (RS_PRE2 ts tot _ _ _ _ _ _ Rs2 (proj2 Rio2)) Rio2).
    cbn [length] in HM. lia. }
  (* annotation wrappers *)
  replace (tag / 16 =? 13) with false in Hcov by lia. cbv iota in Hcov.
  apply RAW. intros fuel r1' b1 Hb1 T Hn Hl. unfold HDRF in Elen.
  exact (raw_rej_wrapper tot Htot ts _ fuel r1' b1 f (stk_top stk) tab ctx tag r0 outer stk len r1 body rest HTC Hb Hbo
           ltac:(lia) ltac:(lia) ltac:(lia) Elen Etk Hcov Hb1 T Hn Hl).
Qed.

Lemma rej2_all : forall f, REJ2 f.
Proof.
  induction f as [|f IH]; [|exact (rej2_step f IH)].
  intros tab ctx l outer stk fld fldv r depth _ _ _ _ _ Hcov. discriminate.
Qed.

Lemma covok_all : COVOK ts tot (cov_all ts).
Proof.
  intros tab ctx f tag r0 r HTC Hb Hcov Hsp P Rio. unfold cov_all in Hcov.
  apply (rej2_all (S f) tab ctx (tag :: r0) [] [] None None r 0%nat HTC Logic.I Hb ltac:(constructor) ltac:(reflexivity)); auto.
  cbn [stk_top]. lia.
Qed.
End All.
