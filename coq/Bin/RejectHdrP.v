(* RejectHdrP.v — headers the restricted decoder rejects: a malformed VarUInt length field, an ordered struct of length 0,
   a length that overruns the enclosing container; at top level a scalar longer than the input. *)
From Coq Require Import String List NArith ZArith Bool Lia ZifyBool ZifyN ZifyNat.
From IonV Require Import Base.Wire Base.Utf8 Bin.Bits Bin.BitsP Data.Ion Num.Float Bin.BitStream Bin.BinReader
  Bin.BitStreamP Bin.BitStreamNextP Bin.BitStreamSkipP Bin.BinWriter Bin.SpecBin Bin.RoundTripBin Bin.RoundTripBinS Bin.BitEvalP
  Bin.BitEvalAnnP Bin.ReaderTrace Bin.BinReaderInvP Bin.BinReaderP Bin.ReaderTraceP Bin.ReaderTopP
  Bin.ReaderLstP Bin.SpecLim Bin.SpecLimP Bin.SpecLimAppP Bin.BitEvalGenP Bin.SpecAgreeP Bin.RejectVarP.
Import ListNotations.
Open Scope N_scope.
Ltac Zify.zify_post_hook ::= Z.div_mod_to_equations.

Ltac bsimpl :=
  cbn [b_in b_ioerr b_pos b_state b_stack b_code b_null b_len b_alloc b_avail b_fuel
       upd_in upd_state upd_stack upd_cur upd_alloc b_clear done_value fst snd] in *.

Lemma take_n_aux_none : forall l n acc, take_n_aux l n acc = None -> N.of_nat (length l) < n.
Proof.
  induction l as [|x l IH]; intros n acc; cbn [take_n_aux]; destruct (n =? 0) eqn:E; try discriminate.
  - intros _. cbn [length]. lia.
  - intros H. specialize (IH _ _ H). cbn [length]. lia.
Qed.
Lemma take_n_none n l : take_n n l = None -> N.of_nat (length l) < n.
Proof. apply take_n_aux_none. Qed.

Section HdrRej.
Variable ts : list N -> res unit.
Variable tot : N.
Hypothesis Htot : tot < two63.

Lemma hdr_facts b1 tag r0 outer stk : BS b1 ((tag :: r0) ++ outer) bssBeforeValue stk tot -> top_ok tot stk outer ->
  room b1 1 /\ b_avail b1 = 1 + N.of_nat (length r0) + N.of_nat (length outer) /\ b_pos b1 + b_avail b1 = tot /\
  match stk with [] => hdr_rem b1 stk = 18446744073709551615 | _ => hdr_rem b1 stk = N.of_nat (length r0) end.
Proof.
  intros Hb T.
  assert (R : room b1 1).
  { change ((tag :: r0) ++ outer) with ([tag] ++ r0 ++ outer) in Hb. exact (room_top ts tot Htot _ _ _ _ _ _ Hb T). }
  destruct Hb as [I Ein St Es Nl Nw]. pose proof (bcore_avail _ (proj1 I)) as A.
  assert (Ha : b_avail b1 = 1 + N.of_nat (length r0) + N.of_nat (length outer)).
  { unfold avail_ok in A. rewrite A, Ein. cbn [app length]. rewrite app_length. lia. }
  split; [exact R|]. split; [exact Ha|]. split; [exact Nw|].
  unfold hdr_rem. destruct stk as [|[c e] stk']; [reflexivity|]. unfold top_ok in T. lia.
Qed.

(* the header of a lengthed item: where [b_next] stands after the tag octet *)
Definition after_tag (b1 : bstate) (rest : list N) : bstate := upd_in b1 rest (b_pos b1 + 1) (b_avail b1 - 1).

Lemma b_next_rej_varuint b1 tag r0 outer stk : Forall (fun c => c < 256) (tag :: r0 ++ outer) ->
  BS b1 ((tag :: r0) ++ outer) bssBeforeValue stk tot -> top_ok tot stk outer -> (stk = [] -> outer = []) ->
  tag / 16 <= 14 -> tag / 16 <> 1 -> tag mod 16 < 15 -> ~ (tag / 16 = 14 /\ tag mod 16 = 0) ->
  (tag mod 16 =? 14) || ((tag / 16 =? 13) && (tag mod 16 =? 1)) = true -> lim_varuint r0 = None ->
  exists b', b_next b1 = (b', Err).
Proof.
  intros Hby Hb T Hout Ht Ht1 Hlo H140 Hv Hlim. inversion Hby as [|? ? Htag Hby0]; subst.
  destruct (hdr_facts b1 tag r0 outer stk Hb T) as (R & Ha & Nw & Hrem).
  destruct (tag_split tot Htot tag Htag) as (Etag & _ & _). set (t := tag / 16) in *. set (lo := tag mod 16) in *.
  pose proof Hb as Hb'. rewrite Etag in Hb'. cbn [app] in Hb'.
  rewrite (b_next_eq tot Htot b1 t lo (r0 ++ outer) stk Hb' R Ht Ht1 Hlo H140). cbv zeta.
  assert (Hmax : hdr_rem b1 stk <= N.of_nat (length r0) \/ outer = []).
  { destruct stk as [|p stk']; [right; apply Hout; reflexivity|left; lia]. }
  destruct ((t =? 13) && (lo =? 1)) eqn:Eso.
  - destruct (read_varuint_rej (upd_in b1 (r0 ++ outer) (b_pos b1 + 1) (b_avail b1 - 1)) r0 outer (hdr_rem b1 stk)) as (b' & E); auto.
    { unfold avail_ok. bsimpl. rewrite app_length. lia. }
    rewrite E. eexists; reflexivity.
  - replace (lo =? 14) with true by lia.
    destruct (read_varuint_rej (upd_state (upd_in b1 (r0 ++ outer) (b_pos b1 + 1) (b_avail b1 - 1)) bssOnValue) r0 outer (hdr_rem b1 stk))
      as (b' & E); auto.
    { unfold avail_ok. bsimpl. rewrite app_length. lia. }
    rewrite E. eexists; reflexivity.
Qed.

(* the VarUInt length field read by the stream reader, when the decoder accepts it *)
Lemma read_len_ok b2 r0 outer len r1 max : avail_ok b2 -> b_in b2 = r0 ++ outer -> Forall (fun c => c < 256) r0 ->
  lim_varuint r0 = Some (len, r1) -> N.of_nat (length r0) <= max \/ 10 <= max ->
  exists b' ds, b_read_varuint b2 max = (b', Ok (len, N.of_nat (length ds))) /\ adv (N.of_nat (length ds)) b2 b' /\
                r0 = ds ++ r1 /\ 0 < N.of_nat (length ds) <= 10 /\ len < two64.
Proof.
  intros A Ein Hby Hlim Hmax.
  destruct (lim_varuint_layout r0 len r1 outer Hlim Hby) as (ds & E0 & Hds & Hv & Hrd).
  assert (Rd : read_varuint max (b_in b2) = Ok (len, N.of_nat (length ds), r1 ++ outer)).
  { rewrite Ein, E0, <- app_assoc. apply Hrd. rewrite E0, app_length in Hmax. lia. }
  destruct (b_read_varuint_list b2 max len _ _ A Rd) as (b' & E & Ad & I').
  exists b', ds. auto.
Qed.

Lemma b_next_rej_sorted0 b1 tag r0 outer stk r1 : Forall (fun c => c < 256) (tag :: r0 ++ outer) ->
  BS b1 ((tag :: r0) ++ outer) bssBeforeValue stk tot -> top_ok tot stk outer ->
  tag / 16 = 13 -> tag mod 16 = 1 -> lim_varuint r0 = Some (0, r1) ->
  exists b', b_next b1 = (b', Err).
Proof.
  intros Hby Hb T Ht Hlo Hlim. inversion Hby as [|? ? Htag Hby0]; subst.
  apply Forall_app in Hby0. destruct Hby0 as [Hr0 _].
  destruct (hdr_facts b1 tag r0 outer stk Hb T) as (R & Ha & Nw & Hrem).
  destruct (tag_split tot Htot tag Htag) as (Etag & _ & _).
  pose proof Hb as Hb'. rewrite Etag, Ht, Hlo in Hb'. cbn [app] in Hb'.
  rewrite (b_next_eq tot Htot b1 13 1 (r0 ++ outer) stk Hb' R ltac:(lia) ltac:(lia) ltac:(lia) ltac:(lia)). cbv zeta.
  change ((13 =? 13) && (1 =? 1)) with true. cbv iota.
  destruct (read_len_ok (upd_in b1 (r0 ++ outer) (b_pos b1 + 1) (b_avail b1 - 1)) r0 outer 0 r1 (hdr_rem b1 stk)) as (b' & ds & E & _); auto.
  { unfold avail_ok. bsimpl. rewrite app_length. lia. }
  { destruct stk as [|p stk']; [right; lia|left; lia]. }
  rewrite E. eexists; reflexivity.
Qed.

(* inside a container: the declared length overruns what the container still holds *)
Lemma b_next_rej_overrun b1 tag r0 outer stk len r1 : Forall (fun c => c < 256) (tag :: r0 ++ outer) ->
  BS b1 ((tag :: r0) ++ outer) bssBeforeValue stk tot -> top_ok tot stk outer -> stk <> [] ->
  tag / 16 <= 14 -> tag / 16 <> 1 -> tag mod 16 < 15 -> ~ (tag / 16 = 14 /\ tag mod 16 = 0) ->
  (if (tag mod 16 =? 14) || ((tag / 16 =? 13) && (tag mod 16 =? 1)) then lim_varuint r0 else Some (tag mod 16, r0)) = Some (len, r1) ->
  N.of_nat (length r1) < len ->
  exists b', b_next b1 = (b', Err).
Proof.
  intros Hby Hb T Hne Ht Ht1 Hlo H140 Hlen Hov. inversion Hby as [|? ? Htag Hby0]; subst.
  apply Forall_app in Hby0. destruct Hby0 as [Hr0 _].
  destruct (hdr_facts b1 tag r0 outer stk Hb T) as (R & Ha & Nw & Hrem).
  destruct (tag_split tot Htot tag Htag) as (Etag & _ & _). set (t := tag / 16) in *. set (lo := tag mod 16) in *.
  pose proof Hb as Hb'. rewrite Etag in Hb'. cbn [app] in Hb'.
  rewrite (b_next_eq tot Htot b1 t lo (r0 ++ outer) stk Hb' R Ht Ht1 Hlo H140). cbv zeta.
  destruct stk as [|[c e] stk']; [contradiction|]. clear Hne.
  pose proof Hb as [I Ein St Es Nl _]. destruct I as (C & _ & _). pose proof C as (_ & _ & P & Sk). rewrite Es in Sk. cbn [stk_ok] in Sk.
  unfold top_ok in T.
  destruct ((t =? 13) && (lo =? 1)) eqn:Eso.
  - replace ((lo =? 14) || true) with true in Hlen by (rewrite orb_true_r; reflexivity).
    destruct (read_len_ok (upd_in b1 (r0 ++ outer) (b_pos b1 + 1) (b_avail b1 - 1)) r0 outer len r1 (hdr_rem b1 ((c, e) :: stk')))
      as (b' & ds & E & Ad & E0 & Hds & Hl64); auto.
    { unfold avail_ok. bsimpl. rewrite app_length. lia. }
    { left; lia. }
    rewrite E. destruct (len =? 0) eqn:El0; [eexists; reflexivity|].
    pose proof (adv_pos _ _ _ Ad) as Q1. pose proof (adv_stack _ _ _ Ad) as Q2. bsimpl.
    rewrite wrap_small in Q1 by (unfold two63, two64 in *; lia).
    unfold b_remaining. bsimpl. rewrite Q2, Es, Q1.
    rewrite E0, app_length in Hrem, Ha.
    replace (e <? b_pos b1 + 1 + N.of_nat (length ds)) with false by lia.
    unfold hdr_fin. replace (e - (b_pos b1 + 1 + N.of_nat (length ds)) <? len) with true by lia. eexists; reflexivity.
  - rewrite orb_false_r in Hlen. destruct (lo =? 14) eqn:E14.
    + destruct (read_len_ok (upd_state (upd_in b1 (r0 ++ outer) (b_pos b1 + 1) (b_avail b1 - 1)) bssOnValue) r0 outer len r1
                  (hdr_rem b1 ((c, e) :: stk'))) as (b' & ds & E & Ad & E0 & Hds & Hl64); auto.
      { unfold avail_ok. bsimpl. rewrite app_length. lia. }
      { left; lia. }
      rewrite E. rewrite E0, app_length in Hrem, Ha. rewrite wrap_sub by (unfold two63, two64 in *; lia).
      unfold hdr_fin. replace (hdr_rem b1 ((c, e) :: stk') - N.of_nat (length ds) <? len) with true by lia. eexists; reflexivity.
    + inversion Hlen; subst len r1. unfold hdr_fin. replace (hdr_rem b1 ((c, e) :: stk') <? lo) with true by lia. eexists; reflexivity.
Qed.
End HdrRej.
