(* BinWriterP.v — theorems about the binary Writer model (Bin/BinWriter.v), for
   every call sequence: errors are sticky and recorded, no call panics, the
   buffer stack mirrors the context stack, and every declared length equals the
   bytes buffered under it. *)
From Coq Require Import List NArith ZArith Bool Lia.
From IonV Require Import Base.Wire Bin.Bits Bin.BitsP Data.Ion Num.Float Bin.BinWriter.
Import ListNotations.
Open Scope N_scope.

(* ---- T1: a recorded error makes every call a no-op that fails ------------------------------ *)
Ltac err_case H :=
  unfold write_symbol_id, write_value, write_value_chunks, begin_container, end_container;
  rewrite ?H; try reflexivity.

Theorem bw_sticky run w c : w_err w = true -> step run w c = Ok (w, false).
Proof.
  intros H. destruct c; cbn [step]; rewrite ?H; try reflexivity; err_case H.
  - (* CInt *) destruct (z =? 0)%Z; err_case H.
  - (* CUint *) destruct (n =? 0); err_case H.
  - (* CFloat *)
    destruct (f64_pos_zero bits); [err_case H|].
    destruct (f64_is_nan bits); [err_case H|].
    destruct (uses_f32 bits); err_case H.
  - (* CString *) destruct t; err_case H.
Qed.

(* ---- T2: a failing call other than Finish has recorded the error --------------------------------- *)
Lemma write_value_false run w val w' :
  write_value run w val = Ok (w', false) -> w_err w' = true.
Proof.
  unfold write_value. destruct (w_err w) eqn:E.
  - intros H. inversion H; subst. exact E.
  - destruct (begin_value run w) as [[w1 ok1]| | |]; cbn [bind]; try discriminate.
    destruct ok1; cbn [negb].
    + destruct (write w1 val) as [w2 ok2]. destruct ok2; cbn [negb].
      * destruct (end_value w2) as [w3 ok3]. intros H. inversion H; subst. reflexivity.
      * intros H. inversion H; subst. reflexivity.
    + intros H. inversion H; subst. reflexivity.
Qed.

Lemma write_value_chunks_false run w cs w' :
  write_value_chunks run w cs = Ok (w', false) -> w_err w' = true.
Proof.
  unfold write_value_chunks. destruct (w_err w) eqn:E.
  - intros H. inversion H; subst. exact E.
  - destruct (begin_value run w) as [[w1 ok1]| | |]; cbn [bind]; try discriminate.
    destruct ok1; cbn [negb].
    + match goal with |- context [fold_left ?f cs (w1, true)] => destruct (fold_left f cs (w1, true)) as [w2 ok2] end.
      destruct ok2; cbn [negb].
      * destruct (end_value w2) as [w3 ok3]. intros H. inversion H; subst. reflexivity.
      * intros H. inversion H; subst. reflexivity.
    + intros H. inversion H; subst. reflexivity.
Qed.

Lemma begin_container_false run w t code w' :
  begin_container run w t code = Ok (w', false) -> w_err w' = true.
Proof.
  unfold begin_container. destruct (w_err w) eqn:E.
  - intros H. inversion H; subst. exact E.
  - destruct (begin_value run w) as [[w1 ok1]| | |]; cbn [bind]; try discriminate.
    destruct ok1; cbn [negb]; intros H; inversion H; subst. reflexivity.
Qed.

Lemma end_container_false w t w' :
  end_container w t = Ok (w', false) -> w_err w' = true.
Proof.
  unfold end_container. destruct (w_err w) eqn:E.
  - intros H. inversion H; subst. exact E.
  - destruct (ctx_peek w =? t); cbn [negb].
    + destruct (match w_bufs w with q :: rest => emit (set_bufs w rest) (node_of_seq q) | [] => (w, true) end) as [w1 ok1].
      destruct ok1; cbn [negb].
      * destruct (w_ctx (clear w1)); [discriminate|].
        destruct (end_value _) as [w2 ok2]. intros H. inversion H; subst. reflexivity.
      * intros H. inversion H; subst. reflexivity.
    + intros H. inversion H; subst. reflexivity.
Qed.

Theorem bw_error_recorded run w c w' :
  step run w c = Ok (w', false) -> c <> CFinish -> w_err w' = true.
Proof.
  intros H Hc. destruct c; cbn [step] in H; try congruence.
  - (* FieldName *) destruct (w_err w) eqn:E; [inversion H; subst; exact E|].
    destruct (in_struct w); cbn [negb] in H; inversion H; subst. reflexivity.
  - destruct (w_err w) eqn:E; inversion H; subst. exact E.
  - destruct (w_err w) eqn:E; inversion H; subst. exact E.
  - eapply write_value_false; exact H.
  - destruct (w_err w) eqn:E; [inversion H; subst; exact E|].
    destruct (14 <=? t); [inversion H; subst; reflexivity|].
    destruct (binary_null t); cbn [bind] in H; try discriminate. eapply write_value_false; exact H.
  - eapply write_value_false; exact H.
  - destruct (z =? 0)%Z; eapply write_value_false; exact H.
  - destruct (n =? 0); eapply write_value_false; exact H.
  - destruct (w_err w) eqn:E; [inversion H; subst; exact E|].
    destruct z as [z|]; [|inversion H; subst; reflexivity].
    destruct (z =? 0)%Z; eapply write_value_chunks_false; exact H.
  - destruct (f64_pos_zero bits); [eapply write_value_false; exact H|].
    destruct (f64_is_nan bits); [eapply write_value_false; exact H|].
    destruct (uses_f32 bits); eapply write_value_false; exact H.
  - destruct (w_err w) eqn:E; [inversion H; subst; exact E|].
    destruct d as [d|]; [|inversion H; subst; reflexivity].
    destruct (_ && _); eapply write_value_false; exact H.
  - eapply write_value_false; exact H.
  - destruct (w_err w) eqn:E; [inversion H; subst; exact E|].
    destruct (tk_text t).
    + destruct (resolve_from_table w t0) as [[w1 id] ok]. destruct ok; cbn [negb] in H.
      * eapply write_value_false; exact H.
      * inversion H; subst. reflexivity.
    + destruct (negb (tk_sid t =? -1)%Z); [eapply write_value_false; exact H|].
      inversion H; subst. reflexivity.
  - destruct (w_err w) eqn:E; [inversion H; subst; exact E|].
    destruct (resolve w t) as [[w1 id] ok]. destruct ok; cbn [negb] in H.
    + eapply write_value_false; exact H.
    + inversion H; subst. reflexivity.
  - destruct t; eapply write_value_false; exact H.
  - eapply write_value_chunks_false; exact H.
  - eapply write_value_chunks_false; exact H.
  - eapply begin_container_false; exact H.
  - eapply end_container_false; exact H.
  - eapply begin_container_false; exact H.
  - eapply end_container_false; exact H.
  - eapply begin_container_false; exact H.
  - eapply end_container_false; exact H.
Qed.

(* lifted over a whole call sequence as a user drives it (every call is made) *)
Fixpoint drive_results (w : wstate) (cs : list wcall) : res (wstate * list bool) :=
  match cs with
  | [] => Ok (w, [])
  | c :: r => do '(w', ok) <- wstep w c;
              do '(w'', oks) <- drive_results w' r; Ok (w'', ok :: oks)
  end.

Theorem bw_sticky_seq : forall cs w w' oks, w_err w = true ->
  drive_results w cs = Ok (w', oks) -> w' = w /\ Forall (fun b => b = false) oks.
Proof.
  induction cs as [|c cs IH]; intros w w' oks He H; cbn [drive_results] in H.
  - inversion H; subst. split; [reflexivity|constructor].
  - unfold wstep in H. rewrite (bw_sticky _ w c He) in H. cbn [bind] in H.
    destruct (drive_results w cs) as [[w2 oks2]| | |] eqn:E; cbn [bind] in H; try discriminate.
    inversion H; subst. destruct (IH w w' oks2 He E) as [-> Hf]. split; [reflexivity|].
    constructor; [reflexivity|exact Hf].
Qed.

(* once a call other than Finish fails, every later call fails *)
Theorem bw_first_failure : forall cs w c w1 w' oks,
  wstep w c = Ok (w1, false) -> c <> CFinish ->
  drive_results w1 cs = Ok (w', oks) -> Forall (fun b => b = false) oks.
Proof.
  intros cs w c w1 w' oks H1 Hc H2.
  apply (bw_error_recorded _ w c w1 H1) in Hc.
  exact (proj2 (bw_sticky_seq cs w1 w' oks Hc H2)).
Qed.

(* ---- the buffer stack mirrors the context stack; declared lengths are exact ------------------------- *)
Definition codes (b : list bufseq) : list (option N) := map bs_code b.
Definition chunks_len (cs : list (list N)) : N := N.of_nat (length (concat cs)).
Definition wf_seq (q : bufseq) : Prop := bs_len q = chunks_len (bs_chunks q).
Definition wf_node (n : node) : Prop := nd_len n = chunks_len (nd_chunks n).

Fixpoint frames (ctx : list N) (cs : list (option N)) : Prop :=
  match ctx with
  | [] => cs = [] \/ cs = [None]
  | _ :: ctx' =>
    exists k rest, cs = Some k :: rest /\ k <> 224 /\
      (frames ctx' rest \/ exists rest', rest = Some 224 :: rest' /\ frames ctx' rest')
  end.

Definition Inv (w : wstate) : Prop :=
  w_err w = true \/ (frames (w_ctx w) (codes (w_bufs w)) /\ Forall wf_seq (w_bufs w)).

Lemma chunks_len_app a b : chunks_len (a ++ b) = chunks_len a + chunks_len b.
Proof. unfold chunks_len. rewrite concat_app, app_length, Nat2N.inj_add. reflexivity. Qed.

Lemma wf_atom b : wf_node (atom b).
Proof. unfold wf_node, atom, chunks_len. cbn. rewrite app_nil_r. reflexivity. Qed.

Lemma wf_new_seq c : wf_seq (new_seq c).
Proof. reflexivity. Qed.

Lemma wf_seq_append q n : wf_seq q -> wf_node n -> wf_seq (seq_append q n).
Proof.
  unfold wf_seq, wf_node, seq_append. cbn. intros -> ->. rewrite chunks_len_app. reflexivity.
Qed.

(* container.Len() is the tag plus the content *)
Lemma container_len_tag len : container_len len = tag_len len + len.
Proof. unfold container_len, tag_len. destruct (len <? 14); lia. Qed.

(* the node made of a well-formed sequence is well-formed: the length its tag declares is the
   number of bytes that follow, and Len() is the size of the whole thing *)
Theorem wf_node_of_seq q : wf_seq q -> wf_node (node_of_seq q).
Proof.
  unfold wf_seq, wf_node, node_of_seq. intros H. destruct (bs_code q) as [c|]; cbn.
  - rewrite container_len_tag. unfold chunks_len. cbn [concat]. rewrite app_length, Nat2N.inj_add.
    rewrite tag_len_ok. rewrite H. reflexivity.
  - exact H.
Qed.

Lemma frames_head_not_wrapper ctx cs rest : frames ctx cs -> cs = Some 224 :: rest -> False.
Proof.
  destruct ctx as [|c ctx']; cbn [frames].
  - intros [->| ->]; discriminate.
  - intros (k & r & -> & Hk & _) H. inversion H. congruence.
Qed.

(* ---- helpers that leave ctx and bufs alone -------------------------------------------------------------- *)
Definition same_frame (w w' : wstate) : Prop :=
  w_ctx w' = w_ctx w /\ w_bufs w' = w_bufs w /\ w_lst w' = w_lst w.

Lemma same_frame_refl w : same_frame w w.
Proof. repeat split. Qed.
Lemma same_frame_trans a b c : same_frame a b -> same_frame b c -> same_frame a c.
Proof. intros (A1 & A2 & A3) (B1 & B2 & B3). repeat split; congruence. Qed.

Lemma resolve_from_table_frame w t w' id ok :
  resolve_from_table w t = (w', id, ok) -> same_frame w w'.
Proof.
  unfold resolve_from_table. destruct (w_lst w).
  - destruct (find_by_name l true t); intros H; inversion H; subst; apply same_frame_refl.
  - destruct (find_by_name (w_lstb w) false t); intros H; inversion H; subst;
      [apply same_frame_refl|repeat split].
Qed.

Lemma resolve_frame w t w' id ok : resolve w t = (w', id, ok) -> same_frame w w'.
Proof.
  unfold resolve. destruct (symbol_identifier t).
  - intros H; inversion H; subst; apply same_frame_refl.
  - apply resolve_from_table_frame.
Qed.

Lemma id_of_tok_field_frame w t w' id : id_of_tok_field w t = Some (w', id) -> same_frame w w'.
Proof.
  unfold id_of_tok_field. destruct (tk_text t).
  - destruct (resolve_from_table w t0) as [[w1 i] ok] eqn:E. destruct ok; [|discriminate].
    intros H; inversion H; subst. eapply resolve_from_table_frame; exact E.
  - destruct (negb (tk_sid t =? -1)%Z); [|discriminate].
    intros H; inversion H; subst; apply same_frame_refl.
Qed.

Lemma id_of_tok_annot_frame w t w' id : id_of_tok_annot w t = Some (w', id) -> same_frame w w'.
Proof.
  unfold id_of_tok_annot. destruct (tk_text t).
  - destruct (resolve_from_table w t0) as [[w1 i] ok] eqn:E. destruct ok; [|discriminate].
    intros H; inversion H; subst. eapply resolve_from_table_frame; exact E.
  - destruct (negb (tk_sid t =? -1)%Z); [|discriminate].
    intros H; inversion H; subst; apply same_frame_refl.
Qed.

Lemma annot_ids_frame ts : forall w w' r, annot_ids w ts = (w', r) -> same_frame w w'.
Proof.
  induction ts as [|t ts IH]; intros w w' r; cbn [annot_ids].
  - intros H; inversion H; subst; apply same_frame_refl.
  - destruct (id_of_tok_annot w t) as [[w1 i]|] eqn:E.
    + destruct (annot_ids w1 ts) as [w2 [ids|]] eqn:E2; intros H; inversion H; subst;
        (eapply same_frame_trans; [eapply id_of_tok_annot_frame; exact E|eapply IH; exact E2]).
    + intros H; inversion H; subst; apply same_frame_refl.
Qed.

(* ---- emit --------------------------------------------------------------------------------------------------- *)
(* what a step may do to the buffer stack below its own pushes: replace the head by a sequence
   with the same code that is still well-formed *)
Definition ext (b b' : list bufseq) : Prop :=
  (b = [] /\ b' = []) \/
  (exists q q' r, b = q :: r /\ b' = q' :: r /\ bs_code q' = bs_code q /\ (wf_seq q -> wf_seq q')).

Lemma ext_refl b : ext b b.
Proof. destruct b as [|q r]; [left; auto|right; exists q, q, r; auto]. Qed.
Lemma ext_trans a b c : ext a b -> ext b c -> ext a c.
Proof.
  intros [[-> ->]|(q & q' & r & -> & -> & Hc & Hw)] H2; [exact H2|].
  destruct H2 as [[H _]|(q1 & q2 & r1 & E1 & -> & Hc2 & Hw2)]; [discriminate|].
  inversion E1; subst. right. exists q, q2, r1. repeat split; [congruence|auto].
Qed.
Lemma ext_codes b b' : ext b b' -> codes b' = codes b.
Proof.
  intros [[-> ->]|(q & q' & r & -> & -> & Hc & _)]; [reflexivity|]. cbn. rewrite Hc. reflexivity.
Qed.
Lemma ext_wf b b' : ext b b' -> Forall wf_seq b -> Forall wf_seq b'.
Proof.
  intros [[-> ->]|(q & q' & r & -> & -> & _ & Hw)] H; [exact H|].
  inversion H; subst. constructor; auto.
Qed.

Lemma emit_ext w n w' ok : wf_node n -> emit w n = (w', ok) ->
  w_ctx w' = w_ctx w /\ w_lst w' = w_lst w /\ ext (w_bufs w) (w_bufs w') /\
  (w_bufs w <> [] -> ok = true).
Proof.
  intros Hn. unfold emit. destruct (w_bufs w) as [|q r] eqn:E.
  - destruct (sink_write_all (w_out w) (nd_chunks n)) as [k o]. intros H; inversion H; subst.
    cbn. rewrite E. repeat split; [left; auto|congruence].
  - intros H; inversion H; subst. cbn. repeat split.
    right. exists q, (seq_append q n), r. repeat split. intros Hq. apply wf_seq_append; assumption.
Qed.

Lemma write_ext w b w' ok : write w b = (w', ok) ->
  w_ctx w' = w_ctx w /\ w_lst w' = w_lst w /\ ext (w_bufs w) (w_bufs w') /\ (w_bufs w <> [] -> ok = true).
Proof. apply emit_ext. apply wf_atom. Qed.

(* ---- endValue ------------------------------------------------------------------------------------------------- *)
Lemma end_value_spec w w' ok : end_value w = (w', ok) -> Forall wf_seq (w_bufs w) ->
  w_ctx w' = w_ctx w /\ w_lst w' = w_lst w /\
  ((exists q rest, w_bufs w = q :: rest /\ bs_code q = Some 224 /\ ext rest (w_bufs w')) \/
   ((forall q rest, w_bufs w = q :: rest -> bs_code q <> Some 224) /\ w' = w /\ ok = true)).
Proof.
  unfold end_value. intros H Hwf. destruct (w_bufs w) as [|q rest] eqn:E.
  - inversion H; subst. repeat split. right. repeat split. intros ? ? ?; discriminate.
  - destruct (bs_code q) as [c|] eqn:Ec.
    + destruct (c =? 224) eqn:E224.
      * apply N.eqb_eq in E224. subst c.
        inversion Hwf; subst.
        destruct (emit_ext _ _ _ _ (wf_node_of_seq q ltac:(assumption)) H) as (A & B & C & _).
        cbn in A, B, C. repeat split; [exact A|exact B|]. left. exists q, rest. auto.
      * apply N.eqb_neq in E224. inversion H; subst. repeat split. right. repeat split.
        intros q0 r0 E0. inversion E0; subst. rewrite Ec. congruence.
    + inversion H; subst. repeat split. right. repeat split.
      intros q0 r0 E0. inversion E0; subst. rewrite Ec. discriminate.
Qed.

(* ---- beginValue, growing-table writer (w.lst == nil: the table is never written from here) --------- *)
Lemma clear_fields w : w_ctx (clear w) = w_ctx w /\ w_bufs (clear w) = w_bufs w /\ w_lst (clear w) = w_lst w
  /\ w_err (clear w) = w_err w.
Proof. repeat split. Qed.

Definition bv_post (w w' : wstate) : Prop :=
  w_ctx w' = w_ctx w /\ w_lst w' = w_lst w /\
  (ext (w_bufs w) (w_bufs w') \/
   exists e b1, w_bufs w' = e :: b1 /\ bs_code e = Some 224 /\ wf_seq e /\ ext (w_bufs w) b1).

Lemma begin_value_builder run w : w_lst w = None ->
  exists w' ok, begin_value run w = Ok (w', ok) /\ (ok = true -> bv_post w w') /\ w_lst w' = None /\
                w_ctx w' = w_ctx w.
Proof.
  intros HL. unfold begin_value.
  set (w0 := clear w).
  assert (H0 : w_ctx w0 = w_ctx w /\ w_bufs w0 = w_bufs w /\ w_lst w0 = None).
  { unfold w0. repeat split. exact HL. }
  destruct H0 as (C0 & B0 & L0). rewrite L0. cbn [bind negb].
  (* the field-name stage *)
  assert (HF : exists w1 ok1,
    (if in_struct w0
     then match w_field w with
          | None => Ok (w0, false)
          | Some nm => match id_of_tok_field w0 nm with
                       | None => Ok (w0, false)
                       | Some (w', id) => Ok (write w' (append_varuint [] id))
                       end
          end
     else Ok (w0, true)) = Ok (w1, ok1) /\
    w_ctx w1 = w_ctx w /\ w_lst w1 = None /\ (ok1 = true -> ext (w_bufs w) (w_bufs w1))).
  { destruct (in_struct w0).
    - destruct (w_field w) as [nm|].
      + destruct (id_of_tok_field w0 nm) as [[w' id]|] eqn:E.
        * destruct (id_of_tok_field_frame _ _ _ _ E) as (A & B & C).
          destruct (write w' (append_varuint [] id)) as [w1 ok1] eqn:Ew.
          destruct (write_ext _ _ _ _ Ew) as (A1 & B1 & C1 & _).
          exists w1, ok1. split; [reflexivity|]. split; [congruence|]. split; [congruence|].
          intros _. rewrite <- B0, <- B. exact C1.
        * exists w0, false. split; [reflexivity|]. split; [exact C0|]. split; [exact L0|discriminate].
      + exists w0, false. split; [reflexivity|]. split; [exact C0|]. split; [exact L0|discriminate].
    - exists w0, true. split; [reflexivity|]. split; [exact C0|]. split; [exact L0|].
      intros _. rewrite B0. apply ext_refl. }
  destruct HF as (w1 & ok1 & -> & C1 & L1 & E1). cbn [bind].
  destruct ok1; cbn [negb].
  2:{ exists w1, false. split; [reflexivity|]. split; [discriminate|]. split; [exact L1|exact C1]. }
  specialize (E1 eq_refl).
  destruct (w_annots w) as [|a as_] eqn:EA.
  - exists w1, true. split; [reflexivity|]. split; [|split; [exact L1|exact C1]].
    intros _. split; [exact C1|]. split; [congruence|]. left. exact E1.
  - destruct (annot_ids w1 (a :: as_)) as [w2 [ids|]] eqn:E2.
    + destruct (annot_ids_frame _ _ _ _ E2) as (A2 & B2 & C2).
      match goal with |- context [write ?ww ?bb] => destruct (write ww bb) as [w3 ok3] eqn:Ew end.
      destruct (write_ext _ _ _ _ Ew) as (A3 & B3 & C3 & D3). cbn in A3, B3, C3, D3.
      exists w3, ok3. split; [reflexivity|]. split; [|split; congruence].
      intros _. split; [congruence|]. split; [congruence|]. right.
      destruct C3 as [[C3 _]|(q & q' & r & Eq & Eq' & Hc & Hw)]; [discriminate|].
      inversion Eq; subst q r. exists q', (w_bufs w2).
      split; [exact Eq'|]. split; [rewrite Hc; reflexivity|]. split; [apply Hw; apply wf_new_seq|].
      rewrite B2. exact E1.
    + destruct (annot_ids_frame _ _ _ _ E2) as (A2 & B2 & C2).
      exists w2, false. split; [reflexivity|]. split; [discriminate|]. split; congruence.
Qed.

(* ---- a whole value keeps the invariant ------------------------------------------------------------------- *)
Lemma frames_ext ctx b b' : ext b b' -> frames ctx (codes b) -> frames ctx (codes b').
Proof. intros H. rewrite (ext_codes _ _ H). auto. Qed.

Lemma set_err_fields w e : w_ctx (set_err w e) = w_ctx w /\ w_bufs (set_err w e) = w_bufs w /\
  w_lst (set_err w e) = w_lst w /\ w_err (set_err w e) = e.
Proof. repeat split. Qed.

(* after the value's own wrapper (if any) has been pushed and its bytes written, endValue pops exactly
   that wrapper *)
Lemma value_tail w1 w2 ok : Forall wf_seq (w_bufs w1) ->
  end_value w1 = (w2, ok) ->
  forall ctx b0, w_ctx w1 = ctx -> frames ctx (codes b0) -> Forall wf_seq b0 ->
  (ext b0 (w_bufs w1) \/ exists e b1, w_bufs w1 = e :: b1 /\ bs_code e = Some 224 /\ ext b0 b1) ->
  w_ctx w2 = ctx /\ w_lst w2 = w_lst w1 /\
  (ok = true -> frames ctx (codes (w_bufs w2)) /\ Forall wf_seq (w_bufs w2)).
Proof.
  intros Hwf He ctx b0 Hc Hfr Hwf0 Hsh.
  destruct (end_value_spec _ _ _ He Hwf) as (A & B & [ (q & rest & Eq & Hq & Hext) | (Hno & -> & ->) ]).
  - split; [congruence|]. split; [exact B|]. intros _.
    destruct Hsh as [Hx | (e & b1 & Eb & _ & Hx)].
    + exfalso. rewrite Eq in Hx. pose proof (frames_ext ctx _ _ Hx Hfr) as F. cbn [codes map] in F.
      rewrite Hq in F. eapply frames_head_not_wrapper; [exact F|reflexivity].
    + rewrite Eq in Eb. inversion Eb; subst e b1.
      pose proof (ext_trans _ _ _ Hx Hext) as Hx2. split.
      * eapply frames_ext; eauto.
      * eapply ext_wf; eauto.
  - split; [exact Hc|]. split; [reflexivity|]. intros _.
    destruct Hsh as [Hx | (e & b1 & Eb & He224 & Hx)].
    + split; [eapply frames_ext; eauto|eapply ext_wf; eauto].
    + exfalso. eapply Hno; eauto.
Qed.

Definition builder (w : wstate) : Prop := w_lst w = None.

Lemma Inv_err w : w_err w = true -> Inv w.
Proof. left; assumption. Qed.

Lemma write_value_inv run w val : builder w -> Inv w ->
  exists w' ok, write_value run w val = Ok (w', ok) /\ Inv w' /\ builder w' /\ w_ctx w' = w_ctx w.
Proof.
  intros HB HI. unfold write_value. destruct (w_err w) eqn:E.
  { exists w, false. split; [reflexivity|]. split; [exact HI|]. split; [exact HB|reflexivity]. }
  destruct HI as [HI|(Hfr & Hwf)]; [congruence|].
  destruct (begin_value_builder run w HB) as (w1 & ok1 & -> & P1 & L1 & Cx1). cbn [bind].
  destruct ok1; cbn [negb].
  2:{ exists (set_err w1 true), false. split; [reflexivity|]. split; [apply Inv_err; reflexivity|].
      split; [exact L1|exact Cx1]. }
  destruct (P1 eq_refl) as (C1 & _ & Sh1).
  destruct (write w1 val) as [w2 ok2] eqn:Ew.
  destruct (write_ext _ _ _ _ Ew) as (C2 & L2 & X2 & _).
  destruct ok2; cbn [negb].
  2:{ exists (set_err w2 true), false. split; [reflexivity|]. split; [apply Inv_err; reflexivity|].
      split; [unfold builder in *; cbn; congruence|cbn; congruence]. }
  destruct (end_value w2) as [w3 ok3] eqn:Ee.
  assert (Hwf2 : Forall wf_seq (w_bufs w2)).
  { destruct Sh1 as [Hx | (e & b1 & Eb & _ & He & Hx)].
    - eapply ext_wf; [exact X2|]. eapply ext_wf; eauto.
    - eapply ext_wf; [exact X2|]. rewrite Eb. constructor; [exact He|]. eapply ext_wf; eauto. }
  assert (Hsh2 : ext (w_bufs w) (w_bufs w2) \/ exists e b1, w_bufs w2 = e :: b1 /\ bs_code e = Some 224 /\ ext (w_bufs w) b1).
  { destruct Sh1 as [Hx | (e & b1 & Eb & Hc & He & Hx)].
    - left. eapply ext_trans; eauto.
    - right. rewrite Eb in X2. destruct X2 as [[X _]|(q & q' & r & Eq & Eq' & Hcq & _)]; [discriminate|].
      inversion Eq; subst q r. exists q', b1. split; [exact Eq'|]. split; [congruence|exact Hx]. }
  destruct (value_tail w2 w3 ok3 Hwf2 Ee (w_ctx w) (w_bufs w) ltac:(congruence) Hfr Hwf Hsh2) as (C3 & L3 & F3).
  exists (set_err w3 (negb ok3)), ok3. split; [reflexivity|]. split; [|split].
  - destruct ok3; cbn [negb]; [|apply Inv_err; reflexivity].
    right. cbn. rewrite C3. apply F3. reflexivity.
  - unfold builder in *. cbn. congruence.
  - cbn. exact C3.
Qed.

Lemma write_chunks_ext cs : forall w ok0 w2 ok2,
  fold_left (fun (st : ret) c => let '(w0, ok0) := st in if ok0 then write w0 c else st) cs (w, ok0) = (w2, ok2) ->
  w_ctx w2 = w_ctx w /\ w_lst w2 = w_lst w /\ ext (w_bufs w) (w_bufs w2).
Proof.
  induction cs as [|c cs IH]; intros w ok0 w2 ok2 H; cbn [fold_left] in H.
  - inversion H; subst. split; [reflexivity|]. split; [reflexivity|apply ext_refl].
  - destruct ok0.
    + destruct (write w c) as [w1 ok1] eqn:Ew. destruct (write_ext _ _ _ _ Ew) as (A & B & C & _).
      destruct (IH _ _ _ _ H) as (A2 & B2 & C2).
      split; [congruence|]. split; [congruence|eapply ext_trans; eauto].
    + apply IH in H. exact H.
Qed.

Lemma write_value_chunks_inv run w cs : builder w -> Inv w ->
  exists w' ok, write_value_chunks run w cs = Ok (w', ok) /\ Inv w' /\ builder w' /\ w_ctx w' = w_ctx w.
Proof.
  intros HB HI. unfold write_value_chunks. destruct (w_err w) eqn:E.
  { exists w, false. split; [reflexivity|]. split; [exact HI|]. split; [exact HB|reflexivity]. }
  destruct HI as [HI|(Hfr & Hwf)]; [congruence|].
  destruct (begin_value_builder run w HB) as (w1 & ok1 & -> & P1 & L1 & Cx1). cbn [bind].
  destruct ok1; cbn [negb].
  2:{ exists (set_err w1 true), false. split; [reflexivity|]. split; [apply Inv_err; reflexivity|].
      split; [exact L1|exact Cx1]. }
  destruct (P1 eq_refl) as (C1 & _ & Sh1).
  match goal with |- context [fold_left ?f cs (w1, true)] => destruct (fold_left f cs (w1, true)) as [w2 ok2] eqn:Ew end.
  destruct (write_chunks_ext _ _ _ _ _ Ew) as (C2 & L2 & X2).
  destruct ok2; cbn [negb].
  2:{ exists (set_err w2 true), false. split; [reflexivity|]. split; [apply Inv_err; reflexivity|].
      split; [unfold builder in *; cbn; congruence|cbn; congruence]. }
  destruct (end_value w2) as [w3 ok3] eqn:Ee.
  assert (Hwf2 : Forall wf_seq (w_bufs w2)).
  { destruct Sh1 as [Hx | (e & b1 & Eb & _ & He & Hx)].
    - eapply ext_wf; [exact X2|]. eapply ext_wf; eauto.
    - eapply ext_wf; [exact X2|]. rewrite Eb. constructor; [exact He|]. eapply ext_wf; eauto. }
  assert (Hsh2 : ext (w_bufs w) (w_bufs w2) \/ exists e b1, w_bufs w2 = e :: b1 /\ bs_code e = Some 224 /\ ext (w_bufs w) b1).
  { destruct Sh1 as [Hx | (e & b1 & Eb & Hc & He & Hx)].
    - left. eapply ext_trans; eauto.
    - right. rewrite Eb in X2. destruct X2 as [[X _]|(q & q' & r & Eq & Eq' & Hcq & _)]; [discriminate|].
      inversion Eq; subst q r. exists q', b1. split; [exact Eq'|]. split; [congruence|exact Hx]. }
  destruct (value_tail w2 w3 ok3 Hwf2 Ee (w_ctx w) (w_bufs w) ltac:(congruence) Hfr Hwf Hsh2) as (C3 & L3 & F3).
  exists (set_err w3 (negb ok3)), ok3. split; [reflexivity|]. split; [|split].
  - destruct ok3; cbn [negb]; [|apply Inv_err; reflexivity].
    right. cbn. rewrite C3. apply F3. reflexivity.
  - unfold builder in *. cbn. congruence.
  - cbn. exact C3.
Qed.

(* ---- containers ------------------------------------------------------------------------------------------------- *)
Lemma begin_container_inv run w t code : builder w -> Inv w -> code <> 224 ->
  exists w' ok, begin_container run w t code = Ok (w', ok) /\ Inv w' /\ builder w' /\
                (ok = true -> w_ctx w' = t :: w_ctx w).
Proof.
  intros HB HI Hcode. unfold begin_container. destruct (w_err w) eqn:E.
  { exists w, false. split; [reflexivity|]. split; [exact HI|]. split; [exact HB|discriminate]. }
  destruct HI as [HI|(Hfr & Hwf)]; [congruence|].
  destruct (begin_value_builder run w HB) as (w1 & ok1 & -> & P1 & L1 & Cx1). cbn [bind].
  destruct ok1; cbn [negb].
  2:{ exists (set_err w1 true), false. split; [reflexivity|]. split; [apply Inv_err; reflexivity|].
      split; [exact L1|discriminate]. }
  destruct (P1 eq_refl) as (C1 & _ & Sh1).
  eexists _, true. split; [reflexivity|]. split; [|split; [exact L1|intros _; cbn; rewrite C1; reflexivity]].
  right. cbn. split.
  - exists code, (codes (w_bufs w1)). split; [reflexivity|]. split; [exact Hcode|].
    rewrite C1. destruct Sh1 as [Hx | (e & b1 & Eb & Hc & He & Hx)].
    + left. eapply frames_ext; eauto.
    + right. exists (codes b1). rewrite Eb. cbn. rewrite Hc. split; [reflexivity|]. eapply frames_ext; eauto.
  - constructor; [apply wf_new_seq|].
    destruct Sh1 as [Hx | (e & b1 & Eb & Hc & He & Hx)].
    + eapply ext_wf; eauto.
    + rewrite Eb. constructor; [exact He|]. eapply ext_wf; eauto.
Qed.

Lemma ctx_peek_nonzero w t : t <> 0 -> (ctx_peek w =? t) = true -> exists c, w_ctx w = t :: c.
Proof.
  unfold ctx_peek. destruct (w_ctx w) as [|c0 c]; intros Ht H; apply N.eqb_eq in H.
  - congruence.
  - subst. eauto.
Qed.

Lemma end_container_inv w t : builder w -> Inv w -> t <> 0 ->
  exists w' ok, end_container w t = Ok (w', ok) /\ Inv w' /\ builder w' /\
                (ok = true -> w_ctx w = t :: w_ctx w').
Proof.
  intros HB HI Ht. unfold end_container. destruct (w_err w) eqn:E.
  { exists w, false. split; [reflexivity|]. split; [exact HI|]. split; [exact HB|discriminate]. }
  destruct HI as [HI|(Hfr & Hwf)]; [congruence|].
  destruct (ctx_peek w =? t) eqn:Ep; cbn [negb].
  2:{ exists (set_err w true), false. split; [reflexivity|]. split; [apply Inv_err; reflexivity|].
      split; [exact HB|discriminate]. }
  destruct (ctx_peek_nonzero w t Ht Ep) as (ctx' & Ec).
  rewrite Ec in Hfr. cbn [frames] in Hfr. destruct Hfr as (k & rest & Hcodes & Hk & Hrest).
  destruct (w_bufs w) as [|q bufs'] eqn:Eb; [discriminate|].
  cbn [codes map] in Hcodes. inversion Hcodes as [[Hq Hr]].
  inversion Hwf as [|? ? Hwq Hwr]; subst.
  destruct (emit (set_bufs w bufs') (node_of_seq q)) as [w1 ok1] eqn:Ee.
  destruct (emit_ext _ _ _ _ (wf_node_of_seq q Hwq) Ee) as (A1 & B1 & X1 & _). cbn in A1, B1, X1.
  destruct ok1; cbn [negb].
  2:{ exists (set_err w1 true), false. split; [reflexivity|]. split; [apply Inv_err; reflexivity|].
      split; [unfold builder in *; cbn; congruence|discriminate]. }
  assert (Ec1 : w_ctx (clear w1) = t :: ctx') by (cbn; congruence).
  rewrite Ec1.
  destruct (end_value (set_ctx (clear w1) ctx')) as [w2 ok2] eqn:Ev.
  assert (Hwf1 : Forall wf_seq (w_bufs (set_ctx (clear w1) ctx'))) by (cbn; eapply ext_wf; eauto).
  (* the frame below the container: either plain, or this container's annotation wrapper *)
  assert (Hsh : exists b0, frames ctx' (codes b0) /\ Forall wf_seq b0 /\
           (ext b0 (w_bufs (set_ctx (clear w1) ctx')) \/
            exists e b1, w_bufs (set_ctx (clear w1) ctx') = e :: b1 /\ bs_code e = Some 224 /\ ext b0 b1)).
  { cbn. destruct Hrest as [Hf | (rest' & Er & Hf)].
    - exists bufs'. split; [exact Hf|]. split; [exact Hwr|]. left. exact X1.
    - destruct bufs' as [|e b1]; [discriminate|]. cbn [codes map] in Er. injection Er as He Hb1.
      inversion Hwr as [|? ? Hwe Hwb1]. exists b1. split; [unfold codes; rewrite Hb1; exact Hf|].
      split; [exact Hwb1|]. right.
      destruct X1 as [[X _]|(q1 & q1' & r1 & Eq1 & Eq1' & Hc1 & _)]; [discriminate|].
      injection Eq1 as Eq1a Eq1b. exists q1', b1. split; [rewrite Eq1', Eq1b; reflexivity|].
      split; [congruence|apply ext_refl]. }
  destruct Hsh as (b0 & Hf0 & Hw0 & Hs0).
  destruct (value_tail _ _ _ Hwf1 Ev ctx' b0 ltac:(reflexivity) Hf0 Hw0 Hs0) as (C3 & L3 & F3).
  exists (set_err w2 (negb ok2)), ok2. split; [reflexivity|]. split; [|split].
  - destruct ok2; cbn [negb]; [|apply Inv_err; reflexivity].
    right. cbn. rewrite C3. apply F3. reflexivity.
  - unfold builder in *. cbn in *. congruence.
  - intros _. cbn. rewrite C3. exact Ec.
Qed.

(* ---- every call other than Finish, growing-table writer ---------------------------------------------------- *)
Lemma Inv_of w w' : w_err w = false -> Inv w -> w_ctx w' = w_ctx w -> w_bufs w' = w_bufs w -> Inv w'.
Proof.
  intros E [H|(F & W)] Hc Hb; [congruence|]. right. rewrite Hc, Hb. split; assumption.
Qed.

Lemma binary_null_ok t : t < 14 -> exists b, binary_null t = Ok b.
Proof.
  intros H.
  assert (t = 0 \/ t = 1 \/ t = 2 \/ t = 3 \/ t = 4 \/ t = 5 \/ t = 6 \/ t = 7 \/ t = 8 \/ t = 9 \/ t = 10 \/
          t = 11 \/ t = 12 \/ t = 13) as Hc by lia.
  repeat (destruct Hc as [->|Hc]; [eexists; reflexivity|]). subst. eexists; reflexivity.
Qed.

(* what a successful call does to the context stack *)
Definition ctx_after (c : wcall) (ctx : list N) : list N :=
  match c with
  | CBeginList => ctxList :: ctx
  | CBeginSexp => ctxSexp :: ctx
  | CBeginStruct => ctxStruct :: ctx
  | CEndList | CEndSexp | CEndStruct => tl ctx
  | _ => ctx
  end.
Definition step_ok (run : wstate -> list wcall -> res ret) (w : wstate) (c : wcall) : Prop :=
  exists w' ok, step run w c = Ok (w', ok) /\ Inv w' /\ builder w' /\
                (ok = true -> w_ctx w' = ctx_after c (w_ctx w)).

Ltac via_value H := destruct H as (w' & ok & -> & HI' & HB' & HC'); exists w', ok;
  split; [reflexivity|]; split; [exact HI'|]; split; [exact HB'|]; intros _; exact HC'.
Ltac via_fail HB := eexists _, false; split; [reflexivity|]; split; [apply Inv_err; reflexivity|]; split; [exact HB|discriminate].
Ltac via_same w HI HB := exists w, false; split; [reflexivity|]; split; [exact HI|]; split; [exact HB|discriminate].

Lemma step_inv run w c : builder w -> Inv w -> c <> CFinish -> step_ok run w c.
Proof.
  intros HB HI Hc. unfold step_ok.
  destruct c; cbn [step]; try congruence.
  - (* FieldName *)
    destruct (w_err w) eqn:E; [via_same w HI HB|].
    destruct (in_struct w); cbn [negb].
    + eexists _, true. split; [reflexivity|]. split; [eapply Inv_of; eauto|]. split; [exact HB|].
      intros _. reflexivity.
    + via_fail HB.
  - destruct (w_err w) eqn:E; [via_same w HI HB|].
    eexists _, true. split; [reflexivity|]. split; [eapply Inv_of; eauto|]. split; [exact HB|intros _; reflexivity].
  - destruct (w_err w) eqn:E; [via_same w HI HB|].
    eexists _, true. split; [reflexivity|]. split; [eapply Inv_of; eauto|]. split; [exact HB|intros _; reflexivity].
  - via_value (write_value_inv run w [15] HB HI).
  - (* NullType *)
    destruct (w_err w) eqn:E; [via_same w HI HB|].
    destruct (14 <=? t) eqn:E14.
    + via_fail HB.
    + destruct (binary_null_ok t ltac:(lia)) as (b & ->). cbn [bind].
      via_value (write_value_inv run w [b] HB HI).
  - via_value (write_value_inv run w [if b then 17 else 16] HB HI).
  - destruct (z =? 0)%Z; [via_value (write_value_inv run w [32] HB HI)|].
    match goal with |- context [write_value run w ?v] => via_value (write_value_inv run w v HB HI) end.
  - destruct (n =? 0); [via_value (write_value_inv run w [32] HB HI)|].
    match goal with |- context [write_value run w ?v] => via_value (write_value_inv run w v HB HI) end.
  - (* BigInt *)
    destruct (w_err w) eqn:E; [via_same w HI HB|].
    destruct z as [z|].
    + destruct (z =? 0)%Z;
        match goal with |- context [write_value_chunks run w ?v] => via_value (write_value_chunks_inv run w v HB HI) end.
    + via_fail HB.
  - (* Float *)
    destruct (f64_pos_zero bits); [via_value (write_value_inv run w [64] HB HI)|].
    destruct (f64_is_nan bits); [via_value (write_value_inv run w [68; 127; 192; 0; 0] HB HI)|].
    destruct (uses_f32 bits);
      match goal with |- context [write_value run w ?v] => via_value (write_value_inv run w v HB HI) end.
  - (* Decimal *)
    destruct (w_err w) eqn:E; [via_same w HI HB|].
    destruct d as [d|].
    + destruct (_ && _); match goal with |- context [write_value run w ?v] => via_value (write_value_inv run w v HB HI) end.
    + via_fail HB.
  - match goal with |- context [write_value run w ?v] => via_value (write_value_inv run w v HB HI) end.
  - (* Symbol *)
    destruct (w_err w) eqn:E; [via_same w HI HB|].
    destruct (tk_text t) as [x|].
    + destruct (resolve_from_table w x) as [[w1 id] ok1] eqn:Er.
      destruct (resolve_from_table_frame _ _ _ _ _ Er) as (A & B & C).
      destruct ok1; cbn [negb].
      * unfold write_symbol_id.
        assert (HB1 : builder (set_err w1 false)) by (unfold builder in *; cbn; congruence).
        assert (HI1 : Inv (set_err w1 false)) by (eapply Inv_of; eauto).
        match goal with |- context [write_value run ?ww ?v] =>
          destruct (write_value_inv run ww v HB1 HI1) as (w' & ok & -> & HI' & HB' & HC') end.
        exists w', ok. split; [reflexivity|]. split; [exact HI'|]. split; [exact HB'|].
        intros _. cbn in HC'. cbn. congruence.
      * eexists _, false. split; [reflexivity|]. split; [apply Inv_err; reflexivity|].
        split; [unfold builder in *; cbn; congruence|discriminate].
    + destruct (negb (tk_sid t =? -1)%Z).
      * unfold write_symbol_id.
        match goal with |- context [write_value run w ?v] => via_value (write_value_inv run w v HB HI) end.
      * via_fail HB.
  - (* SymbolFromString *)
    destruct (w_err w) eqn:E; [via_same w HI HB|].
    destruct (resolve w t) as [[w1 id] ok1] eqn:Er.
    destruct (resolve_frame _ _ _ _ _ Er) as (A & B & C).
    destruct ok1; cbn [negb].
    + unfold write_symbol_id.
      assert (HB1 : builder (set_err w1 false)) by (unfold builder in *; cbn; congruence).
      assert (HI1 : Inv (set_err w1 false)) by (eapply Inv_of; eauto).
      match goal with |- context [write_value run ?ww ?v] =>
        destruct (write_value_inv run ww v HB1 HI1) as (w' & ok & -> & HI' & HB' & HC') end.
      exists w', ok. split; [reflexivity|]. split; [exact HI'|]. split; [exact HB'|].
      intros _. cbn in HC'. cbn. congruence.
    + eexists _, false. split; [reflexivity|]. split; [apply Inv_err; reflexivity|].
      split; [unfold builder in *; cbn; congruence|discriminate].
  - destruct t; match goal with |- context [write_value run w ?v] => via_value (write_value_inv run w v HB HI) end.
  - match goal with |- context [write_value_chunks run w ?v] => via_value (write_value_chunks_inv run w v HB HI) end.
  - match goal with |- context [write_value_chunks run w ?v] => via_value (write_value_chunks_inv run w v HB HI) end.
  - destruct (begin_container_inv run w ctxList 176 HB HI ltac:(discriminate)) as (w' & ok & -> & A & B & C).
    exists w', ok. split; [reflexivity|]. split; [exact A|]. split; [exact B|].
    intros Hk. cbn. auto.
  - destruct (end_container_inv w ctxList HB HI ltac:(discriminate)) as (w' & ok & -> & A & B & C).
    exists w', ok. split; [reflexivity|]. split; [exact A|]. split; [exact B|].
    intros Hk. cbn. rewrite (C Hk). reflexivity.
  - destruct (begin_container_inv run w ctxSexp 192 HB HI ltac:(discriminate)) as (w' & ok & -> & A & B & C).
    exists w', ok. split; [reflexivity|]. split; [exact A|]. split; [exact B|].
    intros Hk. cbn. auto.
  - destruct (end_container_inv w ctxSexp HB HI ltac:(discriminate)) as (w' & ok & -> & A & B & C).
    exists w', ok. split; [reflexivity|]. split; [exact A|]. split; [exact B|].
    intros Hk. cbn. rewrite (C Hk). reflexivity.
  - destruct (begin_container_inv run w ctxStruct 208 HB HI ltac:(discriminate)) as (w' & ok & -> & A & B & C).
    exists w', ok. split; [reflexivity|]. split; [exact A|]. split; [exact B|].
    intros Hk. cbn. auto.
  - destruct (end_container_inv w ctxStruct HB HI ltac:(discriminate)) as (w' & ok & -> & A & B & C).
    exists w', ok. split; [reflexivity|]. split; [exact A|]. split; [exact B|].
    intros Hk. cbn. rewrite (C Hk). reflexivity.
Qed.

(* ---- context entries are never the top-level marker ---------------------------------------------------------------- *)
Definition nz (c : N) : Prop := c <> 0.
Definition NZ (w : wstate) : Prop := w_err w = true \/ Forall nz (w_ctx w).

Lemma ctx_after_nz c ctx : Forall nz ctx -> Forall nz (ctx_after c ctx).
Proof.
  intros H. destruct c; cbn [ctx_after]; try exact H;
    try (constructor; [discriminate|exact H]); (destruct ctx; cbn [tl]; [constructor|inversion H; assumption]).
Qed.

Lemma step_full run w c : builder w -> Inv w -> NZ w -> c <> CFinish ->
  exists w' ok, step run w c = Ok (w', ok) /\ Inv w' /\ builder w' /\ NZ w' /\
                (ok = true -> w_ctx w' = ctx_after c (w_ctx w)).
Proof.
  intros HB HI HN Hc. destruct (step_inv run w c HB HI Hc) as (w' & ok & E & A & B & C).
  exists w', ok. split; [exact E|]. split; [exact A|]. split; [exact B|]. split; [|exact C].
  destruct ok.
  - destruct HN as [He|Hf].
    + rewrite (bw_sticky run w c He) in E. discriminate.
    + right. rewrite (C eq_refl). apply ctx_after_nz. exact Hf.
  - left. eapply bw_error_recorded; eauto.
Qed.

Lemma run_calls_inv f : forall cs w, builder w -> Inv w -> NZ w -> Forall (fun c => c <> CFinish) cs ->
  exists w' ok, run_calls (S f) w cs = Ok (w', ok) /\ Inv w' /\ builder w' /\ NZ w' /\
                (ok = true -> w_ctx w' = fold_left (fun x c => ctx_after c x) cs (w_ctx w)).
Proof.
  induction cs as [|c cs IH]; intros w HB HI HN Hcs.
  - exists w, true. cbn. auto.
  - inversion Hcs as [|? ? Hc Hcs']; subst.
    destruct (step_full (run_calls f) w c HB HI HN Hc) as (w1 & ok1 & E & A & B & N1 & C).
    change (run_calls (S f) w (c :: cs)) with
      (do '(w', ok) <- step (run_calls f) w c; if ok then run_calls (S f) w' cs else Ok (w', false)).
    rewrite E. cbn [bind]. destruct ok1.
    + destruct (IH w1 B A N1 Hcs') as (w2 & ok2 & E2 & A2 & B2 & N2 & C2).
      exists w2, ok2. split; [exact E2|]. split; [exact A2|]. split; [exact B2|]. split; [exact N2|].
      intros Hk. cbn [fold_left]. rewrite <- (C eq_refl). apply C2. exact Hk.
    + exists w1, false. split; [reflexivity|]. split; [exact A|]. split; [exact B|]. split; [exact N1|discriminate].
Qed.

Lemma fold_ctx_strings l ctx : fold_left (fun x c => ctx_after c x) (map CString l) ctx = ctx.
Proof. revert ctx. induction l as [|t l IH]; intros ctx; cbn; [reflexivity|apply IH]. Qed.

Lemma lst_calls_ctx locals : fold_left (fun x c => ctx_after c x) (lst_calls locals) [] = [].
Proof.
  unfold lst_calls. destruct locals as [|t l]; [reflexivity|].
  rewrite !fold_left_app. cbn [fold_left ctx_after]. rewrite fold_ctx_strings. reflexivity.
Qed.

Lemma lst_calls_no_finish locals : Forall (fun c => c <> CFinish) (lst_calls locals).
Proof.
  unfold lst_calls. destruct locals as [|t l]; [constructor|].
  apply Forall_app. split; [repeat constructor; discriminate|].
  apply Forall_app. split; [|repeat constructor; discriminate].
  apply Forall_forall. intros c Hin. apply in_map_iff in Hin. destruct Hin as (x & <- & _). discriminate.
Qed.

(* ---- Finish, growing-table writer ----------------------------------------------------------------------------------- *)
Lemma finish_inv f w : builder w -> Inv w -> NZ w ->
  exists w' ok, step (run_calls (S f)) w CFinish = Ok (w', ok) /\ Inv w' /\ builder w' /\ NZ w'.
Proof.
  intros HB HI HN. cbn [step]. destruct (w_err w) eqn:E.
  { exists w, false. auto. }
  destruct (ctx_peek w =? 0) eqn:Ep; cbn [negb].
  2:{ exists w, false. auto. }
  destruct HI as [HI|(Hfr & Hwf)]; [congruence|].
  destruct HN as [HN|HN]; [congruence|].
  assert (Ec : w_ctx w = []).
  { unfold ctx_peek in Ep. destruct (w_ctx w) as [|c ctx]; [reflexivity|].
    apply N.eqb_eq in Ep. inversion HN; subst. unfold nz in *. congruence. }
  rewrite Ec in Hfr. cbn [frames] in Hfr.
  set (w0 := set_wrote (clear w) false).
  assert (H0 : w_bufs w0 = w_bufs w /\ w_ctx w0 = [] /\ w_err w0 = false /\ builder w0).
  { unfold w0. cbn. auto. }
  destruct H0 as (B0 & C0 & E0 & L0).
  destruct (w_bufs w) as [|q rest] eqn:Eb.
  - rewrite B0. exists w0, true. split; [reflexivity|]. split; [|split; [exact L0|right; rewrite C0; constructor]].
    right. rewrite C0, B0. cbn. split; [left; reflexivity|constructor].
  - rewrite B0. destruct Hfr as [Hfr|Hfr]; [discriminate|].
    cbn [codes map] in Hfr. destruct rest as [|q2 rest2]; [|discriminate].
    inversion Hwf as [|? ? Hwq _]; subst.
    set (w1 := set_bufs w0 []).
    unfold write_lst.
    destruct (write w1 [224; 1; 0; 234]) as [w2 ok2] eqn:Ew.
    destruct (write_ext _ _ _ _ Ew) as (A2 & L2 & X2 & _). cbn in A2, L2, X2.
    assert (B2 : w_bufs w2 = []).
    { destruct X2 as [[_ X]|(q0 & ? & ? & X & _)]; [exact X|discriminate]. }
    destruct ok2; cbn [negb bind].
    2:{ eexists _, false. split; [reflexivity|]. split; [apply Inv_err; reflexivity|].
        split; [unfold builder in *; cbn; congruence|left; reflexivity]. }
    assert (HB2 : builder w2) by (unfold builder in *; congruence).
    assert (HI2 : Inv w2).
    { right. rewrite A2, B2, Ec. cbn. split; [left; reflexivity|constructor]. }
    assert (HN2 : NZ w2) by (right; rewrite A2, Ec; constructor).
    destruct (run_calls_inv f (lst_calls (w_lstb w1)) w2 HB2 HI2 HN2 (lst_calls_no_finish _))
      as (w3 & ok3 & E3 & I3 & B3 & N3 & C3).
    change (w_lstb (set_bufs w0 [])) with (w_lstb w1).
    rewrite E3. cbn [bind]. destruct ok3; cbn [negb].
    2:{ eexists _, false. split; [reflexivity|]. split; [apply Inv_err; reflexivity|].
        split; [unfold builder in *; cbn; congruence|left; reflexivity]. }
    specialize (C3 eq_refl). rewrite A2, Ec, lst_calls_ctx in C3.
    destruct (emit w3 (node_of_seq q)) as [w4 ok4] eqn:Ee.
    destruct (emit_ext _ _ _ _ (wf_node_of_seq q Hwq) Ee) as (A4 & L4 & _ & _).
    destruct ok4; cbn [negb].
    2:{ eexists _, false. split; [reflexivity|]. split; [apply Inv_err; reflexivity|].
        split; [unfold builder in *; cbn; congruence|left; reflexivity]. }
    eexists _, true. split; [reflexivity|]. split; [|split].
    + right. cbn. rewrite A4, C3. cbn. split; [right; reflexivity|repeat constructor].
    + unfold builder in *. cbn. congruence.
    + right. cbn. rewrite A4, C3. constructor.
Qed.

Lemma wcall_eq_finish c : c = CFinish \/ c <> CFinish.
Proof. destruct c; try (right; discriminate). left; reflexivity. Qed.

(* ---- T3: no call sequence makes the growing-table binary Writer panic ------------------------------------------------- *)
Lemma wstep_inv w c : builder w -> Inv w -> NZ w ->
  exists w' ok, wstep w c = Ok (w', ok) /\ Inv w' /\ builder w' /\ NZ w'.
Proof.
  intros HB HI HN. unfold wstep.
  destruct (wcall_eq_finish c) as [->|Hc]; [apply (finish_inv 1 w HB HI HN)|].
  destruct (step_full (run_calls 2) w c HB HI HN Hc) as (w' & ok & E & A & B & N1 & _).
  exists w', ok. auto.
Qed.

Lemma new_writer_inv budget : builder (new_writer budget) /\ Inv (new_writer budget) /\ NZ (new_writer budget).
Proof.
  split; [reflexivity|]. split.
  - right. cbn. split; [right; reflexivity|repeat constructor].
  - right. constructor.
Qed.

Theorem bw_total : forall cs w, builder w -> Inv w -> NZ w ->
  exists w' oks, drive_results w cs = Ok (w', oks) /\ Inv w' /\ length oks = length cs.
Proof.
  induction cs as [|c cs IH]; intros w HB HI HN; cbn [drive_results].
  - exists w, []. auto.
  - destruct (wstep_inv w c HB HI HN) as (w1 & ok & -> & I1 & B1 & N1). cbn [bind].
    destruct (IH w1 B1 I1 N1) as (w2 & oks & -> & I2 & Hl). cbn [bind].
    exists w2, (ok :: oks). split; [reflexivity|]. split; [exact I2|]. cbn. rewrite Hl. reflexivity.
Qed.

(* every call of every sequence returns (no panic, no fuel exhaustion), starting from NewBinaryWriter(out) *)
Theorem bw_no_panic cs budget :
  exists w' oks, drive_results (new_writer budget) cs = Ok (w', oks) /\ length oks = length cs.
Proof.
  destruct (new_writer_inv budget) as (B & I & N).
  destruct (bw_total cs _ B I N) as (w' & oks & E & _ & Hl). eauto.
Qed.

(* ---- a token that has text is resolved by that text alone ------------------------------------------------------------ *)
Lemma field_by_text w t x : tk_text t = Some x ->
  id_of_tok_field w t = id_of_tok_field w (tok_text x).
Proof. intros H. unfold id_of_tok_field, tok_text. rewrite H. reflexivity. Qed.
Lemma annot_by_text w t x : tk_text t = Some x ->
  id_of_tok_annot w t = id_of_tok_annot w (tok_text x).
Proof. intros H. unfold id_of_tok_annot, tok_text. rewrite H. reflexivity. Qed.
Lemma symbol_by_text run w t x : tk_text t = Some x ->
  step run w (CSymbol t) = step run w (CSymbol (tok_text x)).
Proof. intros H. cbn [step]. unfold tok_text. cbn [tk_text]. rewrite H. reflexivity. Qed.


Lemma copy_tokens_by_text run w t x : tk_text t = Some x ->
  id_of_tok_field w t = id_of_tok_field w (tok_text x) /\
  id_of_tok_annot w t = id_of_tok_annot w (tok_text x) /\
  step run w (CSymbol t) = step run w (CSymbol (tok_text x)).
Proof.
  intros H. split; [exact (field_by_text w t x H)|].
  split; [exact (annot_by_text w t x H)|exact (symbol_by_text run w t x H)].
Qed.
