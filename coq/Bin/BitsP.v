(* BitsP.v — lemmas about the codecs of Bits.v: each length function equals
   the length of what its append function emits, and each read function
   inverts its append function, for every value of the Go type. *)
From Coq Require Import List NArith ZArith Bool Lia ZifyBool ZifyN ZifyNat.
From IonV Require Import Base.Wire Bin.Bits.
Import ListNotations.
Open Scope N_scope.
Ltac Zify.zify_post_hook ::= Z.div_mod_to_equations.

Arguments uint_len : simpl never.
Arguments varuint_len : simpl never.
Arguments varint_len : simpl never.

Lemma Npow_pos a b : 0 < a -> 0 < a ^ b.
Proof. intros H. pose proof (N.pow_nonzero a b). lia. Qed.

(* ---- positional notation ------------------------------------------------------- *)
Definition fd (base a : N) (l : list N) : N := fold_left (fun a b => a * base + b) l a.

Lemma fd_app base a l1 l2 : fd base a (l1 ++ l2) = fd base (fd base a l1) l2.
Proof. unfold fd. apply fold_left_app. Qed.

Lemma fd_cons base a d l : fd base a (d :: l) = fd base (a * base + d) l.
Proof. reflexivity. Qed.

Lemma from_be_fd l : from_be l = fd 256 0 l.
Proof. reflexivity. Qed.

Lemma fd_ge base a l : 0 < base -> a <= fd base a l.
Proof.
  intros Hb. revert a. induction l as [|d l IH]; intros a; cbn [fd fold_left].
  - lia.
  - fold (fd base (a * base + d) l). specialize (IH (a * base + d)). nia.
Qed.

Lemma fd_split base a l : fd base a l = a * base ^ N.of_nat (length l) + fd base 0 l.
Proof.
  revert a. induction l as [|d l IH]; intros a.
  - cbn. lia.
  - rewrite !fd_cons. rewrite (IH (a * base + d)), (IH (0 * base + d)).
    cbn [length]. rewrite Nat2N.inj_succ, N.pow_succ_r'. lia.
Qed.

Lemma fd_bound base l : 1 < base -> Forall (fun d => d < base) l ->
  fd base 0 l < base ^ N.of_nat (length l).
Proof.
  intros Hb H. induction H as [|d l Hd Hl IH].
  - cbn. lia.
  - rewrite fd_cons, fd_split. cbn [length]. rewrite Nat2N.inj_succ, N.pow_succ_r'.
    assert (0 < base ^ N.of_nat (length l)) by (apply Npow_pos; lia). nia.
Qed.

(* ---- the digit loop ------------------------------------------------------------ *)
Section Loop.
Variable base : N.
Hypothesis Hbase : 1 < base.

Lemma be_loop_acc fuel v acc : be_loop base fuel v acc = be_loop base fuel v [] ++ acc.
Proof.
  revert v acc. induction fuel as [|f IH]; intros v acc; cbn [be_loop].
  - reflexivity.
  - destruct (0 <? v); [|reflexivity].
    rewrite (IH (v / base) (v mod base :: acc)), (IH (v / base) [v mod base]).
    rewrite <- app_assoc. reflexivity.
Qed.

Lemma be_loop_fd fuel v acc : v < base ^ N.of_nat fuel ->
  fd base 0 (be_loop base fuel v acc) = fd base v acc.
Proof.
  revert v acc. induction fuel as [|f IH]; intros v acc Hv; cbn [be_loop].
  - cbn in Hv. assert (v = 0) by lia. subst. reflexivity.
  - destruct (0 <? v) eqn:E.
    + rewrite IH.
      * rewrite fd_cons. f_equal. pose proof (N.div_mod v base). lia.
      * rewrite Nat2N.inj_succ, N.pow_succ_r' in Hv.
        apply N.div_lt_upper_bound; lia.
    + assert (v = 0) by lia. subst. reflexivity.
Qed.

Lemma be_loop_len fuel v acc :
  N.of_nat (length (be_loop base fuel v acc)) = len_loop base fuel v (N.of_nat (length acc)).
Proof.
  revert v acc. induction fuel as [|f IH]; intros v acc; cbn [be_loop len_loop].
  - reflexivity.
  - destruct (0 <? v); [|reflexivity].
    rewrite IH. cbn [length]. rewrite Nat2N.inj_succ. f_equal. lia.
Qed.

Lemma be_loop_forall fuel v acc : Forall (fun d => d < base) acc ->
  Forall (fun d => d < base) (be_loop base fuel v acc).
Proof.
  revert v acc. induction fuel as [|f IH]; intros v acc H; cbn [be_loop].
  - exact H.
  - destruct (0 <? v); [|exact H]. apply IH. constructor; [|exact H].
    apply N.mod_lt. lia.
Qed.

Lemma be_loop_length_le fuel v acc k : v < base ^ N.of_nat k ->
  (length (be_loop base fuel v acc) <= k + length acc)%nat.
Proof.
  revert v acc k. induction fuel as [|f IH]; intros v acc k Hv; cbn [be_loop].
  - lia.
  - destruct (0 <? v) eqn:E; [|lia].
    destruct k as [|k]. { cbn in Hv. lia. }
    rewrite Nat2N.inj_succ, N.pow_succ_r' in Hv.
    specialize (IH (v / base) (v mod base :: acc) k).
    cbn [length] in IH. assert (v / base < base ^ N.of_nat k) by (apply N.div_lt_upper_bound; lia).
    specialize (IH H). lia.
Qed.

(* with enough fuel a positive value yields a non-zero leading digit *)
Lemma be_loop_head fuel v acc : 0 < v -> v < base ^ N.of_nat fuel ->
  exists d t, be_loop base fuel v acc = d :: t /\ 0 < d.
Proof.
  revert v acc. induction fuel as [|f IH]; intros v acc Hpos Hv.
  - cbn in Hv. lia.
  - cbn [be_loop]. assert (E : (0 <? v) = true) by lia. rewrite E.
    rewrite Nat2N.inj_succ, N.pow_succ_r' in Hv.
    destruct (N.eq_dec (v / base) 0) as [Hz|Hnz].
    + rewrite Hz. exists (v mod base), acc. split.
      * destruct f; cbn [be_loop]; reflexivity.
      * pose proof (N.div_mod v base ltac:(lia)) as Hdm. rewrite Hz in Hdm. lia.
    + apply IH; [apply N.neq_0_lt_0; exact Hnz|]. apply N.div_lt_upper_bound; lia.
Qed.
End Loop.

(* ---- uintLen / appendUint -------------------------------------------------------- *)
Lemma pow256_8 : 256 ^ N.of_nat 8 = two64. Proof. reflexivity. Qed.

Theorem uint_len_ok b v : N.of_nat (length (append_uint b v)) = N.of_nat (length b) + uint_len v.
Proof.
  unfold append_uint, uint_len. rewrite app_length, Nat2N.inj_add. f_equal.
  rewrite be_loop_len by lia. reflexivity.
Qed.

Theorem uint_roundtrip v : v < two64 -> from_be (append_uint [] v) = v.
Proof.
  intros Hv. unfold append_uint. cbn [app]. rewrite from_be_fd, be_loop_fd.
  - rewrite fd_cons. cbn [fd fold_left]. pose proof (N.div_mod v 256). lia.
  - lia.
  - rewrite pow256_8. apply N.div_lt_upper_bound; [lia|]. unfold two64 in *. lia.
Qed.

Lemma append_uint_bytes v : Forall (fun d => d < 256) (append_uint [] v).
Proof.
  unfold append_uint. cbn [app]. apply be_loop_forall; [lia|].
  constructor; [apply N.mod_lt; lia|constructor].
Qed.

Lemma append_uint_app b v : append_uint b v = b ++ append_uint [] v.
Proof. reflexivity. Qed.

Lemma append_uint_head v : 0 < v -> v < two64 ->
  exists d t, append_uint [] v = d :: t /\ 0 < d.
Proof.
  intros Hpos Hv. unfold append_uint. cbn [app].
  destruct (N.eq_dec (v / 256) 0) as [Hz|Hnz].
  - rewrite Hz. exists (v mod 256), []. split; [reflexivity|].
    pose proof (N.div_mod v 256). lia.
  - apply be_loop_head; [lia|lia|].
    rewrite pow256_8. apply N.div_lt_upper_bound; [lia|]. unfold two64 in *. lia.
Qed.

Lemma append_uint_length_le v : v < two64 -> (length (append_uint [] v) <= 8)%nat.
Proof.
  intros Hv. unfold append_uint. cbn [app].
  pose proof (be_loop_length_le 256 ltac:(lia) 8 (v / 256) [v mod 256] 7) as H.
  cbn [length] in H. apply H. change (256 ^ N.of_nat 7) with 72057594037927936.
  apply N.div_lt_upper_bound; [lia|]. unfold two64 in *. lia.
Qed.

(* ---- big.Int.Bytes ------------------------------------------------------------------ *)
Lemma pos_size_nat p : Pos.to_nat (Pos.size p) = Pos.size_nat p.
Proof. induction p as [p IH|p IH|]; cbn; rewrite ?Pos2Nat.inj_succ, ?IH; reflexivity. Qed.

Lemma size_nat_size v : N.of_nat (N.size_nat v) = N.size v.
Proof.
  destruct v as [|p]; [reflexivity|]. cbn. rewrite <- pos_size_nat. apply positive_nat_N.
Qed.

Lemma lt_256_pow_size v : v < 256 ^ N.of_nat (N.size_nat v).
Proof.
  rewrite size_nat_size. pose proof (N.size_gt v) as H.
  eapply N.lt_le_trans; [exact H|]. apply N.pow_le_mono_l. lia.
Qed.

Theorem big_bytes_roundtrip v : from_be (big_bytes v) = v.
Proof.
  unfold big_bytes. rewrite from_be_fd, be_loop_fd; [reflexivity|lia|apply lt_256_pow_size].
Qed.

Lemma big_bytes_bytes v : Forall (fun d => d < 256) (big_bytes v).
Proof. apply be_loop_forall; [lia|constructor]. Qed.

Lemma big_bytes_head v : 0 < v -> exists d t, big_bytes v = d :: t /\ 0 < d.
Proof. intros H. apply be_loop_head; [lia|exact H|apply lt_256_pow_size]. Qed.

(* ---- sign-magnitude integers ------------------------------------------------------------ *)
Lemma fd_lead0 l : fd 256 0 (0 :: l) = fd 256 0 l.
Proof. reflexivity. Qed.

Lemma read_signmag_sign_bytes neg bits m :
  bits <> [] -> Forall (fun d => d < 256) bits -> from_be bits = m ->
  read_signmag (sign_bytes [] neg bits) = Ok (if neg then - Z.of_N m else Z.of_N m)%Z.
Proof.
  intros Hne Hb Hm. destruct bits as [|b0 rest]; [congruence|].
  inversion Hb as [|? ? Hb0 Hrest]; subst. unfold sign_bytes. cbn [app].
  destruct (b0 <? 128) eqn:E; unfold read_signmag.
  - destruct neg.
    + replace (128 <=? b0 + 128) with true by lia.
      replace ((b0 + 128) mod 128) with b0 by lia. reflexivity.
    + replace (128 <=? b0) with false by lia.
      replace (b0 mod 128) with b0 by lia. reflexivity.
  - destruct neg.
    + replace (128 <=? 128) with true by lia. change (128 mod 128) with 0.
      rewrite from_be_fd, fd_lead0. reflexivity.
    + replace (128 <=? 0) with false by lia. change (0 mod 128) with 0.
      rewrite from_be_fd, fd_lead0. reflexivity.
Qed.

Lemma opp_abs n : (n <> 0)%Z ->
  (if (n <? 0)%Z then (- Z.of_N (Z.to_N (Z.abs n)))%Z else Z.of_N (Z.to_N (Z.abs n))) = n.
Proof. intros. destruct (n <? 0)%Z eqn:E; lia. Qed.

(* appendInt then readBigInt: every non-zero int64 (indeed every |n| < 2^64) *)
Theorem int_roundtrip n : (n <> 0)%Z -> (Z.abs n < Z.of_N two64)%Z ->
  read_signmag (append_int [] n) = Ok n.
Proof.
  intros Hnz Hb. unfold append_int. replace (n =? 0)%Z with false by lia.
  assert (Hm : mag64 n < two64) by (unfold mag64; lia).
  rewrite (read_signmag_sign_bytes _ _ (mag64 n)).
  - unfold mag64. rewrite opp_abs; [reflexivity|exact Hnz].
  - destruct (append_uint_head (mag64 n)) as (d & t & E & _); [unfold mag64; lia|exact Hm|].
    rewrite E. discriminate.
  - apply append_uint_bytes.
  - apply uint_roundtrip. exact Hm.
Qed.

Theorem bigint_roundtrip v : (v <> 0)%Z -> read_signmag (append_bigint [] v) = Ok v.
Proof.
  intros Hnz. unfold append_bigint. replace (v =? 0)%Z with false by lia.
  rewrite (read_signmag_sign_bytes _ _ (Z.to_N (Z.abs v))).
  - rewrite opp_abs; [reflexivity|exact Hnz].
  - destruct (big_bytes_head (Z.to_N (Z.abs v))) as (d & t & E & _); [lia|]. rewrite E. discriminate.
  - apply big_bytes_bytes.
  - apply big_bytes_roundtrip.
Qed.

(* leading byte of a positional number *)
Lemma fd_head d t : Forall (fun x => x < 256) t ->
  fd 256 0 (d :: t) / 256 ^ N.of_nat (length t) = d.
Proof.
  intros Ht. rewrite fd_cons, fd_split.
  pose proof (fd_bound 256 t ltac:(lia) Ht) as Hb.
  assert (0 < 256 ^ N.of_nat (length t)) by (apply Npow_pos; lia).
  replace (0 * 256 + d) with d by lia.
  rewrite N.div_add_l by lia. rewrite N.div_small by exact Hb. lia.
Qed.

Lemma sign_bytes_length neg d t :
  length (sign_bytes [] neg (d :: t)) = if d <? 128 then S (length t) else S (S (length t)).
Proof. unfold sign_bytes. destruct (d <? 128); reflexivity. Qed.

Theorem int_len_ok n : (Z.abs n < Z.of_N two64)%Z ->
  N.of_nat (length (append_int [] n)) = int_len n.
Proof.
  intros Hb. unfold append_int, int_len. destruct (n =? 0)%Z eqn:E0; [reflexivity|].
  assert (Hm : mag64 n < two64) by (unfold mag64; lia).
  assert (Hpos : 0 < mag64 n) by (unfold mag64; lia).
  destruct (append_uint_head (mag64 n) Hpos Hm) as (d & t & E & Hd).
  pose proof (append_uint_bytes (mag64 n)) as HB. rewrite E in HB.
  inversion HB as [|? ? Hd256 Ht]; subst.
  pose proof (uint_len_ok [] (mag64 n)) as HL. rewrite E in HL. cbn [length] in HL.
  rewrite Nat2N.inj_succ in HL. cbn [N.of_nat] in HL. rewrite N.add_0_l in HL.
  pose proof (uint_roundtrip (mag64 n) Hm) as HR. rewrite E, from_be_fd in HR.
  rewrite E, sign_bytes_length.
  replace ((uint_len (mag64 n) - 1) * 8) with (8 * N.of_nat (length t)) by lia.
  rewrite N.pow_mul_r. change (2 ^ 8) with 256.
  rewrite <- HR at 1. rewrite fd_head by exact Ht.
  replace (d mod 256) with d by lia.
  destruct (d <? 128) eqn:E1.
  - replace (128 <=? d) with false by lia. rewrite <- HL. rewrite Nat2N.inj_succ. lia.
  - replace (128 <=? d) with true by lia. rewrite <- HL. rewrite !Nat2N.inj_succ. lia.
Qed.

Theorem bigint_len_ok v : N.of_nat (length (append_bigint [] v)) = bigint_len v.
Proof.
  unfold append_bigint, bigint_len. destruct (v =? 0)%Z eqn:E0; [reflexivity|].
  set (m := Z.to_N (Z.abs v)). assert (Hpos : 0 < m) by (unfold m; lia).
  destruct (big_bytes_head m Hpos) as (d & t & E & Hd).
  pose proof (big_bytes_bytes m) as HB. rewrite E in HB.
  inversion HB as [|? ? Hd256 Ht]; subst.
  pose proof (big_bytes_roundtrip m) as HR. rewrite E, from_be_fd in HR.
  rewrite E, sign_bytes_length. unfold bit_len.
  rewrite N.size_log2 by lia.
  rewrite fd_cons, fd_split in HR. replace (0 * 256 + d) with d in HR by lia.
  pose proof (fd_bound 256 t ltac:(lia) Ht) as Hbd.
  set (k := N.of_nat (length t)) in *.
  assert (Hp : 256 ^ k = 2 ^ (8 * k)) by (rewrite N.pow_mul_r; reflexivity).
  assert (Hpp : 0 < 2 ^ (8 * k)) by (apply Npow_pos; lia).
  destruct (d <? 128) eqn:E1.
  - (* 2^(8k) <= m < 2^(8k+7) *)
    assert (L1 : 8 * k <= N.log2 m) by (apply N.log2_le_pow2; [lia|nia]).
    assert (L2 : N.log2 m < 8 * k + 7).
    { apply N.log2_lt_pow2; [lia|]. rewrite N.pow_add_r. change (2 ^ 7) with 128. nia. }
    rewrite Nat2N.inj_succ. fold k.
    assert ((N.succ (N.log2 m)) / 8 = k) by lia.
    lia.
  - assert (L1 : 8 * k + 7 <= N.log2 m).
    { apply N.log2_le_pow2; [lia|]. rewrite N.pow_add_r. change (2 ^ 7) with 128. nia. }
    assert (L2 : N.log2 m < 8 * k + 8).
    { apply N.log2_lt_pow2; [lia|]. rewrite N.pow_add_r. change (2 ^ 8) with 256. nia. }
    rewrite !Nat2N.inj_succ. fold k.
    assert ((N.succ (N.log2 m)) / 8 = k + 1) by lia.
    lia.
Qed.

(* ---- VarUInt -------------------------------------------------------------------------- *)
Theorem varuint_len_ok b v :
  N.of_nat (length (append_varuint b v)) = N.of_nat (length b) + varuint_len v.
Proof.
  unfold append_varuint, varuint_len. rewrite app_length, Nat2N.inj_add. f_equal.
  rewrite be_loop_len by lia. reflexivity.
Qed.

(* reading a run of continuation bytes (all below 128) *)
Lemma read_varuint_run ds : forall fuel max val len inp,
  Forall (fun d => d < 128) ds ->
  (length ds <= fuel)%nat -> len + N.of_nat (length ds) <= max ->
  fd 128 val ds < two64 ->
  read_varuint_loop fuel max val len (ds ++ inp) =
  read_varuint_loop (fuel - length ds) max (fd 128 val ds) (len + N.of_nat (length ds)) inp.
Proof.
  induction ds as [|d ds IH]; intros fuel max val len inp Hf Hfuel Hmax Hb.
  - cbn [app length fd fold_left]. rewrite Nat.sub_0_r, N.add_0_r. reflexivity.
  - inversion Hf as [|? ? Hd Hds]; subst. cbn [length] in *.
    destruct fuel as [|f]; [lia|]. cbn [app read_varuint_loop].
    rewrite Nat2N.inj_succ in Hmax.
    replace (max <=? len) with false by lia.
    replace (128 <=? d) with false by lia.
    rewrite fd_cons in Hb.
    pose proof (fd_ge 128 (val * 128 + d) ds ltac:(lia)) as Hge.
    replace (max_u64_shr7 <? val) with false by (unfold max_u64_shr7, two64 in *; lia).
    assert (Hw : wrap64 (val * 128) + d mod 128 = val * 128 + d).
    { unfold wrap64. rewrite N.mod_small by lia. rewrite (N.mod_small d) by lia. reflexivity. }
    rewrite Hw. rewrite IH; [|exact Hds|lia|lia|exact Hb].
    rewrite fd_cons. rewrite Nat2N.inj_succ. f_equal. lia.
Qed.

Lemma varuint_digits v : v < two64 ->
  let ds := be_loop 128 10 (v / 128) [] in
  Forall (fun d => d < 128) ds /\ fd 128 0 ds = v / 128 /\ (length ds <= 9)%nat.
Proof.
  intros Hv ds. assert (Hq : v / 128 < 128 ^ N.of_nat 9).
  { change (128 ^ N.of_nat 9) with 9223372036854775808. apply N.div_lt_upper_bound; [lia|].
    unfold two64 in Hv. lia. }
  split; [|split].
  - apply be_loop_forall; [lia|constructor].
  - unfold ds. rewrite be_loop_fd; [reflexivity|lia|].
    eapply N.lt_le_trans; [exact Hq|]. apply N.pow_le_mono_r; lia.
  - pose proof (be_loop_length_le 128 ltac:(lia) 10 (v / 128) [] 9 Hq) as H. cbn [length] in H. unfold ds. lia.
Qed.

Theorem varuint_roundtrip v max rest : v < two64 -> varuint_len v <= max ->
  read_varuint max (append_varuint [] v ++ rest) = Ok (v, varuint_len v, rest).
Proof.
  intros Hv Hmax. destruct (varuint_digits v Hv) as (Hds & Hfd & Hlen).
  pose proof (varuint_len_ok [] v) as HL. unfold append_varuint in HL |- *. cbn [app] in HL |- *.
  rewrite be_loop_acc in HL |- *. set (ds := be_loop 128 10 (v / 128) []) in *.
  rewrite app_length, Nat2N.inj_add in HL.
  change (N.of_nat (length [128 + v mod 128])) with 1 in HL.
  change (N.of_nat (length (@nil N))) with 0 in HL. rewrite N.add_0_l in HL.
  unfold read_varuint. rewrite <- app_assoc.
  assert (Hfdv : fd 128 0 ds < two64).
  { rewrite Hfd. eapply N.le_lt_trans; [|exact Hv]. apply N.div_le_upper_bound; lia. }
  rewrite read_varuint_run; [|exact Hds|lia|lia|exact Hfdv].
  rewrite Hfd. destruct (11 - length ds)%nat as [|f] eqn:Ef; [lia|].
  cbn [app read_varuint_loop].
  replace (N.min max 10 <=? 0 + N.of_nat (length ds)) with false by lia.
  replace (max_u64_shr7 <? v / 128) with false by (unfold max_u64_shr7, two64 in *; lia).
  replace (128 <=? 128 + v mod 128) with true by lia.
  assert (Hw : wrap64 (v / 128 * 128) + (128 + v mod 128) mod 128 = v).
  { unfold wrap64. rewrite N.mod_small by (unfold two64 in *; lia).
    replace ((128 + v mod 128) mod 128) with (v mod 128) by lia.
    pose proof (N.div_mod v 128). lia. }
  rewrite Hw. f_equal. f_equal. f_equal. lia.
Qed.

(* ---- tags -------------------------------------------------------------------------------- *)
Theorem tag_len_ok code len : N.of_nat (length (append_tag [] code len)) = tag_len len.
Proof.
  unfold append_tag, tag_len. destruct (len <? 14); [reflexivity|].
  rewrite varuint_len_ok. cbn [app length]. lia.
Qed.

(* ---- VarInt ---------------------------------------------------------------------------------- *)
Lemma len_loop_fuel base f1 f2 v l : 1 < base -> v < base ^ N.of_nat f1 -> (f1 <= f2)%nat ->
  len_loop base f1 v l = len_loop base f2 v l.
Proof.
  intros Hb. revert f2 v l. induction f1 as [|f1 IH]; intros f2 v l Hv Hf.
  - cbn in Hv. assert (v = 0) by lia. subst. destruct f2; reflexivity.
  - destruct f2 as [|f2]; [lia|]. cbn [len_loop]. destruct (0 <? v); [|reflexivity].
    apply IH; [|lia]. rewrite Nat2N.inj_succ, N.pow_succ_r' in Hv.
    apply N.div_lt_upper_bound; lia.
Qed.

Lemma len_loop_S base f v l :
  len_loop base (S f) v l = if 0 <? v then len_loop base f (v / base) (l + 1) else l.
Proof. reflexivity. Qed.

Lemma len_loop_ge base fuel v l : l <= len_loop base fuel v l.
Proof.
  revert v l. induction fuel as [|f IH]; intros v l; cbn [len_loop]; [lia|].
  destruct (0 <? v); [|lia]. specialize (IH (v / base) (l + 1)). lia.
Qed.

Lemma len_loop_le base fuel v l k : 1 < base -> v < base ^ N.of_nat k ->
  len_loop base fuel v l <= l + N.of_nat k.
Proof.
  intros Hb. revert v l k. induction fuel as [|f IH]; intros v l k Hv; cbn [len_loop]; [lia|].
  destruct (0 <? v) eqn:E; [|lia].
  destruct k as [|k]. { cbn in Hv. lia. }
  rewrite Nat2N.inj_succ, N.pow_succ_r' in Hv.
  specialize (IH (v / base) (l + 1) k). rewrite Nat2N.inj_succ.
  assert (v / base < base ^ N.of_nat k) by (apply N.div_lt_upper_bound; lia).
  specialize (IH H). lia.
Qed.

Lemma varint_loop_spec fuel : forall mag acc l, mag < 64 * 128 ^ N.of_nat fuel ->
  exists m ds, varint_loop fuel mag acc = (m, ds ++ acc) /\ m < 64 /\
    Forall (fun d => d < 128) ds /\ fd 128 m ds = mag /\
    N.of_nat (length ds) + l = len_loop 128 fuel (mag / 64) l.
Proof.
  induction fuel as [|f IH]; intros mag acc l Hm.
  - cbn in Hm. exists mag, []. cbn. repeat split; try lia. constructor.
  - cbn [varint_loop len_loop]. destruct (0 <? mag / 64) eqn:E.
    + rewrite Nat2N.inj_succ, N.pow_succ_r' in Hm.
      destruct (IH (mag / 128) (mag mod 128 :: acc) (l + 1)) as (m & ds & E1 & Hm64 & Hds & Hfd & Hl).
      { apply N.div_lt_upper_bound; lia. }
      exists m, (ds ++ [mag mod 128]). rewrite E1. repeat split.
      * rewrite <- app_assoc. reflexivity.
      * exact Hm64.
      * apply Forall_app. split; [exact Hds|]. constructor; [lia|constructor].
      * rewrite fd_app, Hfd. cbn. lia.
      * rewrite app_length, Nat2N.inj_add. cbn [length].
        replace (mag / 64 / 128) with (mag / 128 / 64) by lia.
        rewrite <- Hl. lia.
    + exists mag, []. cbn. repeat split; try lia. constructor.
Qed.

Theorem varint_len_ok v : (Z.abs v < Z.of_N two63)%Z ->
  N.of_nat (length (append_varint [] v)) = varint_len v.
Proof.
  intros Hb. unfold append_varint, varint_len. cbn [app].
  set (mag := mag64 v). assert (Hmag : mag < two63) by (unfold mag, mag64; lia).
  destruct (mag / 64 =? 0) eqn:E.
  - cbn [length]. rewrite (len_loop_S 128 9). replace (0 <? mag / 64) with false by lia. reflexivity.
  - destruct (varint_loop_spec 10 (mag / 128) [128 + mag mod 128] 2) as (m & ds & E1 & _ & _ & _ & Hl).
    { change (64 * 128 ^ N.of_nat 10) with 75557863725914323419136. unfold two63 in Hmag. lia. }
    rewrite E1. cbn [length]. rewrite app_length. cbn [length].
    rewrite (len_loop_S 128 9). replace (0 <? mag / 64) with true by lia.
    replace (mag / 64 / 128) with (mag / 128 / 64) by lia.
    rewrite (len_loop_fuel 128 9 10); [|lia| |lia].
    + change (1 + 1) with 2. rewrite <- Hl. lia.
    + change (128 ^ N.of_nat 9) with 9223372036854775808. unfold two63 in Hmag. lia.
Qed.

Lemma to_i64_small x : x < two63 -> to_i64 x = Z.of_N x.
Proof. intros H. unfold to_i64. replace (x <? two63) with true by lia. reflexivity. Qed.

Lemma i64_mul_sign (neg : bool) x : x < two63 ->
  to_i64 (of_i64 ((if neg then -1 else 1) * to_i64 x)%Z) = (if neg then - Z.of_N x else Z.of_N x)%Z.
Proof.
  intros H. rewrite (to_i64_small x) by exact H. unfold of_i64, to_i64, two64, two63 in *.
  destruct neg.
  - replace (-1 * Z.of_N x)%Z with (- Z.of_N x)%Z by lia.
    change (Z.of_N 18446744073709551616) with 18446744073709551616%Z.
    destruct (Z.to_N (- Z.of_N x mod 18446744073709551616) <? 9223372036854775808) eqn:EE; lia.
  - replace (1 * Z.of_N x)%Z with (Z.of_N x) by lia.
    change (Z.of_N 18446744073709551616) with 18446744073709551616%Z.
    destruct (Z.to_N (Z.of_N x mod 18446744073709551616) <? 9223372036854775808) eqn:EE; lia.
Qed.

Lemma read_varint_run ds : forall fuel max val len neg inp,
  Forall (fun d => d < 128) ds ->
  (length ds <= fuel)%nat -> len + N.of_nat (length ds) <= max ->
  fd 128 val ds < two63 ->
  read_varint_loop fuel max val len neg (ds ++ inp) =
  read_varint_loop (fuel - length ds) max (fd 128 val ds) (len + N.of_nat (length ds)) neg inp.
Proof.
  induction ds as [|d ds IH]; intros fuel max val len neg inp Hf Hfuel Hmax Hb.
  - cbn [app length fd fold_left]. rewrite Nat.sub_0_r, N.add_0_r. reflexivity.
  - inversion Hf as [|? ? Hd Hds]; subst. cbn [length] in *.
    destruct fuel as [|f]; [lia|]. cbn [app read_varint_loop].
    rewrite Nat2N.inj_succ in Hmax.
    replace (max <=? len) with false by lia.
    replace (128 <=? d) with false by lia.
    rewrite fd_cons in Hb.
    pose proof (fd_ge 128 (val * 128 + d) ds ltac:(lia)) as Hge.
    replace (max_i64_shr7 <? val) with false by (unfold max_i64_shr7, two63 in *; lia).
    assert (Hw : wrap64 (val * 128) + d mod 128 = val * 128 + d).
    { unfold wrap64, two63, two64 in *. rewrite N.mod_small by lia. rewrite (N.mod_small d) by lia. reflexivity. }
    rewrite Hw. rewrite IH; [|exact Hds|lia|lia|exact Hb].
    rewrite fd_cons. rewrite Nat2N.inj_succ. f_equal. lia.
Qed.

Theorem varint_roundtrip v max rest : (Z.abs v < Z.of_N two63)%Z -> varint_len v <= max ->
  read_varint max (append_varint [] v ++ rest) = Ok (v, (v <? 0)%Z, varint_len v, rest).
Proof.
  intros Hb Hmax. pose proof (varint_len_ok v Hb) as HL. revert HL.
  unfold append_varint. cbn [app].
  set (mag := mag64 v). assert (Hmag : mag < two63) by (unfold mag, mag64; lia).
  assert (Hv : v = (if (v <? 0)%Z then - Z.of_N mag else Z.of_N mag)%Z).
  { unfold mag, mag64. destruct (v <? 0)%Z eqn:E; lia. }
  assert (Hlen1 : 1 <= varint_len v).
  { unfold varint_len. apply len_loop_ge. }
  destruct (mag / 64 =? 0) eqn:E; intros HL.
  - cbn [length] in HL. unfold read_varint. replace (max =? 0) with false by lia. cbn [app].
    destruct (v <? 0)%Z eqn:En.
    + replace ((128 + 64 + mag mod 64) mod 128) with (64 + mag) by lia.
      replace (64 <=? 64 + mag) with true by lia.
      replace (128 <=? 128 + 64 + mag mod 64) with true by lia.
      replace ((128 + 64 + mag mod 64) mod 64) with mag by lia.
      rewrite <- HL, <- Hv. reflexivity.
    + replace ((128 + 0 + mag mod 64) mod 128) with mag by lia.
      replace (64 <=? mag) with false by lia.
      replace (128 <=? 128 + 0 + mag mod 64) with true by lia.
      replace ((128 + 0 + mag mod 64) mod 64) with mag by lia.
      rewrite <- HL, <- Hv. reflexivity.
  - destruct (varint_loop_spec 10 (mag / 128) [128 + mag mod 128] 0) as (m & ds & E1 & Hm & Hds & Hfd & Hl0).
    { change (64 * 128 ^ N.of_nat 10) with 75557863725914323419136. unfold two63 in Hmag. lia. }
    rewrite E1 in HL |- *. cbn [length] in HL. rewrite app_length in HL. cbn [length] in HL.
    unfold read_varint. replace (max =? 0) with false by lia. cbn [app].
    set (sb := if (v <? 0)%Z then 64 else 0).
    assert (Hsb : sb = 0 \/ sb = 64) by (unfold sb; destruct (v <? 0)%Z; lia).
    replace (m mod 64) with m by lia.
    replace (128 <=? sb + m) with false by lia.
    replace ((sb + m) mod 64) with m by lia.
    replace (64 <=? (sb + m) mod 128) with (v <? 0)%Z
      by (unfold sb; destruct (v <? 0)%Z; lia).
    assert (Hlds : (length ds <= 8)%nat).
    { pose proof (len_loop_le 128 10 (mag / 128 / 64) 0 8 ltac:(lia)) as Hle.
      assert (Hq : mag / 128 / 64 < 128 ^ N.of_nat 8).
      { change (128 ^ N.of_nat 8) with 72057594037927936. unfold two63 in Hmag. lia. }
      specialize (Hle Hq). lia. }
    assert (Hfdb : fd 128 m ds < two63).
    { rewrite Hfd. unfold two63, two64 in *. lia. }
    rewrite <- app_assoc.
    rewrite read_varint_run; [|exact Hds|lia|lia|exact Hfdb].
    rewrite Hfd. destruct (11 - length ds)%nat as [|f] eqn:Ef; [lia|].
    cbn [app read_varint_loop].
    replace (N.min max 10 <=? 1 + N.of_nat (length ds)) with false by lia.
    replace (max_i64_shr7 <? mag / 128) with false by (unfold max_i64_shr7, two63 in *; lia).
    replace (128 <=? 128 + mag mod 128) with true by lia.
    assert (Hw : wrap64 (mag / 128 * 128) + (128 + mag mod 128) mod 128 = mag).
    { unfold wrap64. rewrite N.mod_small by (unfold two63, two64 in *; lia).
      replace ((128 + mag mod 128) mod 128) with (mag mod 128) by lia. lia. }
    rewrite Hw, i64_mul_sign by exact Hmag. rewrite <- Hv.
    f_equal. f_equal. f_equal. lia.
Qed.

(* ---- magnitudes read with uint64 arithmetic ------------------------------------------------ *)
Lemma from_be64_small bs : Forall (fun d => d < 256) bs -> (length bs <= 8)%nat ->
  from_be64 bs = from_be bs.
Proof.
  intros Hb Hl. unfold from_be64, from_be.
  assert (G : forall l a, Forall (fun d => d < 256) l ->
             a * 256 ^ N.of_nat (length l) + fd 256 0 l < two64 ->
             fold_left (fun a b => wrap64 (a * 256) + b) l a = fold_left (fun a b => a * 256 + b) l a).
  { induction l as [|d l IH]; intros a Hf Ha; [reflexivity|].
    inversion Hf as [|? ? Hd Hl']; subst. cbn [fold_left].
    cbn [length] in Ha. rewrite Nat2N.inj_succ, N.pow_succ_r' in Ha.
    change (fold_left (fun a b : N => a * 256 + b) (d :: l) 0) with (fd 256 0 (d :: l)) in Ha.
    rewrite fd_cons, fd_split in Ha.
    assert (0 < 256 ^ N.of_nat (length l)) by (apply Npow_pos; lia).
    assert (Hw : wrap64 (a * 256) = a * 256).
    { unfold wrap64. apply N.mod_small. nia. }
    rewrite Hw. apply IH; [exact Hl'|]. nia. }
  apply G; [exact Hb|].
  pose proof (fd_bound 256 bs ltac:(lia) Hb) as H1.
  assert (256 ^ N.of_nat (length bs) <= 256 ^ 8) by (apply N.pow_le_mono_r; lia).
  change (256 ^ 8) with two64 in *. lia.
Qed.

(* ---- exactness of the read side: a successful read never returns a wrapped value ---------- *)
Definition low7 (l : list N) : list N := map (fun c => c mod 128) l.

Lemma read_varuint_loop_exact fuel : forall max val len inp v l rest,
  read_varuint_loop fuel max val len inp = Ok (v, l, rest) ->
  exists pre, inp = pre ++ rest /\ l = len + N.of_nat (length pre) /\
              v = fd 128 val (low7 pre) /\ l <= max.
Proof.
  induction fuel as [|f IH]; intros max val len inp v l rest H; [discriminate|].
  cbn [read_varuint_loop] in H.
  destruct (max <=? len) eqn:E1; [discriminate|].
  destruct inp as [|c inp']; [discriminate|].
  destruct (max_u64_shr7 <? val) eqn:E2; [discriminate|].
  assert (Hw : wrap64 (val * 128) + c mod 128 = val * 128 + c mod 128).
  { unfold wrap64. rewrite N.mod_small; [reflexivity|]. unfold max_u64_shr7, two64 in *. lia. }
  rewrite Hw in H. destruct (128 <=? c) eqn:E3.
  - inversion H; subst. exists [c]. cbn. repeat split; lia.
  - apply IH in H. destruct H as (pre & -> & -> & -> & Hle).
    exists (c :: pre). cbn [app length low7 map]. rewrite fd_cons, Nat2N.inj_succ.
    repeat split; try lia.
Qed.

Theorem read_varuint_exact max inp v l rest :
  read_varuint max inp = Ok (v, l, rest) ->
  exists pre, inp = pre ++ rest /\ l = N.of_nat (length pre) /\ v = fd 128 0 (low7 pre) /\
              l <= 10 /\ l <= max.
Proof.
  unfold read_varuint. intros H. apply read_varuint_loop_exact in H.
  destruct H as (pre & -> & -> & -> & Hle). exists pre. repeat split; lia.
Qed.
