(* ReaderTrace.v — the tokens the plain full traversal of the binary reader model
   ([traverse] of Bin/BinReader.v) is expected to return for a forest of values written
   under the local symbol list L: per value  T <field> a[<annotations>] y<type> n<isnull>
   then the accessor's answer, or  ok <children> F ok  for a container; at the end
   F e0 F e0 F e0.  Symbol tokens carry the text and the symbol ID the writer used.
   Timestamps are printed as their raw body.  Definitions only. *)
From Coq Require Import String List NArith ZArith Bool.
From IonV Require Import Base.Wire Base.Utf8 Bin.Bits Data.Ion Num.Float Bin.BinWriter
  Bin.BitStream Bin.BinReader Bin.RoundTripBin.
Import ListNotations.
Open Scope N_scope.

(* the token the reader reports for a symbol written under L *)
Definition rd_tok (L : list text) (y : symv) : tok :=
  {| tk_text := Some (symtext y); tk_sid := Z.of_N (sid L (symtext y)) |}.
Definition tr_field (L : list text) (fld : option symv) : list N :=
  match fld with None => t_nil | Some y => show_tok (rd_tok L y) end.
Definition tr_annots (L : list text) (a : list symv) : list N :=
  97 :: 91 :: concat (map (fun t => show_tok t ++ [59]) (map (rd_tok L) a)) ++ [93].
(* Next, FieldName, Annotations, Type, IsNull *)
Definition tr_head (L : list text) (fld : option symv) (a : list symv) (ty : N) (isnull : bool) : list (list N) :=
  [ [84]; tr_field L fld; tr_annots L a; 121 :: dec_of_N ty; [110; if isnull then 49 else 48] ].

Fixpoint tr_value (L : list text) (fld : option symv) (a : list symv) (v : value) : list (list N) :=
  match v with
  | VAnn a' x => tr_value L fld a' x
  | VNull t => tr_head L fld a t true
  | VBool b => tr_head L fld a TBool false ++ [[98; if b then 49 else 48]]
  | VInt z => tr_head L fld a TInt false ++ [73 :: dec_of_Z z]
  | VFloat b => tr_head L fld a TFloat false ++ [70 :: dec_of_N b]
  | VDecimal d => tr_head L fld a TDecimal false ++ [show_dec d]
  | VTimestamp body => tr_head L fld a TTimestamp false ++ [84 :: hex_of_bytes body]
  | VSymbol y => tr_head L fld a TSymbol false ++ [show_tok (rd_tok L y)]
  | VString t => tr_head L fld a TString false ++ [83 :: xhex t]
  | VClob b => tr_head L fld a TClob false ++ [66 :: xhex b]
  | VBlob b => tr_head L fld a TBlob false ++ [66 :: xhex b]
  | VList l => tr_head L fld a TList false ++ [s "ok"%string] ++
               flat_map (tr_value L None []) l ++ [[70]; s "ok"%string]
  | VSexp l => tr_head L fld a TSexp false ++ [s "ok"%string] ++
               flat_map (tr_value L None []) l ++ [[70]; s "ok"%string]
  | VStruct fs => tr_head L fld a TStruct false ++ [s "ok"%string] ++
               flat_map (fun '(n, x) => tr_value L (Some n) [] x) fs ++ [[70]; s "ok"%string]
  end.

Definition tr_tail : list (list N) := [[70]; [101; 48]; [70]; [101; 48]; [70]; [101; 48]].
(* the whole trace of a forest written under L *)
Definition trace_under (L : list text) (vs : list value) : list (list N) :=
  flat_map (tr_value L None []) vs ++ tr_tail.
Definition trace_of (vs : list value) : list (list N) := trace_under (locals_of vs) vs.

(* loop iterations the traversal spends on a value *)
Fixpoint cost (v : value) : nat :=
  match v with
  | VAnn _ x => cost x
  | VList l | VSexp l => 2 + fold_right (fun x n => cost x + n)%nat 0%nat l
  | VStruct fs => 2 + fold_right (fun p n => cost (snd p) + n)%nat 0%nat fs
  | _ => 1
  end.

(* timestamp bodies of a value *)
Fixpoint ts_bodies (v : value) : list (list N) :=
  match v with
  | VTimestamp body => [body]
  | VList l | VSexp l => flat_map ts_bodies l
  | VStruct fs => flat_map (fun p => ts_bodies (snd p)) fs
  | VAnn _ x => ts_bodies x
  | _ => []
  end.
