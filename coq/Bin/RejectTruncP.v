(* RejectTruncP.v — a top-level scalar (or NOP pad) whose declared length exceeds the input: Next reads the header and the
   eager read of the body fails. *)
From Coq Require Import String List NArith ZArith Bool Lia ZifyBool ZifyN ZifyNat.
From IonV Require Import Base.Wire Base.Utf8 Bin.Bits Bin.BitsP Data.Ion Num.Float Bin.BitStream Bin.BinReader
  Bin.BitStreamP Bin.BitStreamNextP Bin.BitStreamSkipP Bin.BinWriter Bin.SpecBin Bin.RoundTripBin Bin.RoundTripBinS Bin.BitEvalP
  Bin.BitEvalAnnP Bin.ReaderTrace Bin.BinReaderInvP Bin.BinReaderP Bin.ReaderTraceP Bin.ReaderTopP
  Bin.ReaderLstP Bin.SpecLim Bin.SpecLimP Bin.SpecLimAppP Bin.BitEvalGenP Bin.SpecAgreeP Bin.BitEvalAnnGenP Bin.SpecAgreeTravP
  Bin.SpecAgreeContP Bin.Reject Bin.RejectP Bin.RejectVarP Bin.RejectHdrP Bin.RejectFieldP Bin.RejectAllP.
Import ListNotations.
Open Scope N_scope.
Ltac Zify.zify_post_hook ::= Z.div_mod_to_equations.

Ltac bsimpl :=
  cbn [b_in b_ioerr b_pos b_state b_stack b_code b_null b_len b_alloc b_avail b_fuel
       upd_in upd_state upd_stack upd_cur upd_alloc b_clear done_value fst snd] in *.
Ltac rsimpl :=
  cbn [r_bits r_ctx r_eof r_err r_lst r_field r_annots r_type r_value
       rs_bits rs_ctx rs_eof rs_err rs_lst rs_field rs_annots rs_val r_clear fst snd] in *.
Ltac disp :=
  cbn [N.eqb Pos.eqb orb andb negb bcEOF bcBVM bcFieldID bcAnnotation bcNull bcFalse bcTrue bcInt bcNegInt bcFloat
       bcDecimal bcTimestamp bcSymbol bcString bcClob bcBlob bcList bcSexp bcStruct].

Section Short.
Variable ts : list N -> res unit.
Hypothesis Hts : forall bs, ts bs <> Panic /\ ts bs <> OutOfFuel.
Variable b : bstate.
Hypothesis I : binv b.
Hypothesis Ev : b_state b = bssOnValue.
Hypothesis Hs : b_avail b < b_len b.

Ltac short took :=
  let A := fresh "A" in let P := fresh "P" in
  pose proof (bcore_avail _ (proj1 I)) as A; destruct (proj1 I) as (_ & _ & P & _);
  match goal with
  | S : ospec _ ?x _ |- _ =>
    destruct S as [(_ & Np & _) Nf]; destruct x as [b' [v| | |]] eqn:E; cbn [snd] in *; try contradiction; [|eexists; reflexivity];
    exfalso; destruct (took b A P b' v E) as (bx & Ad & _); pose proof (adv_le _ _ _ Ad); lia
  end.

Lemma read_short_int : b_code b = bcInt \/ b_code b = bcNegInt -> exists b', b_read_int b = (b', Err).
Proof. intros Ec. pose proof (b_read_int_spec b I Ev Ec) as S. short read_int_took. Qed.
Lemma read_short_float : b_code b = bcFloat -> exists b', b_read_float b = (b', Err).
Proof. intros Ec. pose proof (b_read_float_spec b I Ev Ec) as S. short read_float_took. Qed.
Lemma read_short_symbol : b_code b = bcSymbol -> exists b', b_read_symbol_id b = (b', Err).
Proof. intros Ec. pose proof (b_read_symbol_id_spec b I Ev Ec) as S. short read_symbol_took. Qed.
Lemma read_short_string : b_code b = bcString -> exists b', b_read_string b = (b', Err).
Proof. intros Ec. pose proof (b_read_string_spec b I Ev Ec) as S. short read_string_took. Qed.
Lemma read_short_bytes : b_code b = bcClob \/ b_code b = bcBlob -> exists b', b_read_bytes b = (b', Err).
Proof. intros Ec. pose proof (b_read_bytes_spec b I Ev Ec) as S. short read_bytes_took. Qed.
Lemma read_short_timestamp : b_code b = bcTimestamp -> exists b', b_read_timestamp b ts = (b', Err).
Proof. intros Ec. pose proof (b_read_timestamp_spec b ts Hts I Ev Ec) as S. short (fun b A P => read_timestamp_took b A P ts). Qed.
Lemma read_short_decimal : b_code b = bcDecimal -> exists b', b_read_decimal b = (b', Err).
Proof.
  intros Ec. pose proof (b_read_decimal_spec b I Ev Ec) as S.
  assert (Hl : b_len b < two64).
  { destruct I as (C & F & _). destruct (F Ev) as [_ F2]. destruct C as (_ & _ & P & _). specialize (F2 ltac:(rewrite Ec; discriminate)). lia. }
  pose proof (bcore_avail _ (proj1 I)) as A. destruct (proj1 I) as (_ & _ & P & _).
  destruct S as [(_ & Np & _) Nf]. destruct (b_read_decimal b) as [b' [v| | |]] eqn:E; cbn [snd] in *; try contradiction; [|eexists; reflexivity].
  exfalso. destruct (read_decimal_took b A P b' v Hl E) as (bx & Ad & _). pose proof (adv_le _ _ _ Ad). lia.
Qed.
Lemma read_short_skip : exists b', b_skip_value b = (b', Err).
Proof.
  pose proof (b_skip_value_spec b I) as S.
  pose proof (bcore_avail _ (proj1 I)) as A. destruct (proj1 I) as (_ & _ & P & _).
  destruct S as [(_ & Np & _) Nf]. destruct (b_skip_value b) as [b' [v| | |]] eqn:E; cbn [snd] in *; try contradiction; [|eexists; reflexivity].
  exfalso. destruct (skip_took b b' v A P Ev E) as (bx & Ad & _). pose proof (adv_le _ _ _ Ad). lia.
Qed.
End Short.

Section Trunc.
Variable ts : list N -> res unit.
Hypothesis Hts : forall bs, ts bs <> Panic /\ ts bs <> OutOfFuel.
Variable tot : N.
Hypothesis Htot : tot < two63.

Lemma leaf_trunc : LEAF_TRUNC ts tot.
Proof.
  intros api fuel r b1 tag r0 len r1 Hb Ht10 Ht1 Hlo15 Elen Hov Hb1 Hn.
  inversion Hb as [|? ? Htag Hr0]; subst.
  destruct (tag_split tot Htot tag Htag) as (Etag & _ & Hlo16).
  destruct (hdr_facts ts tot Htot b1 tag r0 [] [] Hb1 Logic.I) as (R & Ha & Nw & Hrem).
  cbn [length N.of_nat] in Ha. set (t := tag / 16) in *. set (lo := tag mod 16) in *.
  pose proof Hb1 as Hb1'. rewrite Etag in Hb1'. cbn [app] in Hb1'.
  pose proof (b_next_eq tot Htot b1 t lo (r0 ++ []) [] Hb1' R ltac:(lia) Ht1 ltac:(lia) ltac:(lia)) as Eq. cbv zeta in Eq.
  replace ((t =? 13) && (lo =? 1)) with false in Eq by lia.
  unfold HDRF in Elen. fold t lo in Elen. replace ((t =? 13) && (lo =? 1)) with false in Elen by lia. rewrite orb_false_r in Elen.
  pose proof Hb1 as [I1 Ein1 St1 Es1 Nl1 _].
  assert (HN : (exists b', b_next b1 = (b', Err)) \/
               (exists b', b_next b1 = (b', Ok tt) /\ b_avail b' < b_len b' /\ b_code b' = bitcode_of_high t /\ b_null b' = false)).
  { destruct (lo =? 14) eqn:E14.
    - destruct (read_len_ok ts tot Htot (upd_state (upd_in b1 (r0 ++ []) (b_pos b1 + 1) (b_avail b1 - 1)) bssOnValue) r0 [] len r1
                  (hdr_rem b1 [])) as (b' & ds & E & Ad & E0 & Hds & Hl64); auto.
      { unfold avail_ok. bsimpl. rewrite app_length. cbn [length]. lia. }
      { right. rewrite Hrem. lia. }
      rewrite E in Eq. unfold hdr_fin in Eq.
      destruct (wrap64 (hdr_rem b1 [] + two64 - N.of_nat (length ds)) <? len); [left; eexists; exact Eq|].
      destruct (wrap64 (b_pos b' + len) <? b_pos b'); [left; eexists; exact Eq|].
      right. eexists. split; [exact Eq|]. bsimpl.
      pose proof (adv_avail _ _ _ Ad) as Q1. pose proof (adv_null _ _ _ Ad) as Q2. bsimpl.
      rewrite E0, app_length in Ha. split; [lia|]. split; [reflexivity|congruence].
    - inversion Elen; subst len r1. unfold hdr_fin in Eq.
      destruct (hdr_rem b1 [] <? lo); [left; eexists; exact Eq|].
      destruct (wrap64 _ <? _); [left; eexists; exact Eq|].
      right. eexists. split; [exact Eq|]. bsimpl. split; [lia|]. split; [reflexivity|exact Nl1]. }
  destruct HN as [(b' & E)|(b' & E & Hs & Ec & Nl)].
  { rewrite <- Hn in E. eexists. apply raw_next_err. exact E. }
  destruct (b_next_spec b1 I1) as [(_ & _ & Post) _]. rewrite E in Post. cbn [fst snd] in Post.
  destruct (Post tt eq_refl) as ((Ib & _) & _ & _ & _ & _ & _ & Hst).
  assert (C : t = 0 \/ t = 2 \/ t = 3 \/ t = 4 \/ t = 5 \/ t = 6 \/ t = 7 \/ t = 8 \/ t = 9 \/ t = 10) by lia.
  assert (Ev : b_state b' = bssOnValue).
  { apply Hst; rewrite Ec; repeat (destruct C as [C|C]; [rewrite C; discriminate|]); rewrite C; discriminate. }
  rewrite <- Hn in E. unfold r_next_raw. rewrite E. cbv zeta. rewrite Nl.
  repeat (destruct C as [C|C]; [rewrite C in Ec; cbn [bitcode_of_high N.eqb Pos.eqb] in Ec; rewrite Ec; disp; unfold lift|]);
    [| | | | | | | | |rewrite C in Ec; cbn [bitcode_of_high N.eqb Pos.eqb] in Ec; rewrite Ec; disp; unfold lift].
  - destruct (read_short_skip b' Ib Ev Hs) as (b'' & Er). rewrite Er. eexists; reflexivity.
  - destruct (read_short_int b' Ib Ev Hs (or_introl Ec)) as (b'' & Er). rewrite Er. eexists; reflexivity.
  - destruct (read_short_int b' Ib Ev Hs (or_intror Ec)) as (b'' & Er). rewrite Er. eexists; reflexivity.
  - destruct (read_short_float b' Ib Ev Hs Ec) as (b'' & Er). rewrite Er. eexists; reflexivity.
  - destruct (read_short_decimal b' Ib Ev Hs Ec) as (b'' & Er). rewrite Er. eexists; reflexivity.
  - destruct (read_short_timestamp ts Hts b' Ib Ev Hs Ec) as (b'' & Er). rewrite Er. eexists; reflexivity.
  - destruct (read_short_symbol b' Ib Ev Hs Ec) as (b'' & Er). rewrite Er. eexists; reflexivity.
  - destruct (read_short_string ts Hts b' Ib Ev Hs Ec) as (b'' & Er). rewrite Er. eexists; reflexivity.
  - destruct (read_short_bytes ts Hts b' Ib Ev Hs (or_introl Ec)) as (b'' & Er). rewrite Er. eexists; reflexivity.
  - destruct (read_short_bytes ts Hts b' Ib Ev Hs (or_intror Ec)) as (b'' & Er). rewrite Er. eexists; reflexivity.
Qed.
End Trunc.

(* ---- class S3, the whole traversal ----------------------------------------------------------------------------------------------- *)
Theorem reject_all ts bytes :
  (forall bs, ts bs <> Panic /\ ts bs <> OutOfFuel) -> sjudge ts (cov_all ts) bytes = VRej ->
  Forall (fun c => c < 256) bytes -> N.of_nat (length bytes) < two63 ->
  ends_in_error (fst (traverse ts bytes false)).
Proof.
  intros Hts. apply reject_stream; [exact Hts|]. intros tot Htot. apply covok_all; auto. apply leaf_trunc; auto.
Qed.

Theorem reject_sdecode_all ts bytes :
  (forall bs, ts bs <> Panic /\ ts bs <> OutOfFuel) ->
  sdecode bytes = None -> sjudge ts (cov_all ts) bytes <> VOut ->
  Forall (fun c => c < 256) bytes -> N.of_nat (length bytes) < two63 ->
  ends_in_error (fst (traverse ts bytes false)).
Proof.
  intros Hts. apply (reject_sdecode ts (cov_all ts)); [exact Hts|]. intros tot Htot. apply covok_all; auto. apply leaf_trunc; auto.
Qed.
