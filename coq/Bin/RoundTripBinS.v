(* RoundTripBinP.v — the binary round trip: what the Writer model emits for a forest of values
   decodes, under the specification decoder of SpecBin.v, to exactly those values.
   Part 1: the specification decoder inverts [enc].  Part 2: the Writer model emits [enc].
   Part 3: composition. *)
From Coq Require Import String List NArith ZArith Bool Lia ZifyBool ZifyN ZifyNat.
From IonV Require Import Base.Wire Base.Utf8 Bin.Bits Bin.BitsP Data.Ion Num.Float
  Bin.BinWriter Bin.BinWriterP Bin.SpecBin Bin.RoundTripBin.
Import ListNotations.
Open Scope N_scope.
Ltac Zify.zify_post_hook ::= Z.div_mod_to_equations.

Arguments sp_value : simpl never.
Arguments take_n : simpl never.
Arguments utf8_valid : simpl never.
Arguments widen : simpl never.
Arguments narrow : simpl never.
Arguments big_bytes : simpl never.

(* ---- induction over values with nested lists ------------------------------------------------------ *)
Definition is_scalar (v : value) : Prop :=
  match v with VList _ | VSexp _ | VStruct _ | VAnn _ _ => False | _ => True end.

Section ValueInd.
Variable P : value -> Prop.
Hypothesis Hscalar : forall v, is_scalar v -> P v.
Hypothesis Hlist : forall l, Forall P l -> P (VList l).
Hypothesis Hsexp : forall l, Forall P l -> P (VSexp l).
Hypothesis Hstruct : forall fs, Forall (fun p => P (snd p)) fs -> P (VStruct fs).
Hypothesis Hann : forall a x, P x -> P (VAnn a x).
Fixpoint value_ind' (v : value) : P v :=
  match v with
  | VList l => Hlist l ((fix go (l : list value) : Forall P l :=
                           match l with [] => Forall_nil _ | x :: r => Forall_cons _ (value_ind' x) (go r) end) l)
  | VSexp l => Hsexp l ((fix go (l : list value) : Forall P l :=
                           match l with [] => Forall_nil _ | x :: r => Forall_cons _ (value_ind' x) (go r) end) l)
  | VStruct fs => Hstruct fs ((fix go (l : list (symv * value)) : Forall (fun p => P (snd p)) l :=
                           match l with [] => Forall_nil _ | p :: r => Forall_cons p (value_ind' (snd p)) (go r) end) fs)
  | VAnn a x => Hann a x (value_ind' x)
  | VNull t => Hscalar (VNull t) I
  | VBool b => Hscalar (VBool b) I
  | VInt z => Hscalar (VInt z) I
  | VFloat b => Hscalar (VFloat b) I
  | VDecimal d => Hscalar (VDecimal d) I
  | VTimestamp b => Hscalar (VTimestamp b) I
  | VSymbol y => Hscalar (VSymbol y) I
  | VString t => Hscalar (VString t) I
  | VClob b => Hscalar (VClob b) I
  | VBlob b => Hscalar (VBlob b) I
  end.
End ValueInd.

(* ---- lists ----------------------------------------------------------------------------------------------- *)
Lemma list_eqb_true (a b : list N) : list_eqb a b = true -> a = b.
Proof.
  revert b. induction a as [|x a IH]; intros [|y b]; cbn [list_eqb]; intros H; try discriminate; [reflexivity|].
  apply andb_true_iff in H. destruct H as [H1 H2]. apply N.eqb_eq in H1. subst. f_equal. auto.
Qed.
Lemma list_eqb_refl' (a : list N) : list_eqb a a = true.
Proof. induction a as [|x a IH]; cbn [list_eqb]; [reflexivity|]. rewrite N.eqb_refl, IH. reflexivity. Qed.

Lemma flat_map_in_len {A} (f : A -> list N) l x : In x l -> (length (f x) <= length (flat_map f l))%nat.
Proof.
  induction l as [|y l IH]; intros H; [destruct H|]. cbn [flat_map]. rewrite app_length.
  destruct H as [->|H]; [lia|]. specialize (IH H). lia.
Qed.
Lemma Forall_flat_map_in {A B} (P : B -> Prop) (f : A -> list B) l x :
  Forall P (flat_map f l) -> In x l -> Forall P (f x).
Proof.
  induction l as [|y l IH]; intros H Hin; [destruct Hin|]. cbn [flat_map] in H.
  apply Forall_app in H. destruct H as [H1 H2]. destruct Hin as [->|Hin]; auto.
Qed.

(* ---- take_n ------------------------------------------------------------------------------------------------ *)
Lemma take_n_aux_0 l acc : take_n_aux l 0 acc = Some (rev_append acc [], l).
Proof. destruct l; reflexivity. Qed.
Lemma take_n_aux_app b : forall rest acc,
  take_n_aux (b ++ rest) (N.of_nat (length b)) acc = Some (rev acc ++ b, rest).
Proof.
  induction b as [|x b IH]; intros rest acc.
  - cbn [app length N.of_nat]. rewrite take_n_aux_0, rev_append_rev, !app_nil_r. reflexivity.
  - cbn [app length take_n_aux]. replace (N.of_nat (S (length b)) =? 0) with false by lia.
    replace (N.of_nat (S (length b)) - 1) with (N.of_nat (length b)) by lia.
    rewrite IH. cbn [rev]. rewrite <- app_assoc. reflexivity.
Qed.
Lemma take_n_app b rest : take_n (N.of_nat (length b)) (b ++ rest) = Some (b, rest).
Proof. unfold take_n. rewrite take_n_aux_app. reflexivity. Qed.

(* ---- VarUInt under the specification reader ---------------------------------------------------------- *)
Lemma sp_varuint_run ds : forall acc last rest, Forall (fun d => d < 128) ds -> 128 <= last ->
  sp_varuint (ds ++ last :: rest) acc = Some (fd 128 acc ds * 128 + (last - 128), rest).
Proof.
  induction ds as [|d ds IH]; intros acc last rest Hf Hl.
  - cbn [app sp_varuint fd fold_left]. replace (128 <=? last) with true by lia. reflexivity.
  - inversion Hf as [|? ? Hd Hds]; subst. cbn [app sp_varuint]. replace (128 <=? d) with false by lia.
    rewrite IH by assumption. reflexivity.
Qed.

Lemma append_varuint_digits v : append_varuint [] v = be_loop 128 10 (v / 128) [] ++ [128 + v mod 128].
Proof. unfold append_varuint. cbn [app]. apply be_loop_acc. Qed.

Lemma sp_varuint_roundtrip v rest : v < two64 ->
  sp_varuint (append_varuint [] v ++ rest) 0 = Some (v, rest).
Proof.
  intros Hv. destruct (varuint_digits v Hv) as (Hds & Hfd & _).
  rewrite append_varuint_digits, <- app_assoc. cbn [app].
  rewrite sp_varuint_run; [|exact Hds|lia]. rewrite Hfd. f_equal. f_equal. lia.
Qed.

Lemma append_varuint_app b v : append_varuint b v = b ++ append_varuint [] v.
Proof. reflexivity. Qed.
Lemma append_varuint_nonempty v : append_varuint [] v <> [].
Proof. rewrite append_varuint_digits. destruct (be_loop 128 10 (v / 128) []); discriminate. Qed.
Lemma length_pos_nonempty {A} (l : list A) : l <> [] -> (1 <= length l)%nat.
Proof. destruct l; [congruence|cbn; lia]. Qed.

(* ---- VarInt under the specification reader ------------------------------------------------------------ *)
Lemma append_varint_app b v : append_varint b v = b ++ append_varint [] v.
Proof.
  unfold append_varint. destruct (mag64 v / 64 =? 0); [reflexivity|].
  destruct (varint_loop 10 (mag64 v / 128) [128 + mag64 v mod 128]). reflexivity.
Qed.

Lemma sp_varint_roundtrip v rest : (Z.abs v < Z.of_N two63)%Z ->
  sp_varint (append_varint [] v ++ rest) = Some (v, (v <? 0)%Z, rest).
Proof.
  intros Hb. unfold append_varint. cbn [app].
  set (mag := mag64 v). assert (Hmag : mag < two63) by (unfold mag, mag64; lia).
  assert (Hv : v = (if (v <? 0)%Z then - Z.of_N mag else Z.of_N mag)%Z).
  { unfold mag, mag64. destruct (v <? 0)%Z eqn:E; lia. }
  destruct (mag / 64 =? 0) eqn:E.
  - cbn [app sp_varint]. destruct (v <? 0)%Z eqn:En.
    + replace ((128 + 64 + mag mod 64) mod 128) with (64 + mag) by lia.
      replace (64 <=? 64 + mag) with true by lia.
      replace (128 <=? 128 + 64 + mag mod 64) with true by lia.
      replace ((128 + 64 + mag mod 64) mod 64) with mag by lia. f_equal. f_equal. f_equal. unfold mag, mag64. lia.
    + replace ((128 + 0 + mag mod 64) mod 128) with mag by lia.
      replace (64 <=? mag) with false by lia.
      replace (128 <=? 128 + 0 + mag mod 64) with true by lia.
      replace ((128 + 0 + mag mod 64) mod 64) with mag by lia. f_equal. f_equal. f_equal. unfold mag, mag64. lia.
  - destruct (varint_loop_spec 10 (mag / 128) [128 + mag mod 128] 0) as (m & ds & E1 & Hm & Hds & Hfd & _).
    { change (64 * 128 ^ N.of_nat 10) with 75557863725914323419136. unfold two63 in Hmag. lia. }
    rewrite E1. cbn [app sp_varint].
    set (sb := if (v <? 0)%Z then 64 else 0).
    assert (Hsb : sb = 0 \/ sb = 64) by (unfold sb; destruct (v <? 0)%Z; lia).
    replace (m mod 64) with m by lia.
    replace (128 <=? sb + m) with false by lia.
    replace ((sb + m) mod 64) with m by lia.
    replace (64 <=? (sb + m) mod 128) with (v <? 0)%Z by (unfold sb; destruct (v <? 0)%Z; lia).
    rewrite <- app_assoc. cbn [app]. rewrite sp_varuint_run; [|exact Hds|lia]. rewrite Hfd.
    replace (mag / 128 * 128 + (128 + mag mod 128 - 128)) with mag by lia.
    rewrite <- Hv. reflexivity.
Qed.
(* ---- Int / UInt fields ------------------------------------------------------------------------------------ *)
Lemma sp_uint_from_be l : sp_uint l = from_be l.
Proof. reflexivity. Qed.

Lemma sp_int_signmag l z : l <> [] -> read_signmag l = Ok z -> z <> 0%Z -> sp_int l = (z, false).
Proof.
  destruct l as [|c r]; [congruence|]. intros _. unfold read_signmag, sp_int.
  change (sp_uint (c mod 128 :: r)) with (from_be (c mod 128 :: r)).
  intros H Hz. inversion H as [H1]. rewrite H1.
  destruct (128 <=? c); cbn [andb]; [|reflexivity].
  replace (from_be (c mod 128 :: r) =? 0) with false by lia. reflexivity.
Qed.

Lemma append_bigint_app b v : append_bigint b v = b ++ append_bigint [] v.
Proof.
  unfold append_bigint. destruct (v =? 0)%Z; [rewrite app_nil_r; reflexivity|].
  unfold sign_bytes. destruct (big_bytes (Z.to_N (Z.abs v))) as [|b0 r]; [rewrite app_nil_r; reflexivity|].
  destruct (b0 <? 128); reflexivity.
Qed.

Lemma append_bigint_nonempty v : v <> 0%Z -> append_bigint [] v <> [].
Proof.
  intros Hv. unfold append_bigint. replace (v =? 0)%Z with false by lia.
  destruct (big_bytes_head (Z.to_N (Z.abs v))) as (d & t & E & _); [lia|]. rewrite E.
  unfold sign_bytes. destruct (d <? 128); discriminate.
Qed.

Lemma sp_int_bigint c : sp_int (append_bigint [] c) = (c, false).
Proof.
  destruct (Z.eq_dec c 0) as [->|Hc]; [reflexivity|].
  apply sp_int_signmag; [apply append_bigint_nonempty; exact Hc|apply bigint_roundtrip; exact Hc|exact Hc].
Qed.

(* ---- symbol IDs ---------------------------------------------------------------------------------------------- *)
Lemma index_of_spec t : forall l i k, index_of t l i = Some k ->
  i <= k /\ k < i + N.of_nat (length l) /\ nth_error l (N.to_nat (k - i)) = Some t.
Proof.
  induction l as [|x l IH]; intros i k H; cbn [index_of] in H; [discriminate|].
  destruct (list_eqb x t) eqn:E.
  - inversion H; subst. apply list_eqb_true in E. subst. cbn [length].
    replace (N.to_nat (k - k)) with O by lia. split; [lia|]. split; [lia|reflexivity].
  - apply IH in H. destruct H as (A & B & C). cbn [length]. split; [lia|]. split; [lia|].
    replace (N.to_nat (k - i)) with (S (N.to_nat (k - (i + 1)))) by lia. exact C.
Qed.

Lemma index_of_app t : forall l x i k, index_of t l i = Some k -> index_of t (l ++ x) i = Some k.
Proof.
  induction l as [|y l IH]; intros x i k H; cbn [index_of app] in *; [discriminate|].
  destruct (list_eqb y t); [exact H|auto].
Qed.

Lemma index_of_new t : forall l i, index_of t l i = None -> index_of t (l ++ [t]) i = Some (i + N.of_nat (length l)).
Proof.
  induction l as [|y l IH]; intros i H; cbn [index_of app length] in *.
  - rewrite list_eqb_refl'. f_equal. lia.
  - destruct (list_eqb y t); [discriminate|]. rewrite IH by exact H. f_equal. lia.
Qed.

Lemma find_by_name_unfold L t : find_by_name L false t =
  match index_of t system_symbols 1 with Some i => Some i | None => index_of t L 10 end.
Proof. reflexivity. Qed.

Definition extends (L F : list text) : Prop := exists X, F = L ++ X.
Lemma extends_refl L : extends L L.
Proof. exists []. rewrite app_nil_r. reflexivity. Qed.
Lemma extends_trans A B C : extends A B -> extends B C -> extends A C.
Proof. intros [X ->] [Y ->]. exists (X ++ Y). rewrite app_assoc. reflexivity. Qed.

Lemma find_by_name_mono L F t i : extends L F -> find_by_name L false t = Some i -> find_by_name F false t = Some i.
Proof.
  intros [X ->]. rewrite !find_by_name_unfold. destruct (index_of t system_symbols 1); [auto|].
  apply index_of_app.
Qed.

Lemma known_mono L F t : extends L F -> known L t -> known F t.
Proof. intros HE [i Hi]. exists i. eapply find_by_name_mono; eauto. Qed.
Lemma sid_mono L F t : extends L F -> known L t -> sid F t = sid L t.
Proof. intros HE [i Hi]. unfold sid. rewrite Hi, (find_by_name_mono _ _ _ _ HE Hi). reflexivity. Qed.

Lemma intern_extends L t : extends L (intern L t).
Proof. unfold intern. destruct (find_by_name L false t); [apply extends_refl|eexists; reflexivity]. Qed.
Lemma intern_known L t : known (intern L t) t.
Proof.
  unfold intern, known. destruct (find_by_name L false t) as [i|] eqn:E; [exists i; exact E|].
  rewrite find_by_name_unfold in *. destruct (index_of t system_symbols 1); [discriminate|].
  rewrite index_of_new by exact E. eauto.
Qed.

Lemma system_len : length system_symbols = 9%nat. Proof. reflexivity. Qed.

Lemma find_by_name_spec L t i : find_by_name L false t = Some i ->
  1 <= i /\ i < 10 + N.of_nat (length L) /\ nth_error (system_symbols ++ L) (N.to_nat (i - 1)) = Some t.
Proof.
  rewrite find_by_name_unfold. destruct (index_of t system_symbols 1) as [j|] eqn:E.
  - intros H; inversion H; subst. apply index_of_spec in E. destruct E as (A & B & C).
    rewrite system_len in B. split; [lia|]. split; [lia|].
    rewrite nth_error_app1; [exact C|rewrite system_len; lia].
  - intros H. apply index_of_spec in H. destruct H as (A & B & C). split; [lia|]. split; [lia|].
    rewrite nth_error_app2 by (rewrite system_len; lia). rewrite system_len.
    replace (N.to_nat (i - 1) - 9)%nat with (N.to_nat (i - 10)) by lia. exact C.
Qed.

Definition ctx_of (L : list text) : symctx :=
  match L with [] => system_ctx | _ => system_ctx ++ [Slots (map Some L)] end.

Lemma resolve_known L t : known L t ->
  resolve_sid (ctx_of L) (sid L t) = Some (SymText t) /\ 1 <= sid L t /\ sid L t < 10 + N.of_nat (length L).
Proof.
  intros [i Hi]. unfold sid. rewrite Hi. destruct (find_by_name_spec _ _ _ Hi) as (A & B & C).
  split; [|split; assumption]. unfold resolve_sid. replace (i =? 0) with false by lia.
  pose proof system_len as SL.
  assert (E : ctx_slot (ctx_of L) (i - 1) = Some (Some t)).
  { destruct (i - 1 <? 9) eqn:E9.
    - rewrite nth_error_app1 in C by lia.
      assert (E1 : ctx_slot system_ctx (i - 1) = Some (Some t)).
      { unfold system_ctx. cbn [ctx_slot seg_size]. rewrite map_length, SL. change (N.of_nat 9) with 9. rewrite E9.
        rewrite nth_error_map, C. reflexivity. }
      destruct L; [exact E1|]. unfold ctx_of, system_ctx in *. cbn [app ctx_slot seg_size] in *.
      rewrite map_length, SL in *. change (N.of_nat 9) with 9 in *. rewrite E9 in *. exact E1.
    - rewrite nth_error_app2 in C by lia. destruct L as [|t0 L0]; [destruct (N.to_nat (i - 1) - length system_symbols)%nat; discriminate|].
      unfold ctx_of, system_ctx. cbn [app ctx_slot seg_size].
      rewrite !map_length, SL. change (N.of_nat 9) with 9. rewrite E9.
      replace (i - 1 - 9 <? N.of_nat (length (t0 :: L0))) with true by lia.
      rewrite nth_error_map. replace (N.to_nat (i - 1 - 9)) with (N.to_nat (i - 1) - length system_symbols)%nat by lia.
      rewrite C. reflexivity. }
  rewrite E. reflexivity.
Qed.
(* ---- one step of the specification decoder ------------------------------------------------------------ *)
Definition sp_payload (f : nat) (ctx : symctx) (t len : N) (body rest : list N) : option (option value * list N) :=
          let ret v := Some (Some v, rest) in
          let blen := length body in
          if t =? 0 then Some (None, rest)                  (* NOP pad *)
          else if t =? 2 then ret (VInt (Z.of_N (sp_uint body)))
          else if t =? 3 then
            (if sp_uint body =? 0 then None else ret (VInt (- Z.of_N (sp_uint body))))
          else if t =? 4 then
            (if len =? 0 then ret (VFloat 0)
             else if len =? 4 then ret (VFloat (widen (sp_uint body)))
             else if len =? 8 then ret (VFloat (sp_uint body)) else None)
          else if t =? 5 then
            (match body with
             | [] => ret (VDecimal {| d_coef := 0; d_exp := 0; d_negzero := false |})
             | _ => match sp_varint body with
                    | Some (e, _, cb) =>
                      let '(c, nz) := sp_int cb in
                      ret (VDecimal {| d_coef := c; d_exp := e; d_negzero := nz |})
                    | None => None
                    end
             end)
          else if t =? 6 then ret (VTimestamp body)
          else if t =? 7 then
            (match resolve_sid ctx (sp_uint body) with Some y => ret (VSymbol y) | None => None end)
          else if t =? 8 then (if utf8_valid body then ret (VString body) else None)
          else if t =? 9 then ret (VClob body)
          else if t =? 10 then ret (VBlob body)
          else if t =? 11 then option_map (fun vs => (Some (VList vs), rest)) (sp_items (sp_value f ctx) blen body)
          else if t =? 12 then option_map (fun vs => (Some (VSexp vs), rest)) (sp_items (sp_value f ctx) blen body)
          else if t =? 13 then
            option_map (fun fs => (Some (VStruct fs), rest))
              (sp_items (fun l' =>
                 match sp_varuint l' 0 with
                 | None => None
                 | Some (sid, r') =>
                   match sp_value f ctx r' with
                   | Some (Some v, r'') =>
                     match resolve_sid ctx sid with
                     | Some y => Some (Some (y, v), r'')
                     | None => None
                     end
                   | Some (None, r'') => Some (None, r'')
                   | None => None
                   end
                 end) blen body)
          else if t =? 14 then
            (if len <? 3 then None else
             match sp_varuint body 0 with
             | None => None
             | Some (alen, r2) =>
               if alen =? 0 then None else
               match take_n alen r2 with
               | None => None
               | Some (ab, vb) =>
                 match sp_annots ctx (length ab) ab, vb with
                 | Some ys, vt :: _ =>
                   if (vt / 16 =? 14) then None else
                   match sp_value f ctx vb with
                   | Some (Some v, []) => ret (VAnn ys v)
                   | _ => None
                   end
                 | _, _ => None
                 end
               end
             end)
          else None.

Lemma sp_value_step f ctx tag r0 : sp_value (S f) ctx (tag :: r0) =
  let t := tag / 16 in
  let lo := tag mod 16 in
  if t =? 15 then None else
  if lo =? 15 then
    match null_type t with Some ty => Some (Some (VNull ty), r0) | None => None end
  else if (t =? 1) then
    if lo =? 0 then Some (Some (VBool false), r0)
    else if lo =? 1 then Some (Some (VBool true), r0) else None
  else
  let sorted := (t =? 13) && (lo =? 1) in
  match (if (lo =? 14) || sorted then sp_varuint r0 0 else Some (lo, r0)) with
  | None => None
  | Some (len, r1) =>
    if sorted && (len =? 0) then None else
    match take_n len r1 with
    | None => None
    | Some (body, rest) => sp_payload f ctx t len body rest
    end
  end.
Proof. reflexivity. Qed.

Lemma sp_value_tagged f ctx code t body rest : code = 16 * t -> 2 <= t <= 14 ->
  N.of_nat (length body) < two64 -> (t = 13 -> length body <> 1%nat) ->
  sp_value (S f) ctx (enc_tagged code body ++ rest) = sp_payload f ctx t (N.of_nat (length body)) body rest.
Proof.
  intros -> Ht Hlen Hs. unfold enc_tagged, append_tag. set (len := N.of_nat (length body)) in *.
  assert (Hs' : (t =? 13) && (len =? 1) = false) by lia.
  destruct (len <? 14) eqn:E.
  - cbn [app]. rewrite sp_value_step. cbv zeta.
    replace ((16 * t + len) / 16) with t by lia. replace ((16 * t + len) mod 16) with len by lia.
    replace (t =? 15) with false by lia. replace (len =? 15) with false by lia.
    replace (t =? 1) with false by lia. replace (len =? 14) with false by lia. rewrite Hs'.
    cbn [orb andb]. unfold len. rewrite take_n_app. reflexivity.
  - rewrite append_varuint_app. cbn [app]. rewrite sp_value_step. cbv zeta.
    replace ((16 * t + 14) / 16) with t by lia. replace ((16 * t + 14) mod 16) with 14 by lia.
    replace (t =? 15) with false by lia. change (14 =? 15) with false.
    replace (t =? 1) with false by lia. change (14 =? 14) with true. change (14 =? 1) with false.
    rewrite andb_false_r. cbn [orb andb]. rewrite <- app_assoc, sp_varuint_roundtrip by exact Hlen.
    unfold len. rewrite take_n_app. reflexivity.
Qed.

Lemma enc_tagged_nonempty code body : enc_tagged code body <> [].
Proof.
  unfold enc_tagged, append_tag. destruct (_ <? 14); [discriminate|].
  rewrite append_varuint_app. discriminate.
Qed.
Lemma enc_tagged_length code body :
  N.of_nat (length (enc_tagged code body)) = tag_len (N.of_nat (length body)) + N.of_nat (length body).
Proof. unfold enc_tagged. rewrite app_length, Nat2N.inj_add, tag_len_ok. reflexivity. Qed.
Lemma enc_tagged_body_le code body : (length body < length (enc_tagged code body))%nat.
Proof.
  unfold enc_tagged. rewrite app_length.
  pose proof (tag_len_ok code (N.of_nat (length body))) as H. unfold tag_len in H.
  destruct (_ <? 14); lia.
Qed.
(* first byte of a tagged encoding *)
Lemma enc_tagged_head code t body : code = 16 * t ->
  exists tag r, enc_tagged code body = tag :: r /\ tag / 16 = t /\
                tag = code + N.min (N.of_nat (length body)) 14.
Proof.
  intros ->. unfold enc_tagged, append_tag. destruct (_ <? 14) eqn:E.
  - eexists _, _. split; [reflexivity|]. split; lia.
  - rewrite append_varuint_app. eexists _, _. split; [reflexivity|]. split; lia.
Qed.
(* ---- normal forms of the scalar encodings ------------------------------------------------------------ *)
Definition dec_body (d : dec) : list N :=
  if (d_coef d =? 0)%Z && (d_exp d =? 0)%Z && negb (d_negzero d) then []
  else append_varint [] (d_exp d) ++ (if d_negzero d then [128] else append_bigint [] (d_coef d)).

Lemma enc_dec_tagged d : wf_dec d -> enc_dec d = enc_tagged 80 (dec_body d).
Proof.
  intros [He _]. unfold enc_dec, dec_body. destruct (_ && _); [reflexivity|].
  assert (Hb : (Z.abs (d_exp d) < Z.of_N two63)%Z) by (unfold two63; lia).
  unfold enc_tagged. rewrite app_length, Nat2N.inj_add, varint_len_ok by exact Hb.
  destruct (d_negzero d).
  - rewrite append_varint_app, <- app_assoc. reflexivity.
  - rewrite bigint_len_ok, append_bigint_app, append_varint_app, <- app_assoc. reflexivity.
Qed.

Lemma enc_symbol_tagged id : append_uint (append_tag [] 112 (uint_len id)) id = enc_tagged 112 (append_uint [] id).
Proof.
  rewrite append_uint_app. unfold enc_tagged. pose proof (uint_len_ok [] id) as H.
  cbn [length N.of_nat] in H. rewrite H, N.add_0_l. reflexivity.
Qed.

Definition float_body (b : N) : list N :=
  if f64_pos_zero b then []
  else if f64_is_nan b then [127; 192; 0; 0]
  else if uses_f32 b then be_fixed 4 (narrow b) else be_fixed 8 b.
Lemma enc_float_tagged b : enc_float b = enc_tagged 64 (float_body b).
Proof.
  unfold enc_float, float_body. destruct (f64_pos_zero b); [reflexivity|].
  destruct (f64_is_nan b); [reflexivity|]. destruct (uses_f32 b); reflexivity.
Qed.

Fixpoint be_go (k : nat) (v : N) (acc : list N) : list N :=
  match k with O => acc | S k' => be_go k' (v / 256) (v mod 256 :: acc) end.
Lemma be_fixed_go n v : be_fixed n v = be_go n v [].
Proof. reflexivity. Qed.
Lemma be_go_fd k : forall v acc, fd 256 0 (be_go k v acc) = fd 256 (v mod 256 ^ N.of_nat k) acc.
Proof.
  induction k as [|k IH]; intros v acc.
  - cbn [be_go]. change (256 ^ N.of_nat 0) with 1. rewrite N.mod_1_r. reflexivity.
  - cbn [be_go]. rewrite IH, fd_cons. f_equal.
    rewrite Nat2N.inj_succ, N.pow_succ_r'. rewrite (N.mod_mul_r v 256) by (try apply N.pow_nonzero; lia). lia.
Qed.
Lemma be_go_length k : forall v acc, length (be_go k v acc) = (k + length acc)%nat.
Proof. induction k as [|k IH]; intros v acc; cbn [be_go]; [reflexivity|]. rewrite IH. cbn [length]. lia. Qed.
Lemma be_fixed_uint n v : v < 256 ^ N.of_nat n -> sp_uint (be_fixed n v) = v.
Proof.
  intros H. rewrite be_fixed_go. change (sp_uint (be_go n v [])) with (fd 256 0 (be_go n v [])).
  rewrite be_go_fd. cbn [fd fold_left]. apply N.mod_small. exact H.
Qed.
Lemma be_fixed4 x : x < 4294967296 -> sp_uint (be_fixed 4 x) = x.
Proof. intros H. apply be_fixed_uint. exact H. Qed.
Lemma be_fixed8 x : x < two64 -> sp_uint (be_fixed 8 x) = x.
Proof. intros H. apply be_fixed_uint. exact H. Qed.
Lemma be_fixed_length n v : length (be_fixed n v) = n.
Proof. rewrite be_fixed_go, be_go_length. cbn [length]. lia. Qed.

Lemma rne_shr_le x sh k : k <= sh -> rne_shr x sh <= x / 2 ^ k + 1.
Proof.
  intros H. unfold rne_shr. assert (x / 2 ^ sh <= x / 2 ^ k).
  { apply N.div_le_compat_l. split; [apply Npow_pos; lia|apply N.pow_le_mono_r; lia]. }
  destruct (sh =? 0) eqn:E.
  - assert (k = 0) by lia. subst. change (2 ^ 0) with 1. rewrite N.div_1_r. lia.
  - destruct (_ || _); lia.
Qed.

Lemma narrow_lt b : b < two64 -> f64_is_nan b = false -> narrow b < 4294967296.
Proof.
  unfold two64. intros Hb Hn. unfold narrow, f64_is_nan in *.
  assert (Hs : f64_sign b <= 1).
  { unfold f64_sign. change (2 ^ 63) with 9223372036854775808. lia. }
  assert (Hm : f64_man b < 4503599627370496).
  { unfold f64_man. change (2 ^ 52) with 4503599627370496. lia. }
  change (2 ^ 31) with 2147483648. change (2 ^ 52) with 4503599627370496.
  destruct (f64_exp b =? 2047) eqn:E1.
  - destruct (f64_man b =? 0) eqn:E2; [lia|]. cbn in Hn. discriminate.
  - destruct (f64_exp b =? 0); [lia|]. destruct (897 <=? f64_exp b) eqn:E3.
    + destruct (2139095040 <=? _) eqn:E4; lia.
    + pose proof (rne_shr_le (4503599627370496 + f64_man b) (29 + (897 - f64_exp b)) 30 ltac:(lia)) as H.
      change (2 ^ 30) with 1073741824 in H. lia.
Qed.

Lemma nan32_widens : widen (sp_uint [127; 192; 0; 0]) = canonical_nan64.
Proof. vm_compute. reflexivity. Qed.

Lemma null_type_roundtrip t : 1 <= t <= 13 ->
  exists tag, null_byte t = tag /\ tag / 16 < 14 /\ tag mod 16 = 15 /\ null_type (tag / 16) = Some t.
Proof.
  intros H.
  assert (t = 1 \/ t = 2 \/ t = 3 \/ t = 4 \/ t = 5 \/ t = 6 \/ t = 7 \/ t = 8 \/ t = 9 \/ t = 10 \/
          t = 11 \/ t = 12 \/ t = 13) as Hc by lia.
  repeat (destruct Hc as [->|Hc]; [eexists; split; [reflexivity|]; vm_compute; repeat split; reflexivity|]).
  subst. eexists; split; [reflexivity|]; vm_compute; repeat split; reflexivity.
Qed.
(* ---- repeated items ------------------------------------------------------------------------------------------- *)
Lemma sp_items_nil {A} (item : list N -> option (option A * list N)) k : sp_items item k [] = Some [].
Proof. destruct k; reflexivity. Qed.

Lemma sp_items_flat {A} (item : list N -> option (option A * list N)) (e : A -> list N) (l : list A) :
  Forall (fun x => e x <> [] /\ forall r, item (e x ++ r) = Some (Some x, r)) l ->
  forall k, (length (flat_map e l) <= k)%nat -> sp_items item k (flat_map e l) = Some l.
Proof.
  induction 1 as [|x l [Hne Hx] Hl IH]; intros k Hk; cbn [flat_map] in *.
  - apply sp_items_nil.
  - rewrite app_length in Hk. pose proof (length_pos_nonempty _ Hne) as H1.
    destruct k as [|k']; [lia|].
    destruct (e x ++ flat_map e l) as [|c X] eqn:E.
    { apply app_eq_nil in E. destruct E; congruence. }
    cbn [sp_items]. rewrite <- E, Hx, IH by lia. reflexivity.
Qed.

(* ---- annotations ------------------------------------------------------------------------------------------------ *)
Lemma fold_append_varuint ids : forall b0,
  fold_left (fun b id => append_varuint b id) ids b0 = b0 ++ flat_map (append_varuint []) ids.
Proof.
  induction ids as [|i ids IH]; intros b0; cbn [fold_left flat_map]; [rewrite app_nil_r; reflexivity|].
  rewrite IH, append_varuint_app, <- app_assoc. reflexivity.
Qed.
Lemma fold_varuint_len ids : forall a,
  fold_left (fun a id => a + varuint_len id) ids a = a + N.of_nat (length (flat_map (append_varuint []) ids)).
Proof.
  induction ids as [|i ids IH]; intros a; cbn [fold_left flat_map]; [cbn; lia|].
  rewrite IH, app_length, Nat2N.inj_add. pose proof (varuint_len_ok [] i) as H. cbn [length N.of_nat] in H.
  rewrite H. lia.
Qed.

Definition annot_ids_of (L : list text) (a : list symv) : list N := map (fun y => sid L (symtext y)) a.
Definition annot_bytes (L : list text) (a : list symv) : list N := flat_map (append_varuint []) (annot_ids_of L a).

Lemma enc_annots_eq L a :
  enc_annots L a = append_varuint [] (N.of_nat (length (annot_bytes L a))) ++ annot_bytes L a.
Proof.
  unfold enc_annots. fold (annot_ids_of L a). rewrite fold_append_varuint, fold_varuint_len, N.add_0_l. reflexivity.
Qed.

Lemma annot_bytes_nonempty L a : a <> [] -> annot_bytes L a <> [].
Proof.
  destruct a as [|y a]; [congruence|]. intros _. unfold annot_bytes. cbn [annot_ids_of map flat_map].
  intros H. apply app_eq_nil in H. destruct H as [H _]. exact (append_varuint_nonempty _ H).
Qed.

Lemma sp_annots_roundtrip L a : Forall wf_sym a -> Forall (known L) (map symtext a) ->
  N.of_nat (length L) < two63 ->
  forall k, (length (annot_bytes L a) <= k)%nat -> sp_annots (ctx_of L) k (annot_bytes L a) = Some a.
Proof.
  intros Hw Hk HL. induction a as [|y a IH]; intros k Hlen.
  - destruct k; reflexivity.
  - inversion Hw as [|? ? [t [-> _]] Hw']; subst. cbn [map symtext] in Hk.
    inversion Hk as [|? ? Hkt Hk']; subst.
    unfold annot_bytes in *. cbn [annot_ids_of map flat_map symtext] in *. fold (annot_ids_of L a) in *.
    destruct (resolve_known L t Hkt) as (R & R1 & R2).
    rewrite app_length in Hlen. pose proof (length_pos_nonempty _ (append_varuint_nonempty (sid L t))) as H1.
    destruct k as [|k']; [lia|].
    destruct (append_varuint [] (sid L t) ++ flat_map (append_varuint []) (annot_ids_of L a)) as [|c X] eqn:E.
    { apply app_eq_nil in E. destruct E as [E _]. destruct (append_varuint_nonempty _ E). }
    cbn [sp_annots]. rewrite <- E, sp_varuint_roundtrip by (unfold two63, two64 in *; lia).
    rewrite R, (IH Hw' Hk') by lia. reflexivity.
Qed.

(* ---- texts -------------------------------------------------------------------------------------------------------- *)
Lemma texts_forall (P : text -> Prop) v : forall pre,
  Forall P (texts pre v) <-> Forall P pre /\ Forall P (texts [] v).
Proof.
  induction v; intros pre; cbn [texts];
    try (split; [intros H; split; [exact H|constructor]|intros [H _]; exact H]).
  - (* symbol *) split.
    + intros H. inversion H; subst. split; [assumption|]. constructor; [assumption|constructor].
    + intros [H1 H2]. inversion H2; subst. constructor; assumption.
  - rewrite Forall_app. cbn [app]. tauto.
  - rewrite Forall_app. cbn [app]. tauto.
  - rewrite Forall_app. cbn [app]. tauto.
  - rewrite (IHv (pre ++ map symtext a)), (IHv ([] ++ map symtext a)), Forall_app. cbn [app]. tauto.
Qed.

(* ---- head byte of an encoding -------------------------------------------------------------------------------- *)
Lemma enc_nonempty L v : wf_value v -> enc L v <> [].
Proof.
  intros H. destruct H; cbn [enc]; try apply enc_tagged_nonempty; try discriminate.
  - destruct (z =? 0)%Z; [discriminate|apply enc_tagged_nonempty].
  - rewrite enc_float_tagged. apply enc_tagged_nonempty.
  - rewrite enc_dec_tagged by assumption. apply enc_tagged_nonempty.
  - rewrite enc_symbol_tagged. apply enc_tagged_nonempty.
Qed.

Lemma enc_head L v : wf_value v -> exists tag r, enc L v = tag :: r /\ tag <> 224 /\ (not_ann v -> tag / 16 <> 14).
Proof.
  intros H. destruct H as [t Ht| | | | | | | | | | | | |a x Ha Hwa Hna Hx]; cbn [enc].
  - destruct (null_type_roundtrip t Ht) as (tag & -> & A & B & C). exists tag, []. split; [reflexivity|].
    split; [|intros _]; lia.
  - eexists _, []. split; [reflexivity|]. destruct b; (split; [|intros _]; intros Hx; vm_compute in Hx; discriminate Hx).
  - destruct (z =? 0)%Z.
    + eexists _, []. split; [reflexivity|]. split; [|intros _]; intros Hx; vm_compute in Hx; discriminate Hx.
    + destruct (z <? 0)%Z.
      * destruct (enc_tagged_head 48 3 (big_bytes (Z.to_N (Z.abs z))) eq_refl) as (tag & r & -> & A & B).
        exists tag, r. split; [reflexivity|]. split; [|intros _]; lia.
      * destruct (enc_tagged_head 32 2 (big_bytes (Z.to_N (Z.abs z))) eq_refl) as (tag & r & -> & A & B).
        exists tag, r. split; [reflexivity|]. split; [|intros _]; lia.
  - rewrite enc_float_tagged. destruct (enc_tagged_head 64 4 (float_body b) eq_refl) as (tag & r & -> & A & B).
    exists tag, r. split; [reflexivity|]. split; [|intros _]; lia.
  - rewrite enc_dec_tagged by assumption. destruct (enc_tagged_head 80 5 (dec_body d) eq_refl) as (tag & r & -> & A & B).
    exists tag, r. split; [reflexivity|]. split; [|intros _]; lia.
  - destruct (enc_tagged_head 96 6 body eq_refl) as (tag & r & -> & A & B).
    exists tag, r. split; [reflexivity|]. split; [|intros _]; lia.
  - rewrite enc_symbol_tagged. destruct (enc_tagged_head 112 7 (append_uint [] (sid L (symtext y))) eq_refl) as (tag & r & -> & A & B).
    exists tag, r. split; [reflexivity|]. split; [|intros _]; lia.
  - destruct (enc_tagged_head 128 8 t eq_refl) as (tag & r & -> & A & B).
    exists tag, r. split; [reflexivity|]. split; [|intros _]; lia.
  - destruct (enc_tagged_head 144 9 b eq_refl) as (tag & r & -> & A & B).
    exists tag, r. split; [reflexivity|]. split; [|intros _]; lia.
  - destruct (enc_tagged_head 160 10 b eq_refl) as (tag & r & -> & A & B).
    exists tag, r. split; [reflexivity|]. split; [|intros _]; lia.
  - destruct (enc_tagged_head 176 11 (flat_map (enc L) l) eq_refl) as (tag & r & -> & A & B).
    exists tag, r. split; [reflexivity|]. split; [|intros _]; lia.
  - destruct (enc_tagged_head 192 12 (flat_map (enc L) l) eq_refl) as (tag & r & -> & A & B).
    exists tag, r. split; [reflexivity|]. split; [|intros _]; lia.
  - match goal with |- context [enc_tagged 208 ?b] => destruct (enc_tagged_head 208 13 b eq_refl) as (tag & r & -> & A & B) end.
    exists tag, r. split; [reflexivity|]. split; [|intros _]; lia.
  - match goal with |- context [enc_tagged 224 ?b] => destruct (enc_tagged_head 224 14 b eq_refl) as (tag & r & E & A & B) end.
    exists tag, r. split; [exact E|]. split; [|intros []].
    rewrite app_length in B. pose proof (length_pos_nonempty _ (enc_nonempty L x Hx)) as H1. lia.
Qed.
(* ---- the specification decoder inverts [enc] ---------------------------------------------------------------- *)
Lemma tagged_bound code body : N.of_nat (length (enc_tagged code body)) < two63 -> N.of_nat (length body) < two64.
Proof. pose proof (enc_tagged_body_le code body). unfold two63, two64. lia. Qed.

Ltac tagged f L code t Hb :=
  rewrite (sp_value_tagged f (ctx_of L) code t);
  [unfold sp_payload; cbn [N.eqb Pos.eqb]
  |reflexivity|lia|apply (tagged_bound code); exact Hb|try (intros; discriminate)].

Lemma append_varint_nonempty v : append_varint [] v <> [].
Proof.
  unfold append_varint. destruct (_ =? 0); [discriminate|].
  destruct (varint_loop _ _ _). discriminate.
Qed.

Lemma sp_value_enc L : N.of_nat (length L) < two63 ->
  forall v, wf_value v -> Forall (known L) (texts [] v) ->
  forall fuel rest, (length (enc L v) <= fuel)%nat -> N.of_nat (length (enc L v)) < two63 ->
  sp_value fuel (ctx_of L) (enc L v ++ rest) = Some (Some v, rest).
Proof.
  intros HL v. induction v as [v Hsc|l IH|l IH|fs IH|a x IH] using value_ind';
    intros Hw Hk fuel rest Hf Hb;
    (destruct fuel as [|f]; [pose proof (length_pos_nonempty _ (enc_nonempty L _ Hw)); lia|]).
  - (* scalars *)
    destruct v; try destruct Hsc; inversion Hw as [? Ht| | |? Hfl|? Hd| |? Hy|? Hu| | | | | | ]; subst; cbn [enc] in *.
    + (* null *)
      destruct (null_type_roundtrip t Ht) as (tag & E & A & B & C). rewrite E. cbn [app].
      rewrite sp_value_step. cbv zeta. replace (tag / 16 =? 15) with false by lia. rewrite B.
      change (15 =? 15) with true. cbv iota. rewrite C. reflexivity.
    + destruct b; reflexivity.
    + (* int *)
      destruct (z =? 0)%Z eqn:Ez.
      * change [32] with (enc_tagged 32 []) in *. tagged f L 32 2 Hb. cbn [sp_uint fold_left Z.of_N]. repeat f_equal; lia.
      * destruct (z <? 0)%Z eqn:En.
        -- tagged f L 48 3 Hb. rewrite sp_uint_from_be, big_bytes_roundtrip.
           replace (Z.to_N (Z.abs z) =? 0) with false by lia. repeat f_equal; lia.
        -- tagged f L 32 2 Hb. rewrite sp_uint_from_be, big_bytes_roundtrip. repeat f_equal; lia.
    + (* float *)
      rewrite enc_float_tagged in *. tagged f L 64 4 Hb. destruct Hfl as [Hlt Hnan]. unfold float_body.
      destruct (f64_pos_zero bits) eqn:E0.
      * unfold f64_pos_zero in E0. apply N.eqb_eq in E0. subst. reflexivity.
      * destruct (f64_is_nan bits) eqn:E1.
        -- cbn [length N.of_nat Pos.of_succ_nat Pos.succ N.eqb Pos.eqb]. rewrite nan32_widens, Hnan by reflexivity. reflexivity.
        -- destruct (uses_f32 bits) eqn:E2.
           ++ rewrite be_fixed_length. cbn [N.of_nat Pos.of_succ_nat Pos.succ N.eqb Pos.eqb].
              rewrite be_fixed4 by (apply narrow_lt; assumption).
              unfold uses_f32 in E2. apply N.eqb_eq in E2. rewrite E2. reflexivity.
           ++ rewrite be_fixed_length. cbn [N.of_nat Pos.of_succ_nat Pos.succ N.eqb Pos.eqb].
              rewrite be_fixed8 by exact Hlt. reflexivity.
    + (* decimal *)
      rewrite (enc_dec_tagged d Hd) in *. tagged f L 80 5 Hb. destruct Hd as [He Hnz]. unfold dec_body.
      destruct d as [c e nz]. cbn [d_coef d_exp d_negzero] in *.
      destruct ((c =? 0)%Z && (e =? 0)%Z && negb nz) eqn:E0.
      * apply andb_true_iff in E0. destruct E0 as [E0 E2]. apply andb_true_iff in E0. destruct E0 as [E0 E1].
        apply Z.eqb_eq in E0, E1. apply negb_true_iff in E2. subst. reflexivity.
      * destruct (append_varint [] e ++ (if nz then [128] else append_bigint [] c)) as [|c0 r0] eqn:Eb.
        { apply app_eq_nil in Eb. destruct Eb as [Eb _]. destruct (append_varint_nonempty _ Eb). }
        rewrite <- Eb, sp_varint_roundtrip by (unfold two63; lia).
        destruct nz.
        -- rewrite (Hnz eq_refl). reflexivity.
        -- rewrite sp_int_bigint. reflexivity.
    + (* timestamp *) tagged f L 96 6 Hb. reflexivity.
    + (* symbol *)
      destruct Hy as (t & -> & Hu). cbn [symtext texts] in *. inversion Hk as [|? ? Hkt _]; subst.
      destruct (resolve_known L t Hkt) as (R & R1 & R2).
      rewrite enc_symbol_tagged in *. tagged f L 112 7 Hb.
      rewrite sp_uint_from_be, uint_roundtrip by (unfold two63, two64 in *; lia). rewrite R. reflexivity.
    + (* string *) tagged f L 128 8 Hb. rewrite Hu. reflexivity.
    + tagged f L 144 9 Hb. reflexivity.
    + tagged f L 160 10 Hb. reflexivity.
  - (* list *)
    inversion Hw as [| | | | | | | | | |? Hwl| | | ]; subst. cbn [enc texts app] in *.
    pose proof (enc_tagged_body_le 176 (flat_map (enc L) l)) as Hlen.
    tagged f L 176 11 Hb. rewrite sp_items_flat; [reflexivity| |lia].
    rewrite Forall_forall in *. intros x Hin. split; [apply enc_nonempty; auto|]. intros r.
    pose proof (flat_map_in_len (enc L) l x Hin) as Hx.
    apply IH; [exact Hin|auto|eapply Forall_flat_map_in; [apply Forall_forall; exact Hk|exact Hin]|lia|lia].
  - (* sexp *)
    inversion Hw as [| | | | | | | | | | |? Hwl| | ]; subst. cbn [enc texts app] in *.
    pose proof (enc_tagged_body_le 192 (flat_map (enc L) l)) as Hlen.
    tagged f L 192 12 Hb. rewrite sp_items_flat; [reflexivity| |lia].
    rewrite Forall_forall in *. intros x Hin. split; [apply enc_nonempty; auto|]. intros r.
    pose proof (flat_map_in_len (enc L) l x Hin) as Hx.
    apply IH; [exact Hin|auto|eapply Forall_flat_map_in; [apply Forall_forall; exact Hk|exact Hin]|lia|lia].
  - (* struct *)
    inversion Hw as [| | | | | | | | | | | |? Hwf| ]; subst. cbn [enc texts app] in *.
    match type of Hb with context [enc_tagged 208 ?b] => set (body := b) in * end.
    pose proof (enc_tagged_body_le 208 body) as Hlen.
    assert (Hne : forall p, In p fs -> (2 <= length ((fun '(n, x) => append_varuint [] (sid L (symtext n)) ++ enc L x) p))%nat).
    { intros [n x] Hin. rewrite Forall_forall in Hwf. destruct (Hwf _ Hin) as [_ Hx]. cbn [snd] in Hx.
      rewrite app_length. pose proof (length_pos_nonempty _ (append_varuint_nonempty (sid L (symtext n)))).
      pose proof (length_pos_nonempty _ (enc_nonempty L x Hx)). lia. }
    rewrite (sp_value_tagged f (ctx_of L) 208 13);
      [unfold sp_payload; cbn [N.eqb Pos.eqb]|reflexivity|lia|apply (tagged_bound 208); exact Hb|].
    2:{ intros _. unfold body. destruct fs as [|p fs']; [discriminate|]. cbn [flat_map]. rewrite app_length.
        pose proof (Hne p (or_introl eq_refl)). lia. }
    assert (Hle : forall p, In p fs -> (length ((fun '(n, x) => append_varuint [] (sid L (symtext n)) ++ enc L x) p) <= length body)%nat).
    { intros p Hin. unfold body. exact (flat_map_in_len (fun '(n, x) => append_varuint [] (sid L (symtext n)) ++ enc L x) fs p Hin). }
    unfold body in *. rewrite sp_items_flat; [reflexivity| |lia].
    rewrite Forall_forall in *. intros [n x] Hin. pose proof (Hle _ Hin) as Hlx. cbv beta iota in Hlx. rewrite app_length in Hlx. split.
    { intros E. pose proof (Hne _ Hin) as H2. cbv beta iota in H2. rewrite E in H2. cbn in H2. lia. }
    intros r. destruct (Hwf _ Hin) as [(t & Hn & Hu) Hx]. cbn [fst snd] in *. subst n. cbn [symtext] in *.
    pose proof (Forall_flat_map_in _ _ _ _ (proj2 (Forall_forall _ _) Hk) Hin) as Hkp. cbv beta iota in Hkp.
    cbn [symtext] in Hkp. apply texts_forall in Hkp. destruct Hkp as [Hkt Hkx]. inversion Hkt as [|? ? Hkt' _]; subst.
    destruct (resolve_known L t Hkt') as (R & R1 & R2).
    rewrite <- app_assoc, sp_varuint_roundtrip by (unfold two63, two64 in *; lia).
    pose proof (IH _ Hin Hx Hkx f r) as Hv. cbn [snd] in Hv. rewrite Hv by lia. rewrite R. reflexivity.
  - (* annotation wrapper *)
    inversion Hw as [| | | | | | | | | | | | |? ? Ha Hwa Hna Hx]; subst. cbn [enc texts app] in *.
    apply texts_forall in Hk. destruct Hk as [Hka Hkx].
    rewrite enc_annots_eq in *.
    match type of Hb with context [enc_tagged 224 ?b] => set (body := b) in * end.
    pose proof (enc_tagged_body_le 224 body) as Hlen.
    pose proof (length_pos_nonempty _ (annot_bytes_nonempty L a Ha)) as Hl1.
    pose proof (length_pos_nonempty _ (enc_nonempty L x Hx)) as Hl2.
    pose proof (length_pos_nonempty _ (append_varuint_nonempty (N.of_nat (length (annot_bytes L a))))) as Hl3.
    assert (Hbl : length body = (length (append_varuint [] (N.of_nat (length (annot_bytes L a)))) + length (annot_bytes L a) + length (enc L x))%nat).
    { unfold body. rewrite !app_length. lia. }
    tagged f L 224 14 Hb.
    replace (N.of_nat (length body) <? 3) with false by lia.
    unfold body. rewrite <- !app_assoc, sp_varuint_roundtrip by (unfold two63, two64 in *; lia).
    replace (N.of_nat (length (annot_bytes L a)) =? 0) with false by lia.
    rewrite take_n_app. rewrite (sp_annots_roundtrip L a Hwa Hka HL) by lia.
    pose proof (IH Hx Hkx f [] ltac:(lia) ltac:(lia)) as Hv. rewrite app_nil_r in Hv.
    destruct (enc_head L x Hx) as (vt & r & E & _ & Hvt). specialize (Hvt Hna).
    rewrite Hv. rewrite E. replace (vt / 16 =? 14) with false by lia. reflexivity.
Qed.
(* ---- streams ------------------------------------------------------------------------------------------------------ *)
Lemma sp_stream_nil k ctx : sp_stream k ctx [] = Some [].
Proof. destruct k; reflexivity. Qed.

Lemma sp_stream_step k ctx tag r : tag <> 224 ->
  sp_stream (S k) ctx (tag :: r) =
  match sp_value (S k) ctx (tag :: r) with
  | Some (None, r') => sp_stream k ctx r'
  | Some (Some v, r') =>
    match is_lst v with
    | Some fs => match apply_lst ctx fs with Some ctx' => sp_stream k ctx' r' | None => None end
    | None => option_map (cons v) (sp_stream k ctx r')
    end
  | None => None
  end.
Proof.
  intros H. cbn [sp_stream]. destruct tag as [|p]; [reflexivity|].
  repeat (destruct p as [p|p|]; try reflexivity). exfalso. apply H. reflexivity.
Qed.

Lemma sp_stream_values L : N.of_nat (length L) < two63 ->
  forall vs, Forall wf_top vs -> Forall (known L) (flat_map (texts []) vs) ->
  forall k, (length (flat_map (enc L) vs) <= k)%nat -> N.of_nat (length (flat_map (enc L) vs)) < two63 ->
  sp_stream k (ctx_of L) (flat_map (enc L) vs) = Some vs.
Proof.
  intros HL. induction vs as [|v vs IH]; intros Hw Hk k Hlen Hb; cbn [flat_map] in *.
  - apply sp_stream_nil.
  - inversion Hw as [|? ? [Hwv Hnl] Hws]; subst. apply Forall_app in Hk. destruct Hk as [Hkv Hks].
    rewrite app_length in Hlen, Hb.
    pose proof (length_pos_nonempty _ (enc_nonempty L v Hwv)) as H1.
    destruct k as [|k]; [lia|].
    destruct (enc_head L v Hwv) as (tag & r & E & Htag & _).
    pose proof (sp_value_enc L HL v Hwv Hkv (S k) (flat_map (enc L) vs) ltac:(lia) ltac:(lia)) as Hv.
    rewrite E in Hv |- *. cbn [app] in Hv |- *. rewrite sp_stream_step by exact Htag.
    rewrite Hv, Hnl, IH; [reflexivity|assumption|assumption|lia|lia].
Qed.

(* ---- the local symbol table ---------------------------------------------------------------------------------------- *)
Lemma texts_strings L : flat_map (texts []) (map VString L) = [].
Proof. induction L as [|t L IH]; [reflexivity|]. cbn [map flat_map texts app]. exact IH. Qed.

Lemma lst_value_wf L : Forall (fun t => utf8_valid t = true) L -> wf_value (lst_value L).
Proof.
  intros H. unfold lst_value. constructor; [discriminate| |exact I|].
  - constructor; [|constructor]. eexists. split; [reflexivity|]. vm_compute. reflexivity.
  - constructor. constructor; [|constructor]. cbn [fst snd]. split.
    + eexists. split; [reflexivity|]. vm_compute. reflexivity.
    + constructor. apply Forall_forall. intros v Hin. apply in_map_iff in Hin. destruct Hin as (t & <- & Hin).
      constructor. rewrite Forall_forall in H. auto.
Qed.

Lemma lst_value_known L : Forall (known []) (texts [] (lst_value L)).
Proof.
  unfold lst_value. cbn [texts map symtext app flat_map]. rewrite texts_strings.
  constructor; [eexists; vm_compute; reflexivity|]. constructor; [eexists; vm_compute; reflexivity|constructor].
Qed.

Lemma ctx_of_nil : ctx_of [] = system_ctx.
Proof. reflexivity. Qed.

Lemma apply_lst_value ctx L : L <> [] -> exists fs, is_lst (lst_value L) = Some fs /\ apply_lst ctx fs = Some (ctx_of L).
Proof.
  intros Hne. eexists. split; [reflexivity|]. unfold apply_lst.
  change (count_field _ "symbols") with 1%nat. change (count_field _ "imports") with 0%nat. cbn [Nat.ltb Nat.leb orb].
  change (find_field _ "symbols") with (Some (VList (map VString L))).
  change (find_field _ "imports") with (@None value). cbn [option_map]. f_equal.
  unfold lst_symbols. cbn [option_map strip_ann]. rewrite map_map. destruct L; [contradiction|]. reflexivity.
Qed.

Lemma lst_length L : (length L <= length (enc [] (lst_value L)))%nat.
Proof.
  unfold lst_value. cbn [enc].
  match goal with |- context [enc_tagged 224 ?b] => pose proof (enc_tagged_body_le 224 b) as H1; set (b1 := b) in * end.
  unfold b1 in H1 at 1. rewrite app_length in H1. cbn [flat_map] in H1. rewrite app_nil_r in H1.
  match type of H1 with context [enc_tagged 208 ?b] => pose proof (enc_tagged_body_le 208 b) as H2; set (b2 := b) in * end.
  unfold b2 in H2 at 1. rewrite app_length in H2.
  cbn [enc] in H2.
  match type of H2 with context [enc_tagged 176 ?b] => pose proof (enc_tagged_body_le 176 b) as H3; set (b3 := b) in * end.
  assert (H4 : (length L <= length b3)%nat).
  { unfold b3. clear. induction L as [|t L IH]; [cbn; lia|]. cbn [map flat_map]. rewrite app_length.
    pose proof (length_pos_nonempty _ (enc_tagged_nonempty 128 t)). cbn [enc length]. lia. }
  lia.
Qed.

Definition utf8_ok (t : text) : Prop := utf8_valid t = true.

Theorem sdecode_enc L vs : wf_values vs -> Forall utf8_ok L -> Forall (known L) (flat_map (texts []) vs) ->
  N.of_nat (length (bvm ++ enc_lst L ++ flat_map (enc L) vs)) < two63 ->
  sdecode (bvm ++ enc_lst L ++ flat_map (enc L) vs) = Some vs.
Proof.
  intros Hw Hu Hk Hb. unfold bvm in *. cbn [app sdecode]. cbn [app length] in Hb. rewrite app_length in Hb.
  cbn [length]. rewrite app_length.
  destruct L as [|t0 L0] eqn:EL.
  - cbn [enc_lst app length] in *. rewrite <- ctx_of_nil.
    apply sp_stream_values; [cbn; unfold two63; lia|exact Hw|exact Hk|lia|lia].
  - rewrite <- EL in *. assert (HeL : enc_lst L = enc [] (lst_value L)) by (rewrite EL; reflexivity).
    assert (HneL : L <> []) by (rewrite EL; discriminate).
    rewrite HeL in *. clear EL.
    pose proof (lst_length L) as HlL.
    assert (HL : N.of_nat (length L) < two63) by lia.
    pose proof (lst_value_wf L Hu) as Hwl.
    destruct (enc_head [] (lst_value L) Hwl) as (tag & r & E & Htag & _).
    pose proof (sp_value_enc [] ltac:(cbn; unfold two63; lia) (lst_value L) Hwl (lst_value_known L)
                  (S (S (S (S (length (enc [] (lst_value L)) + length (flat_map (enc L) vs))))))
                  (flat_map (enc L) vs) ltac:(lia) ltac:(lia)) as Hv.
    rewrite ctx_of_nil in Hv. rewrite E in Hv |- *. cbn [app length] in Hv |- *.
    rewrite sp_stream_step by exact Htag. rewrite Hv.
    destruct (apply_lst_value system_ctx L HneL) as (fs & -> & ->).
    apply sp_stream_values; [exact HL|exact Hw|exact Hk|lia|lia].
Qed.
