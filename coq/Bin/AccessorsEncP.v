(* AccessorsEncP.v — C13, integer accessors composed with "how the value got there" (binary):
   for every encoding that the specification decoder (Bin/SpecLim.v, sl_value) reads as the Ion
   integer z, the reader model positioned on it by Next answers IntSize / IntValue / Int64Value /
   BigIntValue in terms of z itself.
   Part 1: the generic step (an int wherever a value may stand: PRE3, any depth, any field name, any
   annotations).  Part 2: the top-level instance right after the version marker.  Part 3: the
   explicit family of encodings (tag 0x2L / 0x3L, inline or VarUInt length, leading zero bytes). *)
From Coq Require Import String List NArith ZArith Bool Lia ZifyBool ZifyN ZifyNat.
From IonV Require Import Base.Wire Base.Utf8 Bin.Bits Bin.BitsP Data.Ion Num.Float Bin.BitStream Bin.BinReader
  Bin.BitStreamP Bin.BinWriter Bin.SpecBin Bin.RoundTripBin Bin.BitEvalP Bin.ReaderTrace Bin.BinReaderInvP
  Bin.BinReaderP Bin.ReaderTraceP Bin.ReaderTopP Bin.SpecLim Bin.SpecLimP Bin.BitEvalGenP Bin.SpecAgreeP
  Bin.SpecAgreeTravP Bin.SpecAgreeContP Bin.AccessorsP.
Import ListNotations.
Open Scope N_scope.
Ltac Zify.zify_post_hook ::= Z.div_mod_to_equations.

(* what the four accessors answer on a state, in terms of the Ion integer z *)
Definition int_answers (ts : list N -> res unit) (r1 : rstate) (z : Z) : Prop :=
  (exists sz, r_op ts r1 OIntSize = (r1, Some (122 :: dec_of_N sz)) /\ min_size z <= sz <= 3 /\
              (sz = min_size z \/ (sz = 3 /\ fits64 z = true))) /\
  r_op ts r1 OInt = (r1, Some (if fits32 z then 73 :: dec_of_Z z else t_err)) /\
  r_op ts r1 OInt64 = (r1, Some (if fits64 z then 73 :: dec_of_Z z else t_err)) /\
  r_op ts r1 OBigInt = (r1, Some (73 :: dec_of_Z z)).

Lemma int_answers_of ts r1 z iv : r_type r1 = TInt -> r_value r1 = RInt iv -> iv_ok iv -> show_int iv = z ->
  int_answers ts r1 z.
Proof.
  intros Ht Hv Hok <-. split; [|split; [|split]].
  - exists (size_code iv). split; [apply int_size_answer; assumption|].
    pose proof (size_code_sound iv Hok) as Hs.
    destruct iv as [x|x]; cbn [size_code show_int iv_ok] in *; unfold min_size in *.
    + rewrite Hok in *. destruct (fits32 x); split; try lia; left; reflexivity.
    + split; [lia|]. destruct (fits32 x) eqn:E32; [right; split; [reflexivity|apply fits32_64; exact E32]|].
      destruct (fits64 x); [right; split; reflexivity|left; reflexivity].
  - apply int_value_answer; assumption.
  - apply int64_value_answer; assumption.
  - apply bigint_value_answer; assumption.
Qed.

(* ReadInt keeps an int64 for at most eight magnitude bytes with the top bit clear, a big.Int otherwise
   (leading zero bytes count) *)
Definition stored_int (neg : bool) (body : list N) : intval :=
  let len := N.of_nat (length body) in
  let z := (if neg then - Z.of_N (from_be body) else Z.of_N (from_be body))%Z in
  if len =? 0 then I64 0
  else if (len <? 8) || ((len =? 8) && (hd 0 body <? 128)) then I64 z else IBig z.
Definition int_of (neg : bool) (body : list N) : Z := (if neg then - Z.of_N (from_be body) else Z.of_N (from_be body))%Z.
(* the IntSize code by magnitude byte count *)
Definition size_by_bytes (neg : bool) (body : list N) : N := size_code (stored_int neg body).
Lemma show_stored neg body : show_int (stored_int neg body) = int_of neg body.
Proof.
  unfold stored_int, int_of. destruct (N.of_nat (length body) =? 0) eqn:E0.
  - destruct body; [|cbn [length] in E0; lia]. destruct neg; reflexivity.
  - destruct (_ || _); reflexivity.
Qed.

Section Enc.
Variable ts : list N -> res unit.
Hypothesis Hts : forall bs, ts bs <> Panic /\ ts bs <> OutOfFuel.

(* ---- part 1: an int wherever a value may stand ------------------------------------------------- *)
Lemma enc_int_step tot tab ctx r f tag r0 z rest' outer stk fld an : tot < two63 -> TC tab ctx ->
  SpecAgreeContP.BY (tag :: r0) -> sl_value ts (S f) ctx (tag :: r0) = Some (Some (VInt z), rest') ->
  PRE3 ts tot (r_next_inner ts) tab r (tag :: r0) outer stk fld an -> AI r ->
  exists r1, r_op ts r ONext = (r1, Some [84]) /\ r_type r1 = TInt /\ r_field r1 = fld /\ r_annots r1 = an /\
             int_answers ts r1 z.
Proof.
  intros Htot HTC Hb Hsp P Hai.
  destruct (next_scalar3 ts Hts tot Htot (r_next_inner ts) tab ctx r f tag r0 (VInt z) rest' outer stk fld an HTC
              ltac:(intros _ _; exact I) Hb Hsp I P) as (r1 & En & He & Hf & Ha & [Hty Hv] & _).
  rewrite <- nxt_next in En. pose proof (next_tok ts r r1 true En) as Eop. cbn [vtype] in Hty.
  destruct Hv as (iv & Hv & Hz).
  pose proof (AI_op ts r ONext Hai) as H1. rewrite Eop in H1. cbn [fst] in H1.
  destruct H1 as [_ Hok]. rewrite Hv in Hok. cbn [AccessorsP.rv_ok] in Hok.
  exists r1. repeat (split; [assumption|]). apply (int_answers_of ts r1 z iv Hty Hv Hok). destruct iv; exact Hz.
Qed.

(* ---- part 1b: which representation ReadInt stores, by magnitude byte count ----------------------- *)

Lemma read_int_kind tot b body rest stk (neg : bool) : tot < two63 -> Forall (fun c => c < 256) body ->
  BS b (body ++ rest) bssOnValue stk tot -> b_len b = N.of_nat (length body) ->
  b_code b = (if neg then bcNegInt else bcInt) -> (neg = true -> from_be body <> 0) ->
  exists b', b_read_int b = (b', Ok (stored_int neg body)) /\ BS b' rest (sav stk) stk tot.
Proof.
  intros Htot Hbytes Hb El Ec Hnz.
  assert (Nb : b_code b <> bcBVM) by (rewrite Ec; destruct neg; discriminate).
  destruct (readN_body tot Htot b _ rest stk Hb El Nb) as (b1 & E & Hd & _).
  unfold b_read_int, stored_int. replace (negb ((b_code b =? bcInt) || (b_code b =? bcNegInt))) with false
    by (rewrite Ec; destruct neg; reflexivity).
  rewrite E. assert (Eneg : (b_code b =? bcNegInt) = neg) by (rewrite Ec; destruct neg; reflexivity). rewrite Eneg.
  rewrite <- El.
  destruct (b_len b =? 0) eqn:E0.
  - assert (body = []) by (destruct body; [reflexivity|cbn [length] in El; lia]). subst body.
    destruct neg; [exfalso; apply Hnz; reflexivity|]. cbn [andb]. eexists. split; [reflexivity|exact Hd].
  - destruct ((b_len b <? 8) || ((b_len b =? 8) && (hd 0 body <? 128))) eqn:Es.
    + rewrite from_be64_small by (auto; rewrite El in Es; lia).
      destruct (from_be body =? 0) eqn:Ez.
      * destruct neg; [exfalso; apply Hnz; [reflexivity|lia]|]. cbn [andb]. eexists. split; [reflexivity|exact Hd].
      * cbn [andb]. eexists. split; [reflexivity|exact Hd].
    + destruct (from_be body =? 0) eqn:Ez.
      * destruct neg; [exfalso; apply Hnz; [reflexivity|lia]|]. cbn [andb]. eexists. split; [reflexivity|exact Hd].
      * cbn [andb]. eexists. split; [reflexivity|exact Hd].
Qed.

(* Next on an int given by its header fields, wherever a value may stand *)
Lemma enc_int_step_kind tot tab r tag r0 len r1 body rest' outer stk fld an (neg : bool) : tot < two63 ->
  SpecAgreeContP.BY (tag :: r0) -> tag / 16 = (if neg then 3 else 2) -> tag mod 16 <> 15 ->
  (if tag mod 16 =? 14 then lim_varuint r0 else Some (tag mod 16, r0)) = Some (len, r1) ->
  take_n len r1 = Some (body, rest') -> (neg = true -> from_be body <> 0) ->
  PRE3 ts tot (r_next_inner ts) tab r (tag :: r0) outer stk fld an ->
  exists r1', r_op ts r ONext = (r1', Some [84]) /\ r_type r1' = TInt /\ r_value r1' = RInt (stored_int neg body) /\
              r_field r1' = fld /\ r_annots r1' = an.
Proof.
  intros Htot Hbytes Ht Hlo Hlen Htk Hnz (K & r0' & fuel & b1 & En & He & Hfe & Hl & Hc & Hf & Ha & Hn & Hb1 & Hio1 & T & HK).
  pose proof (Forall_inv Hbytes) as Htag. pose proof (Forall_inv_tail Hbytes) as Hr0.
  assert (Hs13 : (tag / 16 =? 13) = false) by (destruct neg; lia).
  destruct (hdr_spec ts tot Htot b1 tag r0 len r1 body rest' outer stk Htag Hr0 ltac:(destruct neg; lia) Hlo ltac:(destruct neg; lia))
    as (b' & E1 & Hb' & Ec & El & Elb & Hbb & Hbr); try assumption.
  { rewrite Hs13. cbn [andb]. rewrite orb_false_r. exact Hlen. }
  { rewrite Hs13. reflexivity. }
  { destruct neg; lia. }
  rewrite <- Hn in E1. pose proof (bs_null _ _ _ _ _ Hb') as Nl.
  assert (Ec' : b_code b' = (if neg then bcNegInt else bcInt)) by (rewrite Ec, Ht; destruct neg; reflexivity).
  destruct (read_int_kind tot b' body (rest' ++ outer) stk neg Htot Hbb Hb' El Ec' Hnz) as (b'' & Er & Hb'').
  assert (Eraw := raw_int ts (r_next_inner ts) fuel r0' b' b'' _ E1 ltac:(destruct neg; [right|left]; exact Ec') Nl Er).
  destruct K as [|k]; [cbn [length] in HK; lia|].
  eexists. split.
  - apply (next_tok ts r _ true). rewrite nxt_next, En. cbn [r_next_loop]. rewrite Eraw.
    cbn [r_eof rs_val rs_bits]. rewrite Hfe. reflexivity.
  - cbn [r_type r_value r_field r_annots rs_val rs_bits]. repeat split; assumption.
Qed.

(* ---- part 2: the first top-level value after the version marker ----------------------------------- *)
Lemma start_PRE3 body : 4 + N.of_nat (length body) < two63 ->
  PRE3 ts (4 + N.of_nat (length body)) (r_next_inner ts) LSys (r_init (bvm ++ body) false) body [] [] None [].
Proof.
  clear Hts. intros Htot. set (tot := 4 + N.of_nat (length body)) in *.
  destruct (start_next body) as (E1 & Ec & Es). destruct (start_bvm body) as (E2 & I2 & S2 & K2 & N2 & P2).
  pose proof (start_BS body tot eq_refl) as Hb2.
  set (inp := bvm ++ body) in *.
  set (b1 := fst (b_next (b_init inp false))) in *. set (b2 := fst (b_read_bvm b1)) in *.
  apply to3; [|reflexivity].
  exists (S (length inp)), (rs_lst (rs_bits (rs_bits (r_clear (r_init inp false)) b1) b2) (Some LSys)),
         (S (S (length inp))), b2.
  split; [unfold NXT, r_next_with, input_fuel; cbn [r_init r_eof r_err orb r_bits b_init b_fuel];
          apply loop_false; apply raw_bvm; assumption|].
  cbn [r_bits r_ctx r_eof r_err r_lst r_field r_annots r_type r_value
       rs_bits rs_ctx rs_eof rs_err rs_lst rs_field rs_annots rs_val r_clear fst snd r_init].
  repeat (split; [solve [auto]|]). split; [rewrite app_nil_r; exact Hb2|]. split; [reflexivity|]. split; [exact Logic.I|].
  subst inp. rewrite app_nil_r. unfold bvm. cbn [length app]. lia.
Qed.

Theorem enc_int_top f tag r0 z rest' : AccessorsP.BY (tag :: r0) -> 4 + N.of_nat (length (tag :: r0)) < two63 ->
  sl_value ts (S f) system_ctx (tag :: r0) = Some (Some (VInt z), rest') ->
  exists r1, r_op ts (r_init (bvm ++ tag :: r0) false) ONext = (r1, Some [84]) /\ r_type r1 = TInt /\
             r_field r1 = None /\ r_annots r1 = [] /\ int_answers ts r1 z.
Proof.
  intros Hb Htot Hsp.
  apply (enc_int_step _ LSys system_ctx _ f tag r0 z rest' [] [] None [] Htot TC_sys Hb Hsp (start_PRE3 _ Htot)).
  apply AI_init. unfold AccessorsP.BY. apply Forall_app. split; [|exact Hb].
  unfold bvm. repeat constructor.
Qed.

(* ---- part 3: the explicit encodings of an int ----------------------------------------------------------- *)
(* tag 0x2L (positive) / 0x3L (negative); [lenb = None]: L = the number of magnitude bytes (< 14);
   [lenb = Some ds]: L = 14 and [ds] is a VarUInt spelling of that number; [body]: the magnitude, big-endian,
   with any number of leading zero bytes *)
Definition int_enc (neg : bool) (lenb : option (list N)) (body : list N) : list N :=
  match lenb with
  | None => ((if neg then 48 else 32) + N.of_nat (length body)) :: body
  | Some ds => (if neg then 62 else 46) :: ds ++ body
  end.
Definition int_enc_ok (neg : bool) (lenb : option (list N)) (body rest : list N) : Prop :=
  AccessorsP.BY body /\ (neg = true -> from_be body <> 0) /\
  match lenb with
  | None => (length body < 14)%nat
  | Some ds => AccessorsP.BY ds /\ lim_varuint (ds ++ body ++ rest) = Some (N.of_nat (length body), body ++ rest)
  end.


Lemma int_enc_header neg lenb body rest : int_enc_ok neg lenb body rest ->
  exists tag r0 len r1, int_enc neg lenb body ++ rest = tag :: r0 /\ tag < 256 /\ tag / 16 = (if neg then 3 else 2) /\
    tag mod 16 <> 15 /\ (if tag mod 16 =? 14 then lim_varuint r0 else Some (tag mod 16, r0)) = Some (len, r1) /\
    take_n len r1 = Some (body, rest) /\ (AccessorsP.BY rest -> AccessorsP.BY r0).
Proof.
  clear Hts. intros (Hb & Hnz & Hl). destruct lenb as [ds|]; cbn [int_enc app].
  - destruct Hl as [Hds Hlim].
    exists (if neg then 62 else 46), ((ds ++ body) ++ rest), (N.of_nat (length body)), (body ++ rest).
    split; [reflexivity|]. split; [destruct neg; lia|]. split; [destruct neg; reflexivity|]. split; [destruct neg; cbn; lia|].
    split; [replace ((if neg then 62 else 46) mod 16 =? 14) with true by (destruct neg; reflexivity); rewrite <- app_assoc; exact Hlim|].
    split; [apply RoundTripBinS.take_n_app|]. intros Hr. unfold AccessorsP.BY in *. rewrite !Forall_app. auto.
  - set (n := N.of_nat (length body)). assert (Hn : n < 14) by lia.
    exists ((if neg then 48 else 32) + n), (body ++ rest), n, (body ++ rest).
    split; [reflexivity|]. split; [destruct neg; lia|]. split; [destruct neg; lia|].
    assert (Em : ((if neg then 48 else 32) + n) mod 16 = n) by (destruct neg; lia). rewrite Em.
    split; [lia|]. split; [replace (n =? 14) with false by lia; reflexivity|].
    split; [apply RoundTripBinS.take_n_app|]. intros Hr. unfold AccessorsP.BY in *. rewrite Forall_app. auto.
Qed.

(* the spec decoder reads every such encoding as the int [int_of neg body] *)
Lemma int_enc_spec f ctx neg lenb body rest : int_enc_ok neg lenb body rest ->
  sl_value ts (S f) ctx (int_enc neg lenb body ++ rest) = Some (Some (VInt (int_of neg body)), rest).
Proof.
  clear Hts. intros Hok. destruct (int_enc_header _ _ _ _ Hok) as (tag & r0 & len & r1 & E & Htag & Ht & Hlo & Hlen & Htk & _).
  destruct Hok as (_ & Hnz & _).
  rewrite E. cbn [sl_value]. cbv zeta.
  replace (tag / 16 =? 15) with false by (destruct neg; lia). replace (tag mod 16 =? 15) with false by lia.
  replace (tag / 16 =? 1) with false by (destruct neg; lia). replace (tag / 16 =? 13) with false by (destruct neg; lia).
  cbn [andb]. rewrite orb_false_r, Hlen, Htk. replace (tag / 16 =? 0) with false by (destruct neg; lia).
  rewrite RoundTripBinS.sp_uint_from_be. unfold int_of. destruct neg; rewrite Ht; cbn [N.eqb Pos.eqb].
  - replace (from_be body =? 0) with false by (specialize (Hnz eq_refl); lia). reflexivity.
  - reflexivity.
Qed.

Definition int_answers_exact (r1 : rstate) (neg : bool) (body : list N) : Prop :=
  r_op ts r1 OIntSize = (r1, Some (122 :: dec_of_N (size_by_bytes neg body))) /\
  r_op ts r1 OInt = (r1, Some (if fits32 (int_of neg body) then 73 :: dec_of_Z (int_of neg body) else t_err)) /\
  r_op ts r1 OInt64 = (r1, Some (if fits64 (int_of neg body) then 73 :: dec_of_Z (int_of neg body) else t_err)) /\
  r_op ts r1 OBigInt = (r1, Some (73 :: dec_of_Z (int_of neg body))).

Lemma int_answers_exact_of r1 neg body : r_type r1 = TInt -> r_value r1 = RInt (stored_int neg body) ->
  int_answers_exact r1 neg body.
Proof.
  intros Ht Hv. unfold int_answers_exact. rewrite <- show_stored. split; [|split; [|split]].
  - apply int_size_answer; assumption.
  - apply int_value_answer; assumption.
  - apply int64_value_answer; assumption.
  - apply bigint_value_answer; assumption.
Qed.

(* the explicit encoding wherever a value may stand *)
Theorem enc_int_anywhere tot tab r neg lenb body rest outer stk fld an : tot < two63 ->
  int_enc_ok neg lenb body rest -> AccessorsP.BY rest ->
  PRE3 ts tot (r_next_inner ts) tab r (int_enc neg lenb body ++ rest) outer stk fld an ->
  exists r1, r_op ts r ONext = (r1, Some [84]) /\ r_type r1 = TInt /\ r_field r1 = fld /\ r_annots r1 = an /\
             int_answers_exact r1 neg body.
Proof.
  intros Htot Hok Hr P. destruct (int_enc_header _ _ _ _ Hok) as (tag & r0 & len & r1 & E & Htag & Ht & Hlo & Hlen & Htk & Hb0).
  rewrite E in P. destruct Hok as (_ & Hnz & _).
  destruct (enc_int_step_kind tot tab r tag r0 len r1 body rest outer stk fld an neg Htot
              ltac:(constructor; [exact Htag|exact (Hb0 Hr)]) Ht Hlo Hlen Htk Hnz P) as (r1' & Eop & Hty & Hv & Hf & Ha).
  exists r1'. repeat (split; [assumption|]). apply int_answers_exact_of; assumption.
Qed.

(* positions reached by the traversal lemmas of C03: [RS] is the reader after any Next / StepIn / StepOut of a
   traversal (Bin/ReaderTraceP.v); the int is the next value at top level, in a list or in an s-expression ... *)
Theorem enc_int_after tot tab r neg lenb body rest outer stk : tot < two63 ->
  RS tot tab r (int_enc neg lenb body ++ rest) outer stk -> b_ioerr (r_bits r) = false -> sav stk = bssBeforeValue ->
  int_enc_ok neg lenb body rest -> AccessorsP.BY rest ->
  exists r1, r_op ts r ONext = (r1, Some [84]) /\ r_type r1 = TInt /\ r_field r1 = None /\ r_annots r1 = [] /\
             int_answers_exact r1 neg body.
Proof.
  intros Htot Hrs Hio Hsv Hok Hr. apply (enc_int_anywhere tot tab r neg lenb body rest outer stk None [] Htot Hok Hr).
  apply to3; [|exact Hsv]. apply RS_PRE2; assumption.
Qed.
(* ... or the value of the next field of a struct, after its field name [sid] *)
Theorem enc_int_field tot tab ctx r l' sid y neg lenb body rest outer c e stk : tot < two63 -> TC tab ctx ->
  RS tot tab r l' outer ((c, e) :: stk) -> b_ioerr (r_bits r) = false -> sav ((c, e) :: stk) = bssBeforeFieldID ->
  AccessorsP.BY l' -> lim_varuint l' = Some (sid, int_enc neg lenb body ++ rest) -> resolve_sid ctx sid = Some y ->
  int_enc_ok neg lenb body rest -> AccessorsP.BY rest ->
  exists r1, r_op ts r ONext = (r1, Some [84]) /\ r_type r1 = TInt /\ r_field r1 = Some (tok_of_sym y sid) /\
             r_annots r1 = [] /\ int_answers_exact r1 neg body.
Proof.
  intros Htot HTC Hrs Hio Hsv Hb Hv Hy Hok Hr.
  apply (enc_int_anywhere tot tab r neg lenb body rest outer ((c, e) :: stk) _ [] Htot Hok Hr).
  apply (field3 ts Hts tot Htot (r_next_inner ts) tab ctx r l' sid _ y outer c e stk HTC Hsv Hb Hv Hy).
  apply RS_PRE2; assumption.
Qed.

(* ... and as the first top-level value after the version marker *)
Theorem enc_int_top_exact neg lenb body rest : int_enc_ok neg lenb body rest -> AccessorsP.BY rest ->
  4 + N.of_nat (length (int_enc neg lenb body ++ rest)) < two63 ->
  exists r1, r_op ts (r_init (bvm ++ int_enc neg lenb body ++ rest) false) ONext = (r1, Some [84]) /\ r_type r1 = TInt /\
             r_field r1 = None /\ r_annots r1 = [] /\ int_answers_exact r1 neg body.
Proof.
  intros Hok Hr Htot. apply (enc_int_anywhere _ LSys _ neg lenb body rest [] [] None [] Htot Hok Hr). apply start_PRE3, Htot.
Qed.
End Enc.

(* ---- the size by byte count is never too small, and exact up to eight bytes with the top bit clear ------------ *)
Lemma stored_int_ok neg body : AccessorsP.BY body -> iv_ok (stored_int neg body).
Proof.
  intros Hb. unfold stored_int. destruct (N.of_nat (length body) =? 0) eqn:E0; [reflexivity|].
  destruct ((N.of_nat (length body) <? 8) || ((N.of_nat (length body) =? 8) && (hd 0 body <? 128))) eqn:Es; [|exact I].
  pose proof (from_be64_int64 body (N.of_nat (length body)) Hb ltac:(lia) Es) as Hlt.
  rewrite from_be64_small in Hlt by (try exact Hb; lia).
  unfold iv_ok, fits64, fits. destruct neg; lia.
Qed.
Lemma size_by_bytes_sound neg body : AccessorsP.BY body -> min_size (int_of neg body) <= size_by_bytes neg body <= 3.
Proof.
  intros Hb. unfold size_by_bytes. rewrite <- show_stored. split; [apply size_code_sound, stored_int_ok, Hb|].
  destruct (stored_int neg body) as [x|x]; cbn [size_code]; [destruct (fits32 x)|]; lia.
Qed.
Lemma size_by_bytes_small neg body : AccessorsP.BY body ->
  (length body < 8)%nat \/ (length body = 8%nat /\ hd 0 body < 128) -> size_by_bytes neg body = min_size (int_of neg body).
Proof.
  intros Hb Hs. pose proof (stored_int_ok neg body Hb) as Hok. pose proof (show_stored neg body) as Hz. revert Hok Hz.
  unfold size_by_bytes, stored_int. fold (int_of neg body).
  destruct (N.of_nat (length body) =? 0) eqn:E0.
  - intros _ Hz. cbn [show_int] in Hz. rewrite <- Hz. reflexivity.
  - replace ((N.of_nat (length body) <? 8) || ((N.of_nat (length body) =? 8) && (hd 0 body <? 128))) with true by lia.
    cbn [iv_ok]. intros Hok _. apply size_code_exact_i64, Hok.
Qed.
Lemma size_by_bytes_big neg body : (8 < length body)%nat \/ (length body = 8%nat /\ 128 <= hd 0 body) -> size_by_bytes neg body = 3.
Proof.
  intros Hs. unfold size_by_bytes, stored_int.
  replace (N.of_nat (length body) =? 0) with false by lia.
  replace ((N.of_nat (length body) <? 8) || ((N.of_nat (length body) =? 8) && (hd 0 body <? 128))) with false by lia.
  reflexivity.
Qed.

(* the hypotheses are satisfiable: five with nine leading zero bytes, inline length; -2^63 with a two-octet VarUInt length *)
Example int_enc_ok_five_nine : int_enc_ok false None [0; 0; 0; 0; 0; 0; 0; 0; 0; 5] [15].
Proof. split; [repeat constructor|]. split; [discriminate|]. cbn [length]. lia. Qed.
Example int_enc_ok_min64_long : int_enc_ok true (Some [0; 136]) [128; 0; 0; 0; 0; 0; 0; 0] [].
Proof. split; [repeat constructor|]. split; [intros _; vm_compute; discriminate|]. split; [repeat constructor|vm_compute; reflexivity]. Qed.

(* the length field spelled as the minimal VarUInt (what the Writer emits) is one of the accepted spellings *)
Lemma varuint_bytes n : AccessorsP.BY (append_varuint [] n).
Proof.
  unfold AccessorsP.BY. rewrite RoundTripBinS.append_varuint_digits. apply Forall_app. split.
  - eapply Forall_impl; [|apply (be_loop_forall 128); [lia|constructor]]. cbv beta. intros a Ha. lia.
  - constructor; [lia|constructor].
Qed.
Lemma lim_varuint_minimal n x : n < two64 -> lim_varuint (append_varuint [] n ++ x) = Some (n, x).
Proof.
  intros Hn. unfold lim_varuint. rewrite (RoundTripBinS.sp_varuint_roundtrip n x Hn).
  pose proof (varuint_len_ok [] n) as VL. cbn [length] in VL. pose proof (varuint_len_le10 n Hn) as L10.
  rewrite app_length. replace (N.of_nat (length (append_varuint [] n) + length x - length x) <=? 10) with true by lia.
  replace (n <? two64) with true by lia. reflexivity.
Qed.
Lemma int_enc_ok_minimal neg body rest : AccessorsP.BY body -> (neg = true -> from_be body <> 0) ->
  N.of_nat (length body) < two64 ->
  int_enc_ok neg (Some (append_varuint [] (N.of_nat (length body)))) body rest.
Proof.
  intros Hb Hnz Hl. split; [exact Hb|]. split; [exact Hnz|]. split; [apply varuint_bytes|apply lim_varuint_minimal, Hl].
Qed.
Lemma int_enc_ok_inline neg body rest : AccessorsP.BY body -> (neg = true -> from_be body <> 0) ->
  (length body < 14)%nat -> int_enc_ok neg None body rest.
Proof. intros Hb Hnz Hl. split; [exact Hb|]. split; [exact Hnz|exact Hl]. Qed.
