(* BinReaderTsP.v — the timestamp acceptance test of the repaired tree neither panics nor
   runs out of fuel, so it satisfies the hypothesis of the binary reader theorems (C06bin). *)
From Coq Require Import List NArith ZArith Bool Lia ZifyBool ZifyN ZifyNat.
From IonV Require Import Base.Wire Bin.Bits Num.Calendar Num.Timestamp Bin.BinReaderTs.
Import ListNotations.
Open Scope N_scope.

Definition total {A} (r : res A) : Prop := r <> Panic /\ r <> OutOfFuel.

Lemma total_ok {A} (a : A) : total (Ok a). Proof. split; discriminate. Qed.
Lemma total_err {A} : total (@Err A). Proof. split; discriminate. Qed.
Lemma total_bind {A B} (r : res A) (f : A -> res B) :
  total r -> (forall a, r = Ok a -> total (f a)) -> total (bind r f).
Proof.
  intros [H1 H2] Hf. destruct r; cbn [bind]; try tauto; [apply Hf; reflexivity|apply total_err].
Qed.
Lemma total_if {A} (c : bool) (x y : res A) : total x -> total y -> total (if c then x else y).
Proof. destruct c; auto. Qed.

Lemma read_varuint_loop_total fuel : forall max val len inp, max - len < N.of_nat fuel ->
  total (read_varuint_loop fuel max val len inp).
Proof.
  induction fuel as [|f IH]; intros max val len inp H; [lia|]. cbn [read_varuint_loop].
  destruct (max <=? len) eqn:E; [apply total_err|]. destruct inp as [|c rest]; [apply total_err|].
  destruct (max_u64_shr7 <? val); [apply total_err|]. destruct (128 <=? c); [apply total_ok|].
  apply IH. lia.
Qed.
Lemma read_varuint_total max inp : total (read_varuint max inp).
Proof. unfold read_varuint. apply read_varuint_loop_total. lia. Qed.

Lemma read_varint_loop_total fuel : forall max val len neg inp, max - len < N.of_nat fuel ->
  total (read_varint_loop fuel max val len neg inp).
Proof.
  induction fuel as [|f IH]; intros max val len neg inp H; [lia|]. cbn [read_varint_loop].
  destruct (max <=? len) eqn:E; [apply total_err|]. destruct inp as [|c rest]; [apply total_err|].
  destruct (max_i64_shr7 <? val); [apply total_err|]. destruct (128 <=? c); [apply total_ok|].
  apply IH. lia.
Qed.
Lemma read_varint_total max inp : total (read_varint max inp).
Proof.
  unfold read_varint. destruct (max =? 0); [apply total_err|]. destruct inp as [|c rest]; [apply total_err|].
  destruct (128 <=? c); [apply total_ok|]. apply read_varint_loop_total. lia.
Qed.

Lemma read_decimal_total len inp : total (read_decimal len inp).
Proof.
  unfold read_decimal. destruct (len =? 0); [apply total_ok|].
  apply total_bind; [apply read_varint_total|]. intros [[[v sg] vl] rest] _.
  destruct (_ || _)%bool; [apply total_err|]. cbv zeta.
  destruct (len - vl =? 0) eqn:E0; [apply total_ok|].
  destruct (N.of_nat (length rest) <? len - vl) eqn:E1; [apply total_err|].
  destruct (firstn (N.to_nat (len - vl)) rest) as [|b0 bs] eqn:Ef.
  - exfalso. assert (L : length (firstn (N.to_nat (len - vl)) rest) = N.to_nat (len - vl))
      by (apply firstn_length_le; lia). rewrite Ef in L. cbn [length] in L. lia.
  - cbn [read_signmag bind]. apply total_ok.
Qed.

Lemma dec_trunc_total n sc : total (dec_trunc n sc).
Proof.
  unfold dec_trunc. cbv zeta.
  repeat match goal with |- context [if ?c then _ else _] => destruct c end;
    first [apply total_ok|apply total_err].
Qed.
Lemma dec_round_patched_total n sc : total (dec_round patched n sc).
Proof.
  unfold dec_round. cbn [patched fx_bround]. cbv zeta.
  repeat match goal with |- context [if ?c then _ else _] => destruct c end;
    first [apply total_ok|apply total_err].
Qed.

Lemma read_nsecs_patched_total len inp : total (read_nsecs patched len inp).
Proof.
  unfold read_nsecs. apply total_bind; [apply read_decimal_total|]. intros [exp coef] _. cbv zeta.
  cbn [patched fx_exp].
  match goal with |- context [if ?c then Err else _] => destruct c; [apply total_err|] end.
  apply total_bind.
  { repeat match goal with |- context [if ?c then _ else _] => destruct c end;
      first [apply total_ok|apply total_err]. }
  intros [n sc] _. apply total_bind; [apply dec_trunc_total|]. intros tr _.
  destruct (_ || _)%bool; [apply total_err|].
  apply total_bind; [apply dec_round_patched_total|]. intros nsec _.
  destruct (_ =? _)%Z; apply total_ok.
Qed.

Lemma read_fields_total k : forall len pr fs inp, total (read_fields k len pr fs inp).
Proof.
  induction k as [|k IH]; intros len pr fs inp; cbn [read_fields]; [apply total_ok|].
  destruct (_ && _)%bool; [|apply total_ok].
  apply total_bind; [apply read_varuint_total|]. intros [[val vl] rest] _. cbv zeta.
  destruct (Nat.eqb _ 3); [destruct (_ =? 0); [apply total_err|apply IH]|apply IH].
Qed.

Lemma try_create_total c fs nsecs ov off neg p fp : total (try_create c fs nsecs ov off neg p fp).
Proof.
  unfold try_create. cbv zeta.
  repeat match goal with |- context [if ?c then _ else _] => destruct c end;
    first [apply total_ok|apply total_err].
Qed.

Lemma read_ts_body_patched_total len inp : total (read_ts_body patched len inp).
Proof.
  unfold read_ts_body. apply total_bind; [apply read_varint_total|]. intros [[[off neg] olen] rest] _. cbv zeta.
  apply total_bind; [apply read_fields_total|]. intros [[[len' pr] fs] rest'] _.
  apply total_if; [apply total_err|].
  apply total_bind; [destruct (0 <? len'); [apply read_nsecs_patched_total|apply total_ok]|].
  intros [[nsecs ov] fp] _. apply try_create_total.
Qed.

Theorem ts_ok_default_total body : ts_ok_default body <> Panic /\ ts_ok_default body <> OutOfFuel.
Proof.
  unfold ts_ok_default. destruct (read_ts_body_patched_total (N.of_nat (length body)) body) as [H1 H2].
  destruct (read_ts_body patched (N.of_nat (length body)) body); split; try discriminate; tauto.
Qed.
