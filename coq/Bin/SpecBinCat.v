(* SpecBinCat.v — SPECIFICATION: the strict binary decoder of Bin/SpecBin.v with a
   catalog.  Values are decoded by SpecBin.sp_value; the symbol context evolves
   by the rules of Sym/LstSpec.v (version marker, replacing and appending local
   symbol tables, imports resolved against the catalog).  Shares nothing with
   the reader model.  No proofs. *)
From Coq Require Import String List NArith ZArith Bool.
From IonV Require Import Base.Wire Data.Ion Bin.SpecBin Sym.LstSpec.
Import ListNotations.
Open Scope N_scope.

Definition tok_of_symv (y : symv) : tok :=
  match y with
  | SymText t => {| tk_text := Some t; tk_sid := (-1)%Z |}
  | SymSid n => {| tk_text := None; tk_sid := Z.of_N n |}
  end.

(* the type of a non-null value *)
Definition type_of (v : value) : N :=
  match v with
  | VNull t => t | VBool _ => TBool | VInt _ => TInt | VFloat _ => TFloat | VDecimal _ => TDecimal
  | VTimestamp _ => TTimestamp | VSymbol _ => TSymbol | VString _ => TString | VClob _ => TClob
  | VBlob _ => TBlob | VList _ => TList | VSexp _ => TSexp | VStruct _ => TStruct | VAnn _ _ => TNoType
  end.

(* a decoded value as the symbol-table rules look at it (annotations play no role) *)
Fixpoint tval_of_value (v : value) : tval :=
  match v with
  | VNull t => TvNull t
  | VInt z => TvInt z
  | VString t => TvString t
  | VSymbol y => TvSymbol (tok_of_symv y)
  | VList l => TvList (map tval_of_value l)
  | VStruct fs => TvStruct (map (fun '(n, x) => (tok_of_symv n, tval_of_value x)) fs)
  | VAnn _ x => tval_of_value x
  | _ => TvOther (type_of v)
  end.
Definition tfields (fs : list (symv * value)) : list (tok * tval) :=
  map (fun '(n, x) => (tok_of_symv n, tval_of_value x)) fs.

Fixpoint sp_stream_cat (k : nat) (c : scatalog) (cx : ctx) (l : list N) : option (list value) :=
  match l with
  | [] => Some []
  | _ =>
    match k with
    | O => None
    | S k' =>
      match l with
      | 224 :: 1 :: 0 :: 234 :: r =>
        match spec_step c cx IVM with Ok cx' => sp_stream_cat k' c cx' r | _ => None end
      | _ =>
        match sp_value k [Slots cx] l with
        | Some (None, r) => sp_stream_cat k' c cx r
        | Some (Some v, r) =>
          match is_lst v with
          | Some fs =>
            match (do it <- item_of_struct (tfields fs); spec_step c cx it) with
            | Ok cx' => sp_stream_cat k' c cx' r
            | _ => None                                  (* an invalid symbol table invalidates the stream *)
            end
          | None => option_map (cons v) (sp_stream_cat k' c cx r)
          end
        | None => None
        end
      end
    end
  end.

Definition sdecode_cat (c : scatalog) (l : list N) : option (list value) :=
  match l with
  | 224 :: 1 :: 0 :: 234 :: r => sp_stream_cat (List.length l) c LstSpec.system_ctx r
  | _ => None
  end.
